"""Helpers of the C18 rules: facts are located by what the code *does*, never by
its spelling.

* tests on a table (``is None`` in every spelling, non-emptiness in every spelling),
* effect-free statements (what may precede a guard without weakening it),
* element flow (``ElemFlow``): of which container is an expression an element, through
  for targets, tuple unpacking, constant subscripts, ``.values()/.items()``,
  ``list()/tuple()/sorted()`` snapshots, comprehensions, generator expressions,
  loop + append builders, ``[*a, *b]``, ``a + b``;
* forward value flow (``Flow``): where does the value of an expression end up
  (locals, tuple packing/unpacking, subscripts, returned to callers, passed to helpers,
  stored in a container, called, receiver of a method call);
* callables (``callback_removals``): lambda, nested def, functools.partial, bound
  method, default-argument binding are the same thing;
* a finite-domain interpreter with forking on unknown conditions (``explore``): used
  for "on every path on which C holds, the effect is E" over send_message.
"""

import ast

from ..rulekit import *
from ..model import AnalysisError

SNAPSHOT_FUNCS = ("list", "tuple", "sorted", "set", "frozenset")
TRANSPARENT_ITER_FUNCS = SNAPSHOT_FUNCS + ("iter", "reversed")


# ---------------------------------------------------------------------------
# tests on tables


def _strip_not(e):
    pol = True
    while isinstance(e, ast.UnaryOp) and isinstance(e.op, ast.Not):
        e = e.operand
        pol = not pol
    return e, pol


def chain_of(fnode, e):
    """attribute chain text of e, following single-assignment locals (aliases) -- also one bound by a parallel
    assignment (`old, self.t = self.t, {}`: `old` is the table as it was)."""
    e = resolve_local(fnode, e)
    for _ in range(3):
        if not isinstance(e, ast.Name):
            break
        ws = writes_to_name(fnode, e.id)
        if len(ws) != 1 or not isinstance(ws[0], ast.Assign) or len(ws[0].targets) != 1:
            break
        t, v = ws[0].targets[0], ws[0].value
        if not (isinstance(t, (ast.Tuple, ast.List)) and isinstance(v, (ast.Tuple, ast.List)) and len(t.elts) == len(v.elts)
                and not any(isinstance(x, ast.Starred) for x in t.elts + v.elts)):
            break
        i = next((i for i, x in enumerate(t.elts) if isinstance(x, ast.Name) and x.id == e.id), None)
        if i is None:
            break
        e = resolve_local(fnode, v.elts[i])
    return chain(e)


def is_none_test(fnode, e, chain_text):
    """True if e <=> (`chain_text` is None), False if e <=> (`chain_text` is not None),
    None if e is not such a test.  Spellings: `x is None`, `None is x`, `x == None`,
    `not x is not None`, ..., with x the chain or a local alias of it."""
    e, pol = _strip_not(e)
    if isinstance(e, ast.Compare) and len(e.ops) == 1 and isinstance(e.ops[0], (ast.Is, ast.IsNot, ast.Eq, ast.NotEq)):
        l, r = e.left, e.comparators[0]
        for a, b in ((l, r), (r, l)):
            if isinstance(b, ast.Constant) and b.value is None and chain_of(fnode, a) == chain_text:
                return pol == isinstance(e.ops[0], (ast.Is, ast.Eq))
    return None


def none_outcomes(cfg, fnode, chain_text):
    """T/F pseudo-nodes of the CFG on which `chain_text is None` is known to hold."""
    out = []
    for n in cfg.nodes:
        if n.kind not in ("T", "F") or isinstance(n.ast, (ast.For, ast.AsyncFor)):
            continue
        v = is_none_test(fnode, n.ast, chain_text)
        if v is not None and v == (n.kind == "T"):
            out.append(n.id)
    return out


def _int_const(e):
    if isinstance(e, ast.Constant) and isinstance(e.value, int) and not isinstance(e.value, bool):
        return e.value
    return None


def nonempty_test(fnode, e, bare=False):
    """(chain text, polarity): e <=> (the container `chain` is non-empty) when polarity
    is True, <=> (it is empty) when False; None if e is no such test.
    Spellings: `t`, `len(t)`, `len(t) > 0`, `len(t) != 0`, `len(t) >= 1`, `0 < len(t)`,
    `t != {}`, `bool(t)`, and the negations `not t`, `len(t) == 0`, `len(t) < 1`, `t == {}`."""
    e, pol = _strip_not(e)

    def container(x):
        if isinstance(x, ast.Call) and chain(x.func) == "bool" and len(x.args) == 1:
            x = x.args[0]
        return chain_of(fnode, x)

    def length(x):
        if isinstance(x, ast.Call) and chain(x.func) == "len" and len(x.args) == 1:
            return chain_of(fnode, x.args[0])
        return None

    if isinstance(e, ast.Compare) and len(e.ops) == 1:
        op, l, r = e.ops[0], e.left, e.comparators[0]
        # normalise to `len(t) OP const`
        if length(l) is None and length(r) is not None:
            flip = {ast.Lt: ast.Gt, ast.Gt: ast.Lt, ast.LtE: ast.GtE, ast.GtE: ast.LtE}
            op = flip.get(type(op), type(op))()
            l, r = r, l
        c = length(l)
        k = _int_const(r)
        if c is not None and k is not None:
            # over len >= 0: which of {0, >0} satisfy the comparison?
            def sat(n):
                return {ast.Lt: n < k, ast.LtE: n <= k, ast.Gt: n > k, ast.GtE: n >= k, ast.Eq: n == k, ast.NotEq: n != k}.get(type(op))
            z, p1, p9 = sat(0), sat(1), sat(10 ** 9)
            if z is None:
                return None
            if z is False and p1 is True and p9 is True:
                return c, pol
            if z is True and p1 is False and p9 is False:
                return c, not pol
            return None
        # comparison with an empty display
        for a, b in ((l, r), (r, l)):
            empty = (isinstance(b, (ast.Dict, ast.List, ast.Set, ast.Tuple)) and not getattr(b, "keys", None) and not getattr(b, "elts", None)) or \
                    (isinstance(b, ast.Call) and chain(b.func) in ("dict", "list", "set", "tuple") and not b.args and not b.keywords)
            if empty and isinstance(op, (ast.Eq, ast.NotEq)) and container(a):
                return container(a), pol == isinstance(op, ast.NotEq)
        return None
    c = length(e) or container(e)
    # (a bare name is only read as a container when the caller says that it is one: a parameter that receives a table)
    if c is not None and ("." in c or bare):
        return c, pol
    return None


def known_empty_at(cfg, fnode, nid, chain_text, bare=False):
    """Does a dominating branch outcome establish that the container is empty at node nid?"""
    for e, pol, _ in cfg.guards(nid):
        if isinstance(e, (ast.For, ast.AsyncFor)):
            continue
        t = nonempty_test(fnode, e, bare)
        if t is not None and t[0] == chain_text and t[1] != pol:
            return True
    return False


def emptiness_outcomes(cfg, fnode, chain_text, bare=False):
    """T/F pseudo-nodes of the CFG on which the container is known to be empty"""
    out = []
    for n in cfg.nodes:
        if n.kind not in ("T", "F") or isinstance(n.ast, (ast.For, ast.AsyncFor)):
            continue
        t = nonempty_test(fnode, n.ast, bare)
        if t is not None and t[0] == chain_text and t[1] != (n.kind == "T"):
            out.append(n.id)
    return out


def known_nonempty_at(cfg, fnode, nid, chain_text, bare=False):
    for e, pol, _ in cfg.guards(nid):
        if isinstance(e, (ast.For, ast.AsyncFor)):
            continue
        t = nonempty_test(fnode, e, bare)
        if t is not None and t[0] == chain_text and t[1] == pol:
            return True
    return False


# ---------------------------------------------------------------------------
# effect-free statements


def _pure_expr(e):
    """No call (except isinstance), no await/yield, no subscript (may raise on a retired
    table), no walrus: evaluating e can neither have an effect nor fail on a retired table."""
    for n in ast.walk(e):
        if isinstance(n, ast.Call):
            if chain(n.func) != "isinstance":
                return False
        elif isinstance(n, (ast.Await, ast.Yield, ast.YieldFrom, ast.Subscript, ast.NamedExpr, ast.Lambda, ast.ListComp, ast.SetComp, ast.DictComp, ast.GeneratorExp, ast.Starred)):
            return False
    return True


def effect_free(st):
    """Statement that may stand in front of a guard without changing what the guard
    protects: docstring, pass, logging, nested def, binding a local to a pure expression."""
    if st is None or isinstance(st, (ast.Pass, ast.FunctionDef, ast.AsyncFunctionDef, ast.Global, ast.Nonlocal)):
        return True
    if isinstance(st, ast.Expr):
        if isinstance(st.value, ast.Constant):
            return True
        return isinstance(st.value, ast.Call) and is_log_call(st.value)
    if isinstance(st, (ast.Assign, ast.AnnAssign)):
        targets = st.targets if isinstance(st, ast.Assign) else [st.target]
        if st.value is None:
            return True
        for t in targets:
            for x in (t.elts if isinstance(t, (ast.Tuple, ast.List)) else [t]):
                if not isinstance(x, ast.Name):
                    return False
        return _pure_expr(st.value)
    return False


# ---------------------------------------------------------------------------
# element flow: "of which container is this expression an element?"
#
# shapes:  ("src", chain text, kind, path)   kind: "val" (dict value / element obtained by key),
#                                             "key", "iter" (direct iteration: keys of a dict, elements of a list)
#          ("tup", (shape, ...))
#          ("alt", (shape, ...))              an element of the union of several sources (a + b, chain(a, b), [*a, *b])
#          None                               unknown


def project(shape, i):
    if shape is None:
        return None
    if shape[0] == "alt":
        return ("alt", tuple(project(x, i) for x in shape[1]))
    if shape[0] == "tup":
        return shape[1][i] if isinstance(i, int) and 0 <= i < len(shape[1]) else None
    if shape[0] == "src":
        return ("src", shape[1], shape[2], shape[3] + (i,))
    return None


def flatten(shape):
    """the alternatives of a shape"""
    if shape is not None and shape[0] == "alt":
        out = []
        for x in shape[1]:
            out.extend(flatten(x))
        return out
    return [shape]


def bind_target(target, shape, env):
    if isinstance(target, ast.Name):
        env[target.id] = shape
    elif isinstance(target, (ast.Tuple, ast.List)):
        if any(isinstance(t, ast.Starred) for t in target.elts):
            for t in target.elts:
                bind_target(t.value if isinstance(t, ast.Starred) else t, None, env)
            return
        if shape is not None and shape[0] == "tup" and len(shape[1]) != len(target.elts):
            shape = None
        for i, t in enumerate(target.elts):
            bind_target(t, project(shape, i), env)


class ElemFlow:
    def __init__(self, fi):
        self.fi = fi
        self.fnode = fi.node
        self.cfg = cfg_of(fi)
        self.filters = []  # reasons why the last resolution does not cover every element
        self.snapshot = False  # the last `elements()` went through list()/tuple()/sorted()/comprehension (a copy)
        self.elt_exprs = []  # (element expression, binding environment) of every element-producing expression met

    def _parent(self, n):
        return self.cfg.parent.get(id(n))

    # -- what is iterated ------------------------------------------------
    def elements(self, it, env=None, depth=0):
        """shapes of the elements the iterable expression `it` yields (every element of the
        named source is yielded unless self.filters got an entry)."""
        env = env or {}
        if depth > 8 or it is None:
            return []
        if isinstance(it, ast.Call) and isinstance(it.func, ast.Name) and it.func.id in TRANSPARENT_ITER_FUNCS and len(it.args) == 1:
            if it.func.id in SNAPSHOT_FUNCS:
                self.snapshot = True
            return self.elements(it.args[0], env, depth + 1)
        if isinstance(it, ast.Call) and isinstance(it.func, ast.Attribute) and not it.args and not it.keywords and it.func.attr in ("values", "items", "keys", "copy"):
            c = chain_of(self.fnode, it.func.value)
            if c is None or "." not in c:
                return []
            if it.func.attr == "values":
                return [("src", c, "val", ())]
            if it.func.attr == "items":
                return [("tup", (("src", c, "key", ()), ("src", c, "val", ())))]
            if it.func.attr == "keys":
                return [("src", c, "key", ())]
            self.snapshot = True
            return [("src", c, "iter", ())]
        if isinstance(it, ast.Call) and (chain(it.func) or "").split(".")[-1] == "chain" and not it.keywords:
            out = []
            for a in it.args:
                if isinstance(a, ast.Starred):
                    return []
                out.extend(self.elements(a, env, depth + 1))
            return out
        if isinstance(it, (ast.ListComp, ast.SetComp, ast.GeneratorExp)):
            if not isinstance(it, ast.GeneratorExp):
                self.snapshot = True
            envs = [dict(env)]
            for g in it.generators:
                if g.ifs:
                    self.filters.append("comprehension filter `%s`" % stmt_text(g.ifs[0], 60))
                nxt = []
                for e1 in envs:
                    for s in self.elements(g.iter, e1, depth + 1):
                        e2 = dict(e1)
                        bind_target(g.target, s, e2)
                        nxt.append(e2)
                envs = nxt
            self.elt_exprs.extend((it.elt, e1) for e1 in envs)
            return [self.shape(it.elt, e1, depth + 1) for e1 in envs]
        if isinstance(it, (ast.List, ast.Tuple, ast.Set)):
            out = []
            for x in it.elts:
                if isinstance(x, ast.Starred):
                    out.extend(self.elements(x.value, env, depth + 1))
                else:
                    self.elt_exprs.append((x, env))
                    out.append(self.shape(x, env, depth + 1))
            self.snapshot = True
            return out
        if isinstance(it, ast.BinOp) and isinstance(it.op, ast.Add):
            return self.elements(it.left, env, depth + 1) + self.elements(it.right, env, depth + 1)
        if isinstance(it, ast.Name):
            if it.id in env:
                return []
            writes = writes_to_name(self.fnode, it.id)
            if len(writes) == 1 and isinstance(writes[0], (ast.Assign, ast.AnnAssign)) and writes[0].value is not None:
                tgt = writes[0].targets[0] if isinstance(writes[0], ast.Assign) else writes[0].target
                if isinstance(tgt, ast.Name):
                    v = writes[0].value
                    empty = (isinstance(v, (ast.List, ast.Set)) and not v.elts) or (isinstance(v, ast.Call) and chain(v.func) in ("list", "set", "collections.deque", "deque") and not v.args)
                    if empty:
                        return self._built(it.id, env, depth)
                    return self.elements(v, env, depth + 1)
            return []
        c = chain(it)
        if c is not None and "." in c:
            return [("src", c, "iter", ())]
        return []

    def _built(self, name, env, depth):
        """`name = []` filled by append/add/extend/+= inside loops."""
        out = []
        self.snapshot = True
        for n in walk_no_nested(self.fnode):
            adds = None
            if isinstance(n, ast.Call) and isinstance(n.func, ast.Attribute) and isinstance(n.func.value, ast.Name) and n.func.value.id == name and len(n.args) >= 1:
                if n.func.attr in ("append", "add", "appendleft"):
                    adds = ("one", n.args[0])
                elif n.func.attr in ("extend", "update"):
                    adds = ("many", n.args[0])
                elif n.func.attr == "insert" and len(n.args) == 2:
                    adds = ("one", n.args[1])
            elif isinstance(n, ast.AugAssign) and isinstance(n.target, ast.Name) and n.target.id == name and isinstance(n.op, ast.Add):
                adds = ("many", n.value)
            if adds is None:
                continue
            # enclosing loops (outermost first) and conditions
            loops = []
            p = self._parent(n)
            child = n
            while p is not None and p is not self.fnode:
                if isinstance(p, (ast.For, ast.AsyncFor)) and child in p.body:
                    loops.append(p)
                elif isinstance(p, (ast.If, ast.While, ast.Try, ast.Match, ast.IfExp, ast.BoolOp)) or (isinstance(p, (ast.For, ast.AsyncFor)) and child in p.orelse):
                    self.filters.append("conditional %s" % stmt_text(n, 60))
                child, p = p, self._parent(p)
            if loops and not runs_every_round(self.cfg, self.cfg.loc1(n), loops[0]):
                self.filters.append("not in every round of the loop: %s" % stmt_text(n, 60))
            for inner, outer in zip(loops, loops[1:]):
                if not runs_every_round(self.cfg, self.cfg.loc1(inner), outer):
                    self.filters.append("inner loop not in every round: %s" % stmt_text(n, 60))
            loops.reverse()
            envs = [dict(env)]
            for lp in loops:
                nxt = []
                for e1 in envs:
                    for s in self.elements(lp.iter, e1, depth + 1):
                        e2 = dict(e1)
                        bind_target(lp.target, s, e2)
                        nxt.append(e2)
                envs = nxt
            for e1 in envs:
                if adds[0] == "one":
                    self.elt_exprs.append((adds[1], e1))
                    out.append(self.shape(adds[1], e1, depth + 1))
                else:
                    out.extend(self.elements(adds[1], e1, depth + 1))
        return out

    # -- what an expression denotes ------------------------------------------
    def shape(self, e, env=None, depth=0):
        env = env or {}
        if depth > 12 or e is None:
            return None
        if isinstance(e, ast.Name):
            if e.id in env:
                return env[e.id]
            writes = writes_to_name(self.fnode, e.id)
            binding = [lp for lp in self.enclosing_loops(e) if not isinstance(lp, ast.While) and any(lp is w for w in writes)]
            if binding and not any(w is not binding[0] and contains(binding[0], w) for w in writes):
                # bound by the innermost enclosing `for` with that target (re-bound in every round): writes outside
                # that loop do not reach here
                writes = [binding[0]]
            if len(writes) != 1:
                return None
            w = writes[0]
            e2 = {}
            if isinstance(w, (ast.Assign, ast.AnnAssign)) and w.value is not None:
                for t in (w.targets if isinstance(w, ast.Assign) else [w.target]):
                    bind_target(t, self.shape(w.value, env, depth + 1), e2)
            elif isinstance(w, (ast.For, ast.AsyncFor)):
                el = self.elements(w.iter, env, depth + 1)
                if not el:
                    return None
                bind_target(w.target, el[0] if len(el) == 1 else ("alt", tuple(el)), e2)
            return e2.get(e.id)
        if isinstance(e, ast.Subscript):
            i = _int_const(e.slice)
            if i is not None:
                base = self.shape(e.value, env, depth + 1)
                if base is not None:
                    return project(base, i)
            c = chain_of(self.fnode, e.value)
            if c is not None and "." in c and not isinstance(e.slice, ast.Slice):
                return ("src", c, "val", ())
            return None
        if isinstance(e, (ast.Tuple, ast.List)):
            if any(isinstance(x, ast.Starred) for x in e.elts):
                return None
            return ("tup", tuple(self.shape(x, env, depth + 1) for x in e.elts))
        if isinstance(e, ast.Call) and isinstance(e.func, ast.Attribute):
            c = chain_of(self.fnode, e.func.value)
            if c is not None and "." in c:
                if e.func.attr in ("pop", "get", "setdefault") and e.args:
                    return ("src", c, "val", ())
                if e.func.attr == "popitem":
                    return ("tup", (("src", c, "key", ()), ("src", c, "val", ())))
        if isinstance(e, ast.Call) and chain(e.func) == "next" and e.args:
            a = e.args[0]
            if isinstance(a, ast.Call) and chain(a.func) == "iter" and len(a.args) == 1:
                el = self.elements(a.args[0], env, depth + 1)
                if len(el) == 1:
                    return el[0]
        return None

    # -- loops enclosing a node --------------------------------------------------
    def enclosing_loops(self, n):
        out = []
        p = self._parent(n)
        child = n
        while p is not None and p is not self.fnode:
            if isinstance(p, (ast.For, ast.AsyncFor, ast.While)) and any(child is x for x in p.body):
                out.append(p)
            child, p = p, self._parent(p)
        return out


def inner_conditions(cfg, nid, loops):
    """[(test expr, polarity)] of the branch outcomes that decide, *inside* the outermost of the
    given enclosing loops, whether node nid is executed in a round of the loop (the loops' own
    `for` heads excluded; the test of an enclosing `while` included)."""
    if not loops:
        return [(e, pol) for e, pol, _ in cfg.guards(nid) if not isinstance(e, (ast.For, ast.AsyncFor))]
    head = cfg.loc1(loops[-1])
    return [(e, pol) for e, pol, g in cfg.guards(nid) if not isinstance(e, (ast.For, ast.AsyncFor)) and cfg.dominates(head, g)]


def runs_every_round(cfg, nid, loop):
    """node nid is executed in every round of the loop: the loop is not left from inside its body and no
    way back to the loop head (end of the body, `continue`) avoids the node"""
    if loop_leaves_early(loop):
        return False
    head = cfg.loc1(loop)
    r = cfg.reach({head}, avoid={nid}, skip_labels=("exc",))
    return not any(p in r or p == head for p, lab in cfg.pred[head] if lab == "back")


def always_runs(cfg, loop):
    """every normal path through the function passes the head of the loop"""
    return cfg.must_pass(cfg.entry, [cfg.loc1(loop)])


def loop_leaves_early(loop):
    """A break / return / raise inside the loop body (the loop may stop before every
    element was visited)."""
    for st in loop.body:
        for n in walk_no_nested(st):
            if isinstance(n, (ast.Break, ast.Return, ast.Raise)):
                return True
    return False


# ---------------------------------------------------------------------------
# forward value flow


class Use:
    __slots__ = ("kind", "fi", "node", "wrap", "proj", "what", "site")

    def __init__(self, kind, fi, node, wrap, proj, what=None, site=None):
        self.site = site  # call in the function the flow started in, through which the value entered a helper (None: the use is in that function)
        self.kind = kind  # "called" | "method" | "stored" | "attr" | "returned"
        self.fi = fi
        self.node = node
        self.wrap = wrap  # index path from the stored/used expression down to the tracked value
        self.proj = proj  # index path inside the tracked value that this use is about
        self.what = what  # method name / container chain

    def __repr__(self):
        return "<Use %s %s wrap=%s proj=%s>" % (self.kind, self.what, self.wrap, self.proj)


def resolve_callee(prog, fi, call):
    """FuncInfo of a call to a function of the analysed program (self.m(..), cls.m(..),
    type(self).m(..), Class.m(..), module function, nested def) and the number of
    leading parameters bound implicitly (self/cls); else (None, 0)."""
    f = call.func
    cls = fi.cls
    p = fi
    while cls is None and p is not None:
        p = p.parent
        cls = p.cls if p is not None else None
    if isinstance(f, ast.Attribute):
        recv = chain(f.value)
        target = None
        if recv in ("self", "cls") and cls is not None:
            target = prog.lookup_method(cls.qn, f.attr)
        elif isinstance(f.value, ast.Call) and chain(f.value.func) == "type" and cls is not None:
            target = prog.lookup_method(cls.qn, f.attr)
        elif recv is not None:
            q = prog.resolve_in_module(fi.module, recv)
            if q in prog.classes:
                target = prog.lookup_method(q, f.attr)
                if target is not None:
                    return target, _implicit(target, via_class=True)
                return None, 0
            elif (q + "." + f.attr) in prog.funcs:
                return prog.funcs[q + "." + f.attr], 0
        if target is not None:
            return target, _implicit(target, via_class=False)
        return None, 0
    if isinstance(f, ast.Name):
        q = fi
        while q is not None:
            k = q.qn + ".<locals>." + f.id
            if k in prog.funcs:
                return prog.funcs[k], 0
            q = q.parent
        k = prog.resolve_in_module(fi.module, f.id)
        if k in prog.funcs:
            return prog.funcs[k], 0
    return None, 0


def _decorated(fi, name):
    return any((chain(d) or "").split(".")[-1] == name for d in fi.node.decorator_list)


def _implicit(target, via_class):
    if _decorated(target, "staticmethod"):
        return 0
    if _decorated(target, "classmethod"):
        return 1
    return 0 if via_class else 1


def param_for_arg(target, implicit, call, arg):
    """name of the callee's parameter that receives the argument expression `arg`."""
    a = target.node.args
    names = [x.arg for x in a.posonlyargs + a.args]
    for i, x in enumerate(call.args):
        if x is arg:
            if any(isinstance(y, ast.Starred) for y in call.args[: i + 1]):
                return None
            j = i + implicit
            return names[j] if j < len(names) else None
    for k in call.keywords:
        if k.value is arg and k.arg:
            allnames = names + [x.arg for x in a.kwonlyargs]
            return k.arg if k.arg in allnames else None
    return None


class Flow:
    """Where does the value of an expression end up?  May-analysis over def-use chains
    (reaching loads of locals), tuple packing/unpacking, constant subscripts, conditional
    expressions, return values (callers inside the same module), arguments of program
    functions (parameters inside the callee)."""

    def __init__(self, prog, max_depth=3, follow_returns=True):
        self.prog = prog
        self.max_depth = max_depth
        self.follow_returns = follow_returns
        self.uses = []
        self._seen = set()
        self._stack = []  # [(caller FuncInfo, call node)] of the helpers the flow is inside of

    def _use(self, *a):
        self.uses.append(Use(*a, site=self._stack[0][1] if self._stack else None))

    def from_expr(self, fi, e, wrap=(), proj=()):
        self._follow(fi, e, tuple(wrap), tuple(proj), 0)
        return self.uses

    def from_target(self, fi, stmt, target, wrap=(), proj=()):
        self._bind(fi, stmt, target, tuple(wrap), tuple(proj), 0)
        return self.uses

    # -----------------------------------------------------------------
    def _loads(self, fi, stmt, name):
        """Name loads of `name` that the binding made by `stmt` can reach (the right-hand side
        of a re-binding statement still reads the old value)."""
        cfg = cfg_of(fi)
        here = set(cfg.locate(stmt))
        others = set()
        for w in writes_to_name(fi.node, name):
            if w is not stmt:
                others |= set(cfg.locate(w))
        others -= here
        if isinstance(stmt, (ast.For, ast.AsyncFor)):
            starts = {d for h in here for d, lab in cfg.succ[h] if lab == "T"}
            r = cfg.reach(starts, avoid=others, skip_labels=("exc",), include_src=True)
        else:
            r = cfg.reach(here, avoid=others, skip_labels=("exc",))
        frontier = {o for o in others if any((p in r or p in here) for p, lab in cfg.pred[o] if lab != "exc")}
        ok = r | frontier
        out = []
        for n in walk_no_nested(fi.node):
            if isinstance(n, ast.Name) and n.id == name and isinstance(n.ctx, ast.Load):
                if any(x in ok for x in cfg.locate(n)):
                    out.append(n)
        return out

    def _bind(self, fi, stmt, t, wrap, proj, depth):
        if isinstance(t, ast.Name):
            for ld in self._loads(fi, stmt, t.id):
                self._follow(fi, ld, wrap, proj, depth)
        elif isinstance(t, (ast.Tuple, ast.List)):
            if any(isinstance(x, ast.Starred) for x in t.elts):
                return
            if wrap:
                i = wrap[0]
                if isinstance(i, int) and i < len(t.elts):
                    self._bind(fi, stmt, t.elts[i], wrap[1:], proj, depth)
            else:
                for i, x in enumerate(t.elts):
                    self._bind(fi, stmt, x, (), proj + (i,), depth)
        elif isinstance(t, ast.Subscript):
            c = chain_of(fi.node, t.value)
            self._use("stored", fi, stmt, wrap, proj, c)
        elif isinstance(t, ast.Attribute):
            self._use("attr", fi, stmt, wrap, proj, chain(t))

    def _follow(self, fi, e, wrap, proj, depth):
        key = (id(e), wrap, proj)
        if key in self._seen or depth > 40:
            return
        self._seen.add(key)
        cfg = cfg_of(fi)
        p = cfg.parent.get(id(e))
        if p is None:
            return
        if isinstance(p, (ast.Await, ast.NamedExpr)):
            if isinstance(p, ast.NamedExpr) and p.value is e:
                st = p
                while st is not None and not isinstance(st, ast.stmt):
                    st = cfg.parent.get(id(st))
                if st is not None:
                    self._bind(fi, st, p.target, wrap, proj, depth + 1)
            self._follow(fi, p, wrap, proj, depth + 1)
        elif isinstance(p, ast.IfExp):
            if e is not p.test:
                self._follow(fi, p, wrap, proj, depth + 1)
        elif isinstance(p, ast.BoolOp):
            self._follow(fi, p, wrap, proj, depth + 1)
        elif isinstance(p, (ast.Tuple, ast.List)) and isinstance(getattr(p, "ctx", None), ast.Load):
            i = next(i for i, x in enumerate(p.elts) if x is e)
            if any(isinstance(x, ast.Starred) for x in p.elts[:i]):
                return
            self._follow(fi, p, (i,) + wrap, proj, depth + 1)
        elif isinstance(p, ast.Subscript) and p.value is e:
            i = _int_const(p.slice)
            if i is None:
                return
            if wrap:
                if wrap[0] == i:
                    self._follow(fi, p, wrap[1:], proj, depth + 1)
            else:
                self._follow(fi, p, (), proj + (i,), depth + 1)
        elif isinstance(p, ast.Attribute) and p.value is e:
            pp = cfg.parent.get(id(p))
            if isinstance(pp, ast.Call) and pp.func is p and not wrap:
                self._use("method", fi, pp, wrap, proj, p.attr)
        elif isinstance(p, ast.Call):
            if p.func is e:
                if not wrap:
                    self._use("called", fi, p, wrap, proj)
                return
            f = p.func
            if isinstance(f, ast.Attribute) and f.attr in ("setdefault", "append", "add", "insert", "appendleft", "__setitem__") and p.args and p.args[-1] is e:
                c = chain_of(fi.node, f.value)
                if c is not None and "." in c:
                    self._use("stored", fi, p, wrap, proj, c)
                    if f.attr == "setdefault":
                        self._follow(fi, p, wrap, proj, depth + 1)
                    return
            target, implicit = resolve_callee(self.prog, fi, p)
            if target is not None and depth < 40 and self._calls < 12:
                name = param_for_arg(target, implicit, p, e)
                if name is not None:
                    self._into(fi, target, name, p, wrap, proj, depth)
        elif isinstance(p, ast.keyword):
            pp = cfg.parent.get(id(p))
            if isinstance(pp, ast.Call):
                target, implicit = resolve_callee(self.prog, fi, pp)
                if target is not None and self._calls < 12:
                    name = param_for_arg(target, implicit, pp, e)
                    if name is not None:
                        self._into(fi, target, name, pp, wrap, proj, depth)
        elif isinstance(p, ast.Return):
            if self._stack:
                # back to the call the value came in through
                f0, c0 = self._stack.pop()
                self._follow(f0, c0, wrap, proj, depth + 1)
                self._stack.append((f0, c0))
                return
            if not self.follow_returns:
                self._use("returned", fi, p, wrap, proj)
                return
            if self._rets >= self.max_depth:
                return
            self._rets += 1
            for f2, c2 in callers_of(self.prog, fi):
                self._follow(f2, c2, wrap, proj, depth + 1)
            self._rets -= 1
        elif isinstance(p, (ast.Assign, ast.AnnAssign)) and p.value is e:
            for t in (p.targets if isinstance(p, ast.Assign) else [p.target]):
                self._bind(fi, p, t, wrap, proj, depth + 1)
        elif isinstance(p, ast.Yield) and p.value is e:
            # handed to whoever iterates over the generator
            self._use("yielded", fi, p, wrap, proj)
        elif isinstance(p, ast.Starred):
            return

    def _into(self, fi, target, name, call, wrap, proj, depth):
        """the value is passed to a program function: follow the parameter inside it"""
        if writes_to_name(target.node, name) or len(self._stack) >= 3:
            return
        self._calls += 1
        self._stack.append((fi, call))
        for n in walk_no_nested(target.node):
            if isinstance(n, ast.Name) and n.id == name and isinstance(n.ctx, ast.Load):
                self._follow(target, n, wrap, proj, depth + 1)
        self._stack.pop()
        self._calls -= 1

    _calls = 0
    _rets = 0


def callers_of(prog, fi):
    """[(caller FuncInfo, call node)] of calls that resolve to fi (same module)."""
    out = []
    for f2 in prog.funcs.values():
        if f2.module is not fi.module:
            continue
        for c in calls_in(f2.node):
            nm = c.func.attr if isinstance(c.func, ast.Attribute) else (c.func.id if isinstance(c.func, ast.Name) else None)
            if nm != fi.name:
                continue
            t, _ = resolve_callee(prog, f2, c)
            if t is fi:
                out.append((f2, c))
    return out


# ---------------------------------------------------------------------------
# removal from a table, directly or through a helper


def removal_summary(fi, param):
    """'pop' / 'popitem' if the function removes one entry from the container passed as
    `param` and returns what the removal returned, on every path on which it returns at
    all; else None."""
    cfg = cfg_of(fi)
    rets = [n for n in walk_no_nested(fi.node) if isinstance(n, ast.Return)]
    if not rets or writes_to_name(fi.node, param):
        return None
    kinds = set()
    for r in rets:
        v = resolve_local(fi.node, r.value) if r.value is not None else None
        if not (isinstance(v, ast.Call) and isinstance(v.func, ast.Attribute) and v.func.attr in ("pop", "popitem") and isinstance(v.func.value, ast.Name) and v.func.value.id == param):
            return None
        kinds.add(v.func.attr)
    if len(kinds) != 1:
        return None
    if not cfg.must_pass(cfg.entry, [cfg.loc1(r) for r in rets]):
        return None  # may fall off the end without having removed anything
    # no other mutation of the container
    for n in walk_no_nested(fi.node):
        if isinstance(n, ast.Call) and isinstance(n.func, ast.Attribute) and isinstance(n.func.value, ast.Name) and n.func.value.id == param and \
                n.func.attr in ("clear", "update", "setdefault", "__setitem__", "__delitem__"):
            return None
        if isinstance(n, (ast.Assign, ast.Delete)):
            for t in (n.targets):
                if isinstance(t, ast.Subscript) and isinstance(t.value, ast.Name) and t.value.id == param:
                    return None
    return kinds.pop()


def removal_sites(prog, fi, chain_text):
    """[(call node, kind)] kind 'pop' (the expression's value is the removed value) or
    'popitem' (its value is the (key, value) pair): every expression in fi that takes one
    entry out of the table `chain_text` -- method call on the table or a local alias of
    it, or a call of a program function whose summary says so."""
    out = []
    for n in walk_no_nested(fi.node):
        if not isinstance(n, ast.Call):
            continue
        if isinstance(n.func, ast.Attribute) and n.func.attr in ("pop", "popitem") and chain_of(fi.node, n.func.value) == chain_text:
            out.append((n, n.func.attr))
            continue
        args = [a for a in list(n.args) + [k.value for k in n.keywords] if chain_of(fi.node, a) == chain_text]
        if not args:
            continue
        target, implicit = resolve_callee(prog, fi, n)
        if target is None:
            continue
        for a in args:
            pname = param_for_arg(target, implicit, n, a)
            if pname is None:
                continue
            k = removal_summary(target, pname)
            if k is not None:
                out.append((n, k))
    return out


def draining_generator(prog, g, ref):
    """(kind, ((wrap, proj), ...)) if the generator function g hands out the entries of the container `ref` (a parameter
    name, or a `self.<field>` chain) by *taking them out*, until the container is empty: kind 'pop' / 'popitem' as in
    removal_sites, `wrap` the index path from the yielded value down to (the part of) what the removal returned,
    `proj` the index path of that part inside what the removal returned (several pairs when the entry is handed out
    re-packed).  None if g is anything else.

    Decided on the generator's CFG and value flow, not on its text:
      * g is a generator without `yield from`, and never rebinds `ref`;
      * every removal from `ref` sits in a cycle and under a dominating outcome that says `ref` is non-empty (any
        spelling of the test), its value flows into a `yield`, and from the removal neither the next removal nor
        the end of the generator is reached without passing such a yield (nothing is taken out and kept back);
      * nothing else is yielded (every item the consumer sees is an entry that has left the table), and all
        yields hand the entry out in one and the same layout;
      * the generator can only end -- from its start and after every removal -- through an outcome that says `ref`
        is empty: when the consumer's loop is exhausted, the table was drained.
    The generator is lazy: one entry leaves the table per round of the consumer's loop, the table is looked at
    afresh in between -- exactly the `while t: v = t.pop(..)` loop written in place."""
    if not _is_generator(g) or isinstance(g.node, ast.Lambda):
        return None
    bare = "." not in ref
    if bare and writes_to_name(g.node, ref):
        return None
    if not bare and any(k in ("assign", "del") for k, n in stores_to(g.node, ref, nested=False)):
        return None
    cfg = cfg_of(g)
    yields, rem = [], []
    for n in walk_no_nested(g.node):
        if isinstance(n, ast.YieldFrom):
            return None
        if isinstance(n, ast.Yield):
            yields.append(n)
        if isinstance(n, ast.Call) and isinstance(n.func, ast.Attribute) and n.func.attr in ("pop", "popitem") and chain_of(g.node, n.func.value) == ref:
            rem.append(n)
    if not yields or not rem:
        return None
    empties = emptiness_outcomes(cfg, g.node, ref, bare=True)
    if not empties or not cfg.must_pass(cfg.entry, empties):
        return None
    layouts = set()
    handed = set()
    for call in rem:
        pn = cfg.loc1(call)
        if pn not in cfg.reach({pn}, skip_labels=("exc",)) or not known_nonempty_at(cfg, g.node, pn, ref, bare=True):
            return None
        ys = [u for u in Flow(prog, follow_returns=False).from_expr(g, call) if u.kind == "yielded" and u.fi is g and u.site is None]
        if not ys:
            return None
        ynodes = {cfg.loc1(u.node) for u in ys}
        if pn not in ynodes:
            r = cfg.reach({pn}, avoid=ynodes, skip_labels=("exc",))
            if pn in r or cfg.exit in r:
                return None
        if not cfg.must_pass(pn, empties):
            return None
        per_yield = {}
        for u in ys:
            per_yield.setdefault(id(u.node), set()).add((u.wrap, u.proj))
            handed.add(id(u.node))
        for lay in per_yield.values():
            layouts.add((call.func.attr, tuple(sorted(lay))))
    # (one layout for all yields and removals: `p, s = t.pop(k); yield s, p` hands out two parts of the entry, each
    # at its place -- the same places at every yield, or the consumer's uses could not be attributed)
    if len(layouts) != 1 or any(id(y) not in handed for y in yields):
        return None
    return layouts.pop()


def draining_iter(prog, fi, it, chain_text):
    """(kind, ((wrap, proj), ...)) if iterating over the expression `it` in fi takes the entries of the table `chain_text`
    out one by one through a draining generator of the program (see draining_generator): the call may be wrapped in
    list()/tuple()/iter()/..., bound to a single-assignment local first; the table is handed over as an argument
    (positional or keyword, possibly through a local alias) or -- for a method called on self -- is the very field
    of the same object."""
    for _ in range(4):
        it = resolve_local(fi.node, it)
        if isinstance(it, ast.Call) and isinstance(it.func, ast.Name) and it.func.id in TRANSPARENT_ITER_FUNCS and len(it.args) == 1 and not it.keywords:
            it = it.args[0]
        else:
            break
    if not isinstance(it, ast.Call):
        return None
    target, implicit = resolve_callee(prog, fi, it)
    if target is None:
        return None
    args = [a for a in list(it.args) + [k.value for k in it.keywords] if chain_of(fi.node, a) == chain_text]
    if args:
        if len(args) != 1:
            return None
        pname = param_for_arg(target, implicit, it, args[0])
        return draining_generator(prog, target, pname) if pname is not None else None
    if implicit == 1 and isinstance(it.func, ast.Attribute) and chain(it.func.value) == "self" and chain_text.startswith("self.") and target.cls is not None \
            and params_all(target)[:1] == ["self"]:
        return draining_generator(prog, target, chain_text)
    return None


def params_all(fi):
    a = fi.node.args
    return [x.arg for x in a.posonlyargs + a.args]


# ---------------------------------------------------------------------------
# callables


def _is_partial(prog, fi, call):
    c = chain(call.func)
    if c is None:
        return False
    return prog.resolve_in_module(fi.module, c) in ("functools.partial", "partial") or c.split(".")[-1] == "partial"


def _removal_stmt(st, selfname="self"):
    """[(field, may_raise_KeyError, node)] when the statement does nothing but remove keys
    from dicts/sets of the same object (or log / pass / docstring); None otherwise."""
    if effect_free(st) and not isinstance(st, (ast.Assign, ast.AnnAssign, ast.FunctionDef, ast.AsyncFunctionDef)):
        return []
    if isinstance(st, ast.Expr):
        return _removal_expr(st.value, selfname)
    if isinstance(st, ast.Return):
        return [] if st.value is None else _removal_expr(st.value, selfname)
    if isinstance(st, ast.Delete):
        out = []
        for t in st.targets:
            if isinstance(t, ast.Subscript) and (chain(t.value) or "").startswith(selfname + ".") and chain(t.value).count(".") == 1:
                out.append((chain(t.value).split(".", 1)[1], True, st))
            else:
                return None
        return out
    if isinstance(st, ast.If) and not st.orelse:
        # `if k in self.f: <removal>`: cannot raise
        t = st.test
        if isinstance(t, ast.Compare) and len(t.ops) == 1 and isinstance(t.ops[0], ast.In) and (chain(t.comparators[0]) or "").startswith(selfname + "."):
            inner = _removal_body(st.body, selfname)
            if inner is not None and all(f == chain(t.comparators[0]).split(".", 1)[1] for f, _, _ in inner):
                return [(f, False, n) for f, _, n in inner]
        return None
    if isinstance(st, ast.Try) and not st.finalbody and not st.orelse and len(st.handlers) == 1:
        h = st.handlers[0]
        names = [] if h.type is None else [chain(x) for x in (h.type.elts if isinstance(h.type, ast.Tuple) else [h.type])]
        if (h.type is None or any(x in ("KeyError", "LookupError", "Exception") for x in names)) and all(effect_free(x) for x in h.body):
            inner = _removal_body(st.body, selfname)
            if inner is not None:
                return [(f, False, n) for f, _, n in inner]
        return None
    if isinstance(st, ast.With) and all(isinstance(i.context_expr, ast.Call) and (chain(i.context_expr.func) or "").endswith("suppress") and
                                        any(chain(a) in ("KeyError", "LookupError", "Exception") for a in i.context_expr.args) for i in st.items):
        inner = _removal_body(st.body, selfname)
        if inner is not None:
            return [(f, False, n) for f, _, n in inner]
    return None


def _removal_body(body, selfname):
    out = []
    for st in body:
        r = _removal_stmt(st, selfname)
        if r is None:
            return None
        out.extend(r)
    return out


def _removal_expr(e, selfname, extra=0):
    if isinstance(e, ast.Call) and isinstance(e.func, ast.Attribute) and not e.keywords:
        c = chain(e.func.value) or ""
        if c.startswith(selfname + ".") and c.count(".") == 1:
            n = len(e.args) + extra
            if e.func.attr == "pop" and n >= 1:
                return [(c.split(".", 1)[1], n < 2, e)]
            if e.func.attr == "discard" and n == 1:
                return [(c.split(".", 1)[1], False, e)]
            if e.func.attr in ("remove", "__delitem__") and n == 1:
                return [(c.split(".", 1)[1], True, e)]
    return None


def callback_removals(prog, fi, cb, nextra=0, depth=0):
    """[(field, may_raise_KeyError, node)] (non-empty) if calling `cb` with `nextra` further
    positional arguments does nothing but remove keys from dicts of `self` (plus logging);
    None if the callable does (or may do) anything else.

    lambda (with or without default-argument binding), nested def, functools.partial(f, ...),
    bound method `self.f.pop`, and a local name bound once to any of these are the same."""
    if depth > 4 or cb is None:
        return None
    if isinstance(cb, ast.Name):
        q = fi
        while q is not None:
            k = q.qn + ".<locals>." + cb.id
            if k in prog.funcs:
                return _def_removals(prog.funcs[k].node)
            q = q.parent
        v = assigned_value(fi.node, cb.id)
        return callback_removals(prog, fi, v, nextra, depth + 1) if v is not None else None
    if isinstance(cb, ast.Lambda):
        if cb.args.vararg or cb.args.kwarg or any(a.arg == "self" for a in cb.args.args + cb.args.kwonlyargs + cb.args.posonlyargs):
            return None
        r = _removal_expr(cb.body, "self")
        return r or None
    if isinstance(cb, ast.Call) and _is_partial(prog, fi, cb) and cb.args and not any(isinstance(a, ast.Starred) for a in cb.args):
        if cb.keywords:
            return None
        return callback_removals(prog, fi, cb.args[0], nextra + len(cb.args) - 1, depth + 1)
    if isinstance(cb, ast.Attribute):
        # bound method of a dict of self: self.f.pop / self.f.__delitem__ / self.f.discard
        synth = ast.Call(func=cb, args=[], keywords=[])
        r = _removal_expr(synth, "self", extra=nextra)
        return r or None
    return None


def _def_removals(fnode):
    a = fnode.args
    if a.vararg or a.kwarg or any(x.arg == "self" for x in a.args + a.kwonlyargs + a.posonlyargs):
        return None
    if isinstance(fnode, ast.AsyncFunctionDef):
        return None
    r = _removal_body(fnode.body, "self")
    return r or None


# ---------------------------------------------------------------------------
# finite-domain interpreter with forking on unknown conditions


class _Top:
    def __repr__(self):
        return "TOP"


TOP = _Top()


class Sym(str):
    """symbolic enum member (CON, NON, ACK, RST)"""


class Obj:
    """abstract object with identity and attributes (unknown attributes read as TOP)"""

    def __init__(self, tag, **attrs):
        self.tag = tag
        self.attrs = dict(attrs)

    def __repr__(self):
        return "<%s>" % self.tag


class DictVal:
    """a table of self: 'empty' (every lookup misses) or 'unknown' (every lookup forks)"""

    def __init__(self, tag, kind):
        self.tag = tag
        self.kind = kind

    def __repr__(self):
        return "<dict %s %s>" % (self.tag, self.kind)


class Elem:
    """an element obtained from an 'unknown' table"""

    def __init__(self, tag):
        self.tag = tag

    def __repr__(self):
        return "<elem of %s>" % self.tag


class Tup(tuple):
    pass


class Unk(_Top):
    """an unknown value *with identity* (the value a local was bound to by a call the interpreter cannot look
    into, a loop target, ...): as open as TOP in every test, but the same local read twice is the same key"""

    def __init__(self, tag=""):
        self.tag = tag
        self.attrs = {}

    def __repr__(self):
        return "UNK(%s)" % self.tag


class Scalar:
    """a value of a declared plain type (int, bytes, str, ...): never None, but possibly falsy (0, b"", "")"""

    def __init__(self, tag):
        self.tag = tag

    def __repr__(self):
        return "<%s>" % self.tag


class Seq:
    """an abstract collection known by one representative element (it may also be empty)"""

    def __init__(self, elem=None, empty=False, mapping=False):
        self.elem = elem
        self.empty = empty
        self.mapping = mapping  # the elements are (key, value) pairs of a dict: iterating it yields the keys

    def __repr__(self):
        return "<empty seq>" if self.empty else "<seq of %r>" % (self.elem,)


class NeedDecision(Exception):
    pass


class Raised(Exception):
    def __init__(self, name):
        Exception.__init__(self, name)
        self.name = name


class Cut(Exception):
    """path abandoned (loop bound)"""


def truthiness(v):
    if isinstance(v, (_Top, Scalar, Seq)):
        return None
    if isinstance(v, DictVal):
        return False if v.kind == "empty" else None
    if isinstance(v, (Obj, Sym, Elem)):
        return True
    if isinstance(v, Tup):
        return len(v) > 0
    try:
        return bool(v)
    except Exception:
        return None


def _eq3(a, b):
    """three-valued equality/identity"""
    if isinstance(a, _Top) or isinstance(b, _Top):
        return True if (a is b and a is not TOP) else None
    if a is None or b is None:
        return a is b
    if isinstance(a, (Scalar, Seq)) or isinstance(b, (Scalar, Seq)):
        return True if a is b else None
    if isinstance(a, (Obj, DictVal, Elem)) or isinstance(b, (Obj, DictVal, Elem)):
        return a is b
    if isinstance(a, Sym) or isinstance(b, Sym):
        return isinstance(a, Sym) and isinstance(b, Sym) and str(a) == str(b)
    if isinstance(a, bool) or isinstance(b, bool):
        return a is b
    if isinstance(a, Tup) and isinstance(b, Tup):
        if len(a) != len(b):
            return False
        rs = [_eq3(x, y) for x, y in zip(a, b)]
        if any(r is False for r in rs):
            return False
        return True if all(r is True for r in rs) else None
    try:
        return a == b
    except Exception:
        return None


class _Frame:
    def __init__(self, fi, env, depth):
        self.fi = fi
        self.env = env
        self.depth = depth
        self.ret = None
        self.visits = {}
        self.at = None  # CFG node being executed


class Machine:
    """One deterministic run of a function under an oracle (the list of answers to the
    unknown conditions met so far).  `explore` enumerates the oracles."""

    def __init__(self, prog, oracle, consts, preds, sinks, skip_methods=(), max_depth=4, record_all=False):
        self.prog = prog
        self.oracle = oracle
        self.n_dec = 0
        self.consts = consts
        self.preds = preds or {}
        self.sinks = sinks  # {(tag of the receiving object, method name): label}
        self.skip_methods = set(skip_methods)
        self.max_depth = max_depth
        self.trace = []
        self.outcome = None
        self.steps = 0
        self.decisions = []
        self.keys = {}  # (table tag, key identity) -> bool: one answer per key and run
        self.record_all = record_all  # every call the interpreter cannot look into and every store outside the locals is an effect

    # -- decisions ------------------------------------------------------------
    def decide(self, what):
        i = self.n_dec
        self.n_dec += 1
        if i < len(self.oracle):
            self.decisions.append((what, self.oracle[i]))
            return self.oracle[i]
        raise NeedDecision(what)

    def truth(self, e, fr):
        v = self.ev(e, fr)
        t = truthiness(v)
        if t is None:
            return self.decide(stmt_text(e, 60))
        return t

    # -- expressions ------------------------------------------------------------
    def ev(self, e, fr):
        if isinstance(e, ast.Constant):
            return e.value
        if isinstance(e, ast.Name):
            if e.id in fr.env:
                return fr.env[e.id]
            if e.id in self.consts:
                return self.consts[e.id]
            return TOP
        if isinstance(e, ast.Attribute):
            base = self.ev(e.value, fr)
            if isinstance(base, Obj):
                return base.attrs.get(e.attr, TOP)
            if isinstance(base, int) and not isinstance(base, bool) and e.attr == "class_" and self.preds.get("class_shift") is not None:
                return base >> self.preds["class_shift"]
            if base is TOP and e.attr in self.consts:
                return self.consts[e.attr]
            return TOP
        if isinstance(e, (ast.Tuple, ast.List)):
            if any(isinstance(x, ast.Starred) for x in e.elts):
                return TOP
            return Tup(self.ev(x, fr) for x in e.elts)
        if isinstance(e, ast.Subscript):
            base = self.ev(e.value, fr)
            if isinstance(base, DictVal):
                if not self.has_key(base, self.ev(e.slice, fr)):
                    raise Raised("KeyError")
                return Elem(base.tag)
            i = _int_const(e.slice)
            if isinstance(base, Tup) and i is not None and -len(base) <= i < len(base):
                return base[i]
            return TOP
        if isinstance(e, ast.Compare):
            left = self.ev(e.left, fr)
            res = True
            for op, c in zip(e.ops, e.comparators):
                right = self.ev(c, fr)
                r = self._cmp(op, left, right)
                if r is False:
                    return False
                if r is None:
                    res = TOP
                left = right
            return res
        if isinstance(e, ast.BoolOp):
            v = None
            for i, x in enumerate(e.values):
                v = self.ev(x, fr)
                if i == len(e.values) - 1:
                    return v
                t = truthiness(v)
                if t is None:
                    t = self.decide(stmt_text(x, 60))
                if isinstance(e.op, ast.And) and not t:
                    return v
                if isinstance(e.op, ast.Or) and t:
                    return v
            return v
        if isinstance(e, ast.UnaryOp):
            if isinstance(e.op, ast.Not):
                v = self.ev(e.operand, fr)
                t = truthiness(v)
                return TOP if t is None else (not t)
            v = self.ev(e.operand, fr)
            if isinstance(v, int) and not isinstance(v, bool):
                return {ast.USub: -v, ast.UAdd: +v, ast.Invert: ~v}.get(type(e.op), TOP)
            return TOP
        if isinstance(e, ast.BinOp):
            l, r = self.ev(e.left, fr), self.ev(e.right, fr)
            if isinstance(l, int) and isinstance(r, int) and not isinstance(l, bool) and not isinstance(r, bool):
                try:
                    ops = {ast.BitAnd: lambda: l & r, ast.BitOr: lambda: l | r, ast.BitXor: lambda: l ^ r,
                           ast.LShift: lambda: l << r if 0 <= r < 64 else TOP, ast.RShift: lambda: l >> r if 0 <= r < 64 else TOP,
                           ast.Add: lambda: l + r, ast.Sub: lambda: l - r, ast.Mult: lambda: l * r,
                           ast.FloorDiv: lambda: l // r, ast.Mod: lambda: l % r}
                    if type(e.op) in ops:
                        return ops[type(e.op)]()
                except (ZeroDivisionError, OverflowError):
                    return TOP
            return TOP
        if isinstance(e, ast.IfExp):
            return self.ev(e.body if self.truth(e.test, fr) else e.orelse, fr)
        if isinstance(e, ast.Call):
            return self.call(e, fr)
        if isinstance(e, ast.Await):
            return self.ev(e.value, fr)
        if isinstance(e, ast.NamedExpr):
            v = self.ev(e.value, fr)
            fr.env[e.target.id] = v
            return v
        return TOP

    def _cmp(self, op, l, r):
        if isinstance(op, (ast.Is, ast.Eq)):
            return _eq3(l, r)
        if isinstance(op, (ast.IsNot, ast.NotEq)):
            v = _eq3(l, r)
            return None if v is None else (not v)
        if isinstance(op, (ast.In, ast.NotIn)):
            if isinstance(r, Tup):
                rs = [_eq3(l, x) for x in r]
                v = True if any(x is True for x in rs) else (False if all(x is False for x in rs) else None)
            elif isinstance(r, DictVal):
                v = self.has_key(r, l)
            else:
                v = None
            if v is None:
                return None
            return v if isinstance(op, ast.In) else (not v)
        num = lambda x: isinstance(x, (int, float)) and not isinstance(x, bool)
        if num(l) and num(r):
            return {ast.Lt: l < r, ast.LtE: l <= r, ast.Gt: l > r, ast.GtE: l >= r}.get(type(op))
        return None

    # -- calls ---------------------------------------------------------------------
    def effect(self, *t):
        if self.record_all:
            self.trace.append(t)

    def call(self, e, fr):
        if is_log_call(e):
            return None
        f = e.func
        c = chain(f)
        if c is not None and c.split(".")[0] not in fr.env:
            q = self.prog.resolve_in_module(fr.fi.module, c)
            if q in self.prog.classes and q.split(".")[-1] != "Message":
                for x in e.args:
                    if not isinstance(x, ast.Starred):
                        self.ev(x, fr)
                return Obj("instance of " + q, __class__=q)
            if q in ("functools.partial", "functools.partialmethod"):
                # building a callable is not an effect (calling it would be)
                for x in e.args:
                    if not isinstance(x, ast.Starred):
                        self.ev(x, fr)
                return TOP
        if isinstance(f, ast.Attribute):
            recv = self.ev(f.value, fr)
            a = f.attr
            argv = [TOP if isinstance(x, ast.Starred) else self.ev(x, fr) for x in e.args]
            kwv = {k.arg: self.ev(k.value, fr) for k in e.keywords if k.arg}
            if isinstance(recv, DictVal):
                return self._dict_method(recv, a, argv)
            if isinstance(recv, Elem):
                if a in ("append", "insert", "extend", "appendleft", "add"):
                    self.trace.append(("queue", recv.tag, argv[-1] if argv else TOP, self._snap(argv[-1] if argv else TOP)))
                    return None
                return TOP
            if isinstance(recv, int) and not isinstance(recv, bool) and a in self.preds and not argv:
                return recv in self.preds[a]
            if a == "cancel":
                self.effect("call", a, recv, argv)
                return None
            if isinstance(recv, Obj) and (recv.tag, a) in self.sinks:
                self.trace.append((self.sinks[(recv.tag, a)], a, argv[0] if argv else TOP, self._snap(argv[0] if argv else TOP)))
                return None
            if isinstance(recv, Obj) and a in recv.attrs.get("__methods__", {}) and not argv:
                return recv.attrs["__methods__"][a]  # predicate whose answer the valuation fixes
            if isinstance(recv, Obj) and recv.tag == "self":
                target = None
                cls = self._cls_of(fr.fi)
                if cls is not None and a not in self.skip_methods:
                    target = self.prog.lookup_method(cls.qn, a)
                if target is not None and fr.depth < self.max_depth and not target.is_async and not _is_generator(target):
                    implicit = [] if _decorated(target, "staticmethod") else [recv]
                    return self.enter(target, implicit + argv, kwv, fr.depth + 1)
                self._havoc(argv)
                self.effect("call", a, recv, argv)
                return TOP
            if isinstance(recv, Obj) and a == "as_response_address":
                return Obj("response-address")
            if isinstance(recv, Obj):
                self.effect("call", a, recv, argv)
                return TOP
            # unknown receiver: an object passed as argument may be changed by the callee
            self._havoc(argv)
            self.effect("call", chain(f) or a, recv, argv)
            return TOP
        if isinstance(f, ast.Name):
            argv = [TOP if isinstance(x, ast.Starred) else self.ev(x, fr) for x in e.args]
            kwv = {k.arg: self.ev(k.value, fr) for k in e.keywords if k.arg}
            if f.id in fr.env:
                self.effect("call", f.id, fr.env[f.id], argv)
                return TOP
            q = self.prog.resolve_in_module(fr.fi.module, f.id)
            if q.split(".")[-1] == "Message" and q in self.prog.classes:
                o = Obj("new-message", mtype=None, mid=None, code=None, opt=Obj("opt", no_response=None), request=None)
                for k, v in kwv.items():
                    o.attrs[k.lstrip("_")] = v
                return o
            if f.id == "bool" and len(argv) == 1:
                t = truthiness(argv[0])
                return TOP if t is None else t
            if f.id in ("isinstance", "len", "any", "all", "repr", "str", "int", "id", "type", "hash", "getattr", "hasattr", "min", "max", "sum", "sorted", "list", "tuple", "dict", "set", "iter", "next", "enumerate", "zip", "range", "print", "format"):
                return TOP
            target, _ = resolve_callee(self.prog, fr.fi, e)
            if target is not None and fr.depth < self.max_depth and not target.is_async and not _is_generator(target) and target.parent is None:
                return self.enter(target, argv, kwv, fr.depth + 1)
            self._havoc(argv)
            self.effect("call", f.id, None, argv)
            return TOP
        self.effect("call", stmt_text(f, 40), None, [])
        return TOP

    @staticmethod
    def _snap(v):
        """the message type of the argument at the time of the call"""
        if isinstance(v, Tup) and v:
            v = v[0]
        if isinstance(v, Obj):
            return v.attrs.get("mtype", TOP)
        return TOP

    def _havoc(self, argv):
        for v in argv:
            if isinstance(v, Obj) and v.tag != "self":
                for k in list(v.attrs):
                    v.attrs[k] = TOP

    def _cls_of(self, fi):
        p = fi
        while p is not None:
            if p.cls is not None:
                return p.cls
            p = p.parent
        return None

    def has_key(self, d, k):
        if d.kind == "empty":
            return False
        kid = self.key_id(d, k)
        if k is TOP:
            return self.decide("%s has the key" % d.tag)
        if kid not in self.keys:
            self.keys[kid] = self.decide("%s has the key" % d.tag)
        return self.keys[kid]

    @staticmethod
    def key_id(d, k):
        return (d.tag, id(k) if isinstance(k, (Obj, Elem, DictVal, _Top, Scalar, Seq)) else repr(k))

    def _set_key(self, d, k, present):
        if k is not TOP:
            self.keys[self.key_id(d, k)] = present

    def _dict_method(self, d, a, argv):
        if a in ("get", "pop", "setdefault") and argv:
            default = argv[1] if len(argv) > 1 else None
            hit = self.has_key(d, argv[0])
            if hit:
                if a == "pop":
                    self._set_key(d, argv[0], False)
                    self.effect("table-remove", d.tag, d, argv)
                return Elem(d.tag)
            if a == "pop" and len(argv) < 2:
                raise Raised("KeyError")
            if a == "setdefault":
                self.trace.append(("table-store", d.tag, default, self._snap(default)))
                if d.kind != "empty":
                    self._set_key(d, argv[0], True)
            return default
        if a == "__contains__" and argv:
            return self.has_key(d, argv[0])
        if a not in ("keys", "values", "items", "copy"):
            self.effect("call", a, d, argv)
        return TOP

    def enter(self, fi, argv, kwv, depth):
        a = fi.node.args
        names = [x.arg for x in a.posonlyargs + a.args]
        env = {}
        defaults = a.defaults
        for i, nme in enumerate(names):
            if i < len(argv):
                env[nme] = argv[i]
            elif nme in kwv:
                env[nme] = kwv[nme]
            else:
                j = i - (len(names) - len(defaults))
                env[nme] = self.ev(defaults[j], _Frame(fi, {}, depth)) if 0 <= j < len(defaults) else TOP
        for x, d in zip(a.kwonlyargs, a.kw_defaults):
            env[x.arg] = kwv.get(x.arg, self.ev(d, _Frame(fi, {}, depth)) if d is not None else TOP)
        if a.vararg:
            env[a.vararg.arg] = TOP
        if a.kwarg:
            env[a.kwarg.arg] = TOP
        return self.run_frame(_Frame(fi, env, depth))

    # -- statements --------------------------------------------------------------------
    def assign(self, t, v, fr):
        if isinstance(t, ast.Name):
            fr.env[t.id] = v
        elif isinstance(t, ast.Attribute):
            base = self.ev(t.value, fr)
            self.effect("setattr", t.attr, base, [v])
            if isinstance(base, Obj):
                base.attrs[t.attr] = v
        elif isinstance(t, (ast.Tuple, ast.List)):
            n = len(t.elts)
            if isinstance(v, Tup) and len(v) == n and not any(isinstance(x, ast.Starred) for x in t.elts):
                for x, y in zip(t.elts, v):
                    self.assign(x, y, fr)
            else:
                for x in t.elts:
                    self.assign(x.value if isinstance(x, ast.Starred) else x, TOP, fr)
        elif isinstance(t, ast.Subscript):
            base = self.ev(t.value, fr)
            k = self.ev(t.slice, fr)
            if isinstance(base, DictVal):
                self.trace.append(("table-store", base.tag, v, self._snap(v)))
                if base.kind != "empty":
                    self._set_key(base, k, True)
            elif isinstance(base, Elem):
                self.trace.append(("queue", base.tag, v, self._snap(v)))
            else:
                self.effect("setitem", stmt_text(t, 40), base, [v])

    def delete_target(self, t, fr):
        self.effect("delete", stmt_text(t, 40), None, [])

    def iter_elem(self, v):
        """the value a `for` target is bound to when the iterable evaluated to v"""
        return TOP

    def as_iterable(self, v):
        return v

    def loop_enters(self, itv, loop):
        return self.decide("loop body of `for %s` runs" % stmt_text(loop.target, 30))

    def exec_stmt(self, st, fr):
        if isinstance(st, ast.Delete):
            for t in st.targets:
                if not isinstance(t, ast.Name):
                    self.delete_target(t, fr)
            return
        if isinstance(st, (ast.Assert, ast.Pass, ast.Global, ast.Nonlocal, ast.FunctionDef, ast.AsyncFunctionDef, ast.ClassDef, ast.Import, ast.ImportFrom, ast.Match, ast.Break, ast.Continue)):
            return
        if isinstance(st, ast.Expr):
            self.ev(st.value, fr)
        elif isinstance(st, ast.Assign):
            v = self.ev(st.value, fr)
            for t in st.targets:
                self.assign(t, v, fr)
        elif isinstance(st, ast.AnnAssign):
            if st.value is not None:
                self.assign(st.target, self.ev(st.value, fr), fr)
        elif isinstance(st, ast.AugAssign):
            synth = ast.BinOp(left=_as_load(st.target), op=st.op, right=st.value)
            self.assign(st.target, self.ev(synth, fr), fr)
        elif isinstance(st, (ast.With, ast.AsyncWith)):
            for it in st.items:
                self.ev(it.context_expr, fr)
                if it.optional_vars is not None:
                    self.assign(it.optional_vars, TOP, fr)

    def run_frame(self, fr):
        cfg = cfg_of(fr.fi)
        n = cfg.entry
        while True:
            self.steps += 1
            if self.steps > 5000:
                raise Cut("step bound")
            node = cfg.nodes[n]
            fr.at = n
            if node.kind == "exit":
                return fr.ret
            if node.kind == "rexit":
                raise Raised("?")
            want = None
            try:
                if node.kind in ("stmt", "with"):
                    self.exec_stmt(node.ast, fr)
                elif node.kind == "return":
                    fr.ret = self.ev(node.ast.value, fr) if node.ast.value is not None else None
                elif node.kind == "raise":
                    x = node.ast.exc
                    if isinstance(x, ast.Call):
                        x = x.func
                    raise Raised((chain(x) or "?").split(".")[-1] if x is not None else "?")
                elif node.kind == "test":
                    want = "T" if self.truth(node.ast, fr) else "F"
                elif node.kind == "for":
                    k = fr.visits.get(n, 0)
                    fr.visits[n] = k + 1
                    if k == 0:
                        itv = self.as_iterable(self.ev(node.ast.iter, fr))
                        want = "T" if self.loop_enters(itv, node.ast) else "F"
                        if want == "T":
                            self.assign(node.ast.target, self.iter_elem(itv), fr)
                    else:
                        want = "F"
                elif node.kind == "join" and node.label == "while":
                    k = fr.visits.get(n, 0)
                    fr.visits[n] = k + 1
                    if k > 2:
                        raise Cut("loop bound")
            except Raised as r:
                hs = [d for d, lab in cfg.succ[n] if lab == "exc" and cfg.nodes[d].kind == "handler"]
                nxt = None
                for h in hs:
                    ht = cfg.nodes[h].ast.type
                    names = [] if ht is None else [(chain(x) or "?").split(".")[-1] for x in (ht.elts if isinstance(ht, ast.Tuple) else [ht])]
                    if ht is None or r.name in names or "Exception" in names or "BaseException" in names or (r.name == "KeyError" and "LookupError" in names):
                        nxt = h
                        break
                if nxt is None:
                    raise
                if cfg.nodes[nxt].ast.name:
                    fr.env[cfg.nodes[nxt].ast.name] = TOP
                n = nxt
                continue
            if want is not None:
                nxt = [d for d, lab in cfg.succ[n] if lab == want]
            else:
                nxt = [d for d, lab in cfg.succ[n] if lab != "exc"]
            if not nxt:
                return fr.ret
            n = nxt[0]

    def run(self, fi, env):
        try:
            self.run_frame(_Frame(fi, env, 0))
            self.outcome = "return"
        except Raised as r:
            self.outcome = "raise:" + r.name
        except Cut as c:
            self.outcome = "cut:" + str(c)


def _as_load(t):
    import copy
    t2 = copy.deepcopy(t)
    for n in ast.walk(t2):
        if hasattr(n, "ctx"):
            n.ctx = ast.Load()
    return t2


_GEN_MEMO = {}


def _is_generator(fi):
    k = id(fi.node)
    if k not in _GEN_MEMO:
        _GEN_MEMO[k] = (fi.node, any(isinstance(n, (ast.Yield, ast.YieldFrom)) for n in walk_no_nested(fi.node)))
    return _GEN_MEMO[k][1]


def explore(prog, fi, make_env, consts, preds, sinks, skip_methods=(), max_runs=512, record_all=False, machine=None):
    """All runs of fi from the environment make_env() builds (a fresh one per run: the
    objects are mutable), one per sequence of answers to the conditions the
    valuation leaves open.  -> [Machine]"""
    runs = []
    stack = [[]]
    while stack:
        oracle = stack.pop()
        m = (machine or Machine)(prog, oracle, consts, preds, sinks, skip_methods, record_all=record_all)
        try:
            m.run(fi, make_env())
        except NeedDecision:
            stack.append(oracle + [False])
            stack.append(oracle + [True])
            continue
        if m.outcome == "cut:loop bound":
            continue  # bounded unrolling: what a further round of the loop does is covered by the runs with fewer rounds
        if (m.outcome or "").startswith("cut"):
            raise AnalysisError("run of %s exceeds the interpreter's step bound" % fi.short)
        runs.append(m)
        if len(runs) > max_runs:
            raise AnalysisError("more than %d runs of %s under one valuation" % (max_runs, fi.short))
    return runs


# ---------------------------------------------------------------------------
# timer tables: "an entry that leaves the table takes its timer along"
#
# A *timer table* is a dict of self whose entries carry a loop.call_later handle that shutdown
# cancels (C18.d).  That ownership only protects the timers that are still *in* the table: whatever
# takes an entry out (pop / del / popitem / replacing the value of a key known to be present) must
# cancel that entry's handle itself, on every path on which an entry was in fact taken -- unless the
# code is the fired timer's own callback.  Decided by running the function in the interpreter above
# with the table *unknown* (every key forks into present / absent, one answer per key and run) and
# the entries modelled component-wise from what the table is declared / seen to hold: the handle is
# an object (truthy, never None), a component of a plain type (int, bytes, str) is never None but
# may be falsy (message ID 0, empty token), an undeclared component is unknown.  So a test that
# conflates "absent" with "falsy" (`if old_mid:` on a popped (mid, handle)) forks, and the run on
# which an entry was removed but its handle never cancelled is the counter-example; `is not None`
# on the same value, `key in table`, `.get()` + `del`, early returns, helpers, comprehensions are
# all just executions.


def _has_top(k, depth=0):
    if k is TOP:
        return True
    if isinstance(k, tuple) and depth < 4:
        return any(_has_top(x, depth + 1) for x in k)
    return False


class Quiescent(Exception):
    """nothing that concerns the tracked table can happen any more on this run"""


class TimerTable(DictVal):
    def __init__(self, tag, pos, models):
        DictVal.__init__(self, tag, "unknown")
        self.pos = pos  # position of the handle inside the entry (None: the entry is the handle)
        self.models = models  # per component: "handle" | "scalar" | "object" | "top"


_PLAIN_TYPES = ("int", "bytes", "str", "float", "bool", "bytearray", "tuple", "frozenset")


def _ann_model(t):
    """model of one component from its annotation expression"""
    if t is None:
        return "top"
    if isinstance(t, ast.Constant):
        return "top"  # None, or a string annotation we do not parse
    base = t.value if isinstance(t, ast.Subscript) else t
    name = (chain(base) or "").split(".")[-1]
    if name in ("Optional", "Union", "Any", ""):
        return "top"
    if name in _PLAIN_TYPES:
        return "scalar"
    if name in ("Callable", "Awaitable", "Coroutine") or name.endswith("Handle"):
        return "object"  # function objects, handles: no __bool__/__len__, always truthy
    return "scalar"  # an instance of some class: not None; whether it can be falsy is not known


def table_models(prog, ci, field, pos):
    """[model per entry component] of the dict `self.<field>` of class ci, or None when the
    entry is the handle itself.  Sources, in this order: the annotation of the field
    (`Dict[K, Tuple[a, b]]`), else the tuples stored into it anywhere in the module (arity;
    a component some store sets to a literal None is unknown, any other never-None)."""
    if pos is None:
        return None
    ann = None
    init = ci.methods.get("__init__")
    for root in ([init.node] if init is not None else []) + [ci.node]:
        for n in ast.walk(root):
            if isinstance(n, ast.AnnAssign) and (chain(n.target) in ("self." + field, field)):
                ann = n.annotation
                break
        if ann is not None:
            break
    models = None
    if isinstance(ann, ast.Subscript) and (chain(ann.value) or "").split(".")[-1] in ("Dict", "dict", "MutableMapping", "Mapping", "OrderedDict", "DefaultDict", "defaultdict"):
        kv = ann.slice.elts if isinstance(ann.slice, ast.Tuple) else []
        if len(kv) == 2:
            v = kv[1]
            if isinstance(v, ast.Subscript) and (chain(v.value) or "").split(".")[-1] in ("Tuple", "tuple"):
                comps = v.slice.elts if isinstance(v.slice, ast.Tuple) else [v.slice]
                if not any(isinstance(c, ast.Constant) and c.value is Ellipsis for c in comps):
                    models = [_ann_model(c) for c in comps]
    if models is None:
        arities = set()
        nones = set()
        for fi in prog.funcs.values():
            if fi.module is not ci.module:
                continue
            for kind, n in stores_to_any(fi.node, field):
                v = None
                if kind == "setitem" and isinstance(n, (ast.Assign, ast.AnnAssign)):
                    v = n.value
                elif kind in ("setdefault", "__setitem__") and isinstance(n, ast.Call) and len(n.args) == 2:
                    v = n.args[1]
                v = resolve_local(fi.node, v) if v is not None else None
                if isinstance(v, ast.Tuple) and not any(isinstance(x, ast.Starred) for x in v.elts):
                    arities.add(len(v.elts))
                    for i, x in enumerate(v.elts):
                        x = resolve_local(fi.node, x)
                        if isinstance(x, ast.Constant) and x.value is None:
                            nones.add(i)
        if len(arities) != 1:
            return False  # cannot tell what an entry looks like
        models = ["top" if i in nones else "scalar" for i in range(arities.pop())]
    if not isinstance(pos, int) or not (0 <= pos < len(models)):
        return False
    models[pos] = "handle"
    return models


def _cfg_node_parts(node):
    a = node.ast
    if a is None:
        return []
    if node.kind == "for":
        return [a.iter, a.target]
    if node.kind == "with":
        return [i.context_expr for i in getattr(a, "items", [])]
    if node.kind in ("test", "stmt", "return", "raise"):
        return [a]
    return []


_ENTRY_CALLS = ("pop", "popitem", "get", "setdefault", "cancel", "__delitem__", "__setitem__", "__getitem__", "clear", "update")


class TimerInfo:
    """static facts about one timer table of a class: which functions / CFG nodes can concern it"""

    def __init__(self, prog, ci, field, pos, models):
        self.prog, self.ci, self.field, self.pos, self.models = prog, ci, field, pos, models
        self.funcs = [f for f in prog.funcs.values() if f.module is ci.module]
        self._aliases = {}
        base = {}
        for f in self.funcs:
            base[f.qn] = any(self._mentions(f, n) for n in walk_with_lambdas(f.node))
        self.calls = {}
        for f in self.funcs:
            cs = set()
            for c in (n for n in walk_with_lambdas(f.node) if isinstance(n, ast.Call)):
                t, _ = resolve_callee(prog, f, c)
                if t is not None:
                    cs.add(t.qn)
            self.calls[f.qn] = cs
        rel = {q for q, v in base.items() if v}
        changed = True
        while changed:
            changed = False
            for f in self.funcs:
                if f.qn not in rel and self.calls[f.qn] & rel:
                    rel.add(f.qn)
                    changed = True
        self.relevant_funcs = rel
        self.skip_methods = {name for name, m in self._all_methods().items() if m.qn not in rel}
        self._rel_nodes = {}
        self._ahead = {}

    def _all_methods(self):
        out = {}
        for q in reversed(self.prog.mro(self.ci.qn)):
            c = self.prog.classes.get(q)
            if c is not None:
                out.update(c.methods)
        return out

    def aliases(self, f):
        """locals of f bound to the table (or to something read from it)"""
        if f.qn not in self._aliases:
            al = set()
            for n in walk_with_lambdas(f.node):
                if isinstance(n, (ast.Assign, ast.AnnAssign, ast.NamedExpr)) and getattr(n, "value", None) is not None:
                    if any(isinstance(x, ast.Attribute) and x.attr == self.field for x in ast.walk(n.value)):
                        tg = n.targets if isinstance(n, ast.Assign) else [n.target]
                        for t in tg:
                            al |= {x.id for x in ast.walk(t) if isinstance(x, ast.Name)}
            self._aliases[f.qn] = al
        return self._aliases[f.qn]

    def _mentions(self, f, n):
        if isinstance(n, ast.Attribute) and n.attr in (self.field, "cancel"):
            return True
        if isinstance(n, ast.Name) and n.id in self.aliases(f):
            return True
        return False

    def rel_nodes(self, f):
        if f.qn not in self._rel_nodes:
            cfg = cfg_of(f)
            out = set()
            for nd in cfg.nodes:
                for part in _cfg_node_parts(nd):
                    for n in walk_with_lambdas(part):
                        if isinstance(n, (ast.FunctionDef, ast.AsyncFunctionDef, ast.ClassDef)):
                            continue
                        if self._mentions(f, n):
                            out.add(nd.id)
                        elif isinstance(n, ast.Call):
                            t, _ = resolve_callee(self.prog, f, n)
                            if t is not None and t.qn in self.relevant_funcs:
                                out.add(nd.id)
            self._rel_nodes[f.qn] = out
        return self._rel_nodes[f.qn]

    def relevant_ahead(self, f, nid):
        k = (f.qn, nid)
        if k not in self._ahead:
            cfg = cfg_of(f)
            self._ahead[k] = bool(cfg.reach({nid}, include_src=True) & self.rel_nodes(f))
        return self._ahead[k]

    def interesting_comprehension(self, f, e):
        for n in ast.walk(e):
            if isinstance(n, ast.Call):
                if isinstance(n.func, ast.Attribute) and n.func.attr in _ENTRY_CALLS:
                    return True
                t, _ = resolve_callee(self.prog, f, n)
                if t is not None and t.qn in self.relevant_funcs:
                    return True
            elif isinstance(n, ast.Subscript) and isinstance(n.value, ast.Attribute) and n.value.attr == self.field:
                return True
        return False


class TimerMachine(Machine):
    """Machine that knows one timer table: entries have identity, what happens to them is recorded."""

    _serial = 0

    def __init__(self, *a, info=None, **kw):
        Machine.__init__(self, *a, **kw)
        self.info = info
        self.frames = []
        self.entries = {}  # key id -> (entry number, value, handle object)
        self.handle_of = {}  # id(handle object) -> entry number
        self.keep = []
        self.taken = []  # (entry number, how, statement of the analysed function, call node)
        self.cancelled = set()
        self.returned = None
        self._callstack = []
        self.visited_calls = set()

    # -- entries ---------------------------------------------------------------
    def _fresh(self, tag):
        TimerMachine._serial += 1
        return Unk("%s#%d" % (tag, TimerMachine._serial))

    def entry(self, d, kid):
        if kid not in self.entries:
            n = len(self.keep)
            h = Obj("timer handle %d of %s" % (n, d.tag))
            self.handle_of[id(h)] = n
            if d.pos is None:
                v = h
            else:
                comps = []
                for i, m in enumerate(d.models):
                    comps.append(h if i == d.pos else Scalar("component %d of an entry of %s" % (i, d.tag)) if m == "scalar"
                                 else Obj("component %d of an entry of %s" % (i, d.tag)) if m == "object" else self._fresh("component %d" % i))
                v = Tup(comps)
            self.keep.append((v, h))
            self.entries[kid] = (n, v, h)
        return self.entries[kid]

    def key_id(self, d, k):
        """a key that contains a value nothing is known about (not even whether it is the same as the last time) is
        the same key only where it is the same object: `key = (f(x), y)` used twice is one key, `(f(x), y)` spelled
        out twice may be two"""
        if _has_top(k):
            self.keep.append(k)
            return (d.tag, "opaque", id(k))
        return Machine.key_id(d, k)

    def has_key(self, d, k):
        if isinstance(d, TimerTable) and k is not TOP and _has_top(k):
            kid = self.key_id(d, k)
            if kid not in self.keys:
                self.keys[kid] = self.decide("%s has the key" % d.tag)
            return self.keys[kid]
        return Machine.has_key(self, d, k)

    def _set_key(self, d, k, present):
        if k is not TOP:
            self.keys[self.key_id(d, k)] = present

    def _site(self):
        fr = self.frames[0] if self.frames else None
        if fr is None or fr.at is None:
            return None
        nd = cfg_of(fr.fi).nodes[fr.at]
        return nd.ast

    def _take(self, d, kid, how):
        n, v, h = self.entry(d, kid)
        self.entries.pop(kid, None)
        self.taken.append((n, how, self._site(), self._callstack[-1] if self._callstack else None))
        return v

    # -- the table's operations --------------------------------------------------------
    def _dict_method(self, d, a, argv):
        if not isinstance(d, TimerTable):
            return Machine._dict_method(self, d, a, argv)
        if self._callstack:
            self.visited_calls.add(id(self._callstack[-1]))
        if a in ("get", "pop", "setdefault", "__getitem__", "__delitem__") and argv:
            default = argv[1] if len(argv) > 1 else None
            kid = self.key_id(d, argv[0])
            if self.has_key(d, argv[0]):
                if a in ("pop", "__delitem__"):
                    v = self._take(d, kid, "removed")
                    self._set_key(d, argv[0], False)
                    return v if a == "pop" else None
                return self.entry(d, kid)[1]
            if a in ("__getitem__", "__delitem__") or (a == "pop" and len(argv) < 2):
                raise Raised("KeyError")
            if a == "setdefault":
                self._set_key(d, argv[0], True)
                self.entries.pop(kid, None)
            return default
        if a == "__setitem__" and len(argv) == 2:
            self._store(d, argv[0], argv[1])
            return None
        if a == "__contains__" and argv:
            return self.has_key(d, argv[0])
        if a == "popitem" and not argv:
            if not self.decide("%s has the key" % d.tag):
                raise Raised("KeyError")
            k = self._fresh("key")
            self._set_key(d, k, False)
            return Tup((k, self._take(d, self.key_id(d, k), "removed")))
        if a in ("keys", "values", "items", "copy") and not argv:
            return self._view(d, a)
        return TOP

    def _view(self, d, kind):
        """what iterating the table yields, by one representative entry: a key that is present (from here on the
        run knows it) and the entry stored under it"""
        if not self.decide("%s has the key" % d.tag):
            return Seq(empty=True, mapping=(kind == "copy"))
        k = self._fresh("key")
        self._set_key(d, k, True)
        v = self.entry(d, self.key_id(d, k))[1]
        if kind == "keys":
            return Seq(k)
        if kind == "values":
            return Seq(v)
        return Seq(Tup((k, v)), mapping=(kind == "copy"))

    def as_iterable(self, v):
        if isinstance(v, TimerTable):
            return self._view(v, "keys")
        if isinstance(v, Seq) and v.mapping:
            return Seq(empty=True) if v.empty else Seq(v.elem[0])
        return v

    def _store(self, d, k, v):
        if k is TOP:
            return
        kid = self.key_id(d, k)
        if self.keys.get(kid) is True:
            # the run *knows* the key is present (it asked): storing replaces a live entry
            self._take(d, kid, "replaced")
        self.entries.pop(kid, None)
        self._set_key(d, k, True)

    def delete_target(self, t, fr):
        if isinstance(t, ast.Subscript):
            base = self.ev(t.value, fr)
            if isinstance(base, TimerTable):
                k = self.ev(t.slice, fr)
                self._callstack.append(t)
                try:
                    self._dict_method(base, "__delitem__", [k])
                finally:
                    self._callstack.pop()
                return
        Machine.delete_target(self, t, fr)

    def assign(self, t, v, fr):
        if isinstance(t, ast.Name) and v is TOP:
            v = self._fresh(t.id)
        if isinstance(t, ast.Attribute):
            base = self.ev(t.value, fr)
            if isinstance(base, Unk):
                base.attrs[t.attr] = v
                self.effect("setattr", t.attr, base, [v])
                return
        if isinstance(t, ast.Subscript):
            base = self.ev(t.value, fr)
            if isinstance(base, TimerTable):
                self._callstack.append(t)
                self.visited_calls.add(id(t))
                try:
                    self._store(base, self.ev(t.slice, fr), v)
                finally:
                    self._callstack.pop()
                return
        Machine.assign(self, t, v, fr)

    def iter_elem(self, v):
        return v.elem if isinstance(v, Seq) and not v.empty else TOP

    def loop_enters(self, itv, loop):
        if isinstance(itv, Seq):
            return not itv.empty  # what produced the collection and what consumes it are one decision
        return Machine.loop_enters(self, itv, loop)

    # -- expressions ---------------------------------------------------------------------
    def ev(self, e, fr):
        if isinstance(e, ast.Subscript) and isinstance(getattr(e, "ctx", None), ast.Load):
            base = self.ev(e.value, fr)
            if isinstance(base, TimerTable):
                self._callstack.append(e)
                try:
                    return self._dict_method(base, "__getitem__", [self.ev(e.slice, fr)])
                finally:
                    self._callstack.pop()
            if isinstance(base, Seq):
                self.ev(e.slice, fr)
                if base.empty:
                    return TOP
                return base.elem[1] if base.mapping else base.elem
            if not isinstance(base, DictVal):
                i = self.ev(e.slice, fr) if not isinstance(e.slice, ast.Slice) else None
                if isinstance(base, Tup) and isinstance(i, int) and not isinstance(i, bool) and -len(base) <= i < len(base):
                    return base[i]
                return TOP
        if isinstance(e, (ast.GeneratorExp, ast.ListComp, ast.SetComp, ast.DictComp)):
            # one representative round (as for `for` loops): does what the element expression does, once.  A
            # comprehension that neither iterates something known nor does anything to entries stays unknown.
            inner = _Frame(fr.fi, dict(fr.env), fr.depth)
            inner.at = fr.at
            mapping = isinstance(e, ast.DictComp)
            for i, g in enumerate(e.generators):
                itv = self.as_iterable(self.ev(g.iter, inner))
                if i == 0 and not isinstance(itv, Seq) and not self.info.interesting_comprehension(fr.fi, e):
                    return TOP
                if not self.loop_enters(itv, g):
                    return Seq(empty=True, mapping=mapping)
                self.assign(g.target, self.iter_elem(itv), inner)
                for c in g.ifs:
                    if not self.truth(c, inner):
                        return Seq(empty=True, mapping=mapping)
            if mapping:
                return Seq(Tup((self.ev(e.key, inner), self.ev(e.value, inner))), mapping=True)
            return Seq(self.ev(e.elt, inner))
        if isinstance(e, ast.Attribute):
            base = self.ev(e.value, fr)
            if e.attr == "cancel" and isinstance(base, Obj) and id(base) in self.handle_of:
                self.cancelled.add(self.handle_of[id(base)])  # the bound method taken as a value (handed to somebody to call)
                return TOP
            if isinstance(base, Unk):
                # an attribute of an unknown object is as unknown, but reading it twice yields the same thing
                # (`(request.remote, request.token)` is one key wherever it is spelled out)
                if e.attr not in base.attrs:
                    base.attrs[e.attr] = Unk("%s.%s" % (base.tag, e.attr))
                return base.attrs[e.attr]
            if isinstance(base, Obj):
                return base.attrs.get(e.attr, TOP)
            if base is TOP and e.attr in self.consts:
                return self.consts[e.attr]
            return TOP
        if isinstance(e, ast.Starred):
            return self.ev(e.value, fr)
        return Machine.ev(self, e, fr)

    def call(self, e, fr):
        self._callstack.append(e)
        try:
            f = e.func
            if isinstance(f, ast.Attribute) and f.attr == "cancel" and not e.args:
                recv = self.ev(f.value, fr)
                if isinstance(recv, Obj) and id(recv) in self.handle_of:
                    self.cancelled.add(self.handle_of[id(recv)])
                    return None
                if isinstance(recv, Seq):
                    return None
                self.effect("call", "cancel", recv, [])
                return None
            if isinstance(f, ast.Attribute) and chain(f.value) is not None and f.attr in ("keys", "values", "items", "copy") and not e.args:
                recv = self.ev(f.value, fr)
                if isinstance(recv, Seq) and recv.mapping:
                    if recv.empty or f.attr in ("items", "copy"):
                        return Seq(recv.elem, recv.empty, mapping=(f.attr == "copy"))
                    return Seq(recv.elem[0] if f.attr == "keys" else recv.elem[1])
            if isinstance(f, ast.Name) and f.id not in fr.env:
                if f.id in ("list", "tuple", "sorted", "set", "frozenset", "iter", "reversed") and len(e.args) == 1:
                    v = self.as_iterable(self.ev(e.args[0], fr))
                    for k in e.keywords:
                        self.ev(k.value, fr)
                    return v if isinstance(v, Seq) else TOP
                if f.id == "dict" and len(e.args) == 1 and not e.keywords:
                    v = self.ev(e.args[0], fr)
                    if isinstance(v, TimerTable):
                        return self._view(v, "copy")
                    if isinstance(v, Seq):
                        return Seq(v.elem, v.empty, mapping=True)
                    return TOP
                if f.id == "next" and e.args:
                    v = self.ev(e.args[0], fr)
                    dflt = [self.ev(x, fr) for x in e.args[1:]]
                    if isinstance(v, Seq):
                        if not v.empty:
                            return v.elem
                        if dflt:
                            return dflt[0]
                        raise Raised("StopIteration")
                    return TOP
                target, _ = resolve_callee(self.prog, fr.fi, e)
                if target is not None and target.parent is fr.fi and fr.depth < self.max_depth and not target.is_async and not _is_generator(target):
                    # a helper defined inside the running function: its free variables are the caller's locals
                    argv = [TOP if isinstance(x, ast.Starred) else self.ev(x, fr) for x in e.args]
                    kwv = {k.arg: self.ev(k.value, fr) for k in e.keywords if k.arg}
                    return self.enter(target, argv, kwv, fr.depth + 1, closure=fr.env)
            return Machine.call(self, e, fr)
        finally:
            self._callstack.pop()

    def enter(self, fi, argv, kwv, depth, closure=None):
        if closure is None:
            return Machine.enter(self, fi, argv, kwv, depth)
        # same binding rules as Machine.enter, on top of the enclosing frame's variables
        self._closure = closure
        return Machine.enter(self, fi, argv, kwv, depth)

    def _havoc(self, argv):
        Machine._havoc(self, argv)
        for v in argv:
            if isinstance(v, Unk):
                # what the callee may have changed is forgotten; what was unknown anyway keeps its identity
                for k in [k for k, x in v.attrs.items() if not isinstance(x, Unk)]:
                    del v.attrs[k]

    # -- control ---------------------------------------------------------------------------
    def decide(self, what):
        if self.n_dec >= len(self.oracle) and what != "%s has the key" % self.info.field and self.frames:
            if not any(self.info.relevant_ahead(fr.fi, fr.at) for fr in self.frames if fr.at is not None):
                raise Quiescent()
        return Machine.decide(self, what)

    _closure = None

    def run_frame(self, fr):
        if self._closure is not None:
            env = dict(self._closure)
            env.update(fr.env)
            fr.env = env
            self._closure = None
        for k, v in list(fr.env.items()):
            if v is TOP:
                fr.env[k] = self._fresh(k)  # an argument nothing is known about is still one object throughout the call
        self.frames.append(fr)
        try:
            r = Machine.run_frame(self, fr)
            if len(self.frames) == 1:
                self.returned = r
            return r
        finally:
            self.frames.pop()

    def run(self, fi, env):
        try:
            Machine.run(self, fi, env)
        except Quiescent:
            self.outcome = "return"

    # -- verdict ----------------------------------------------------------------------------------
    def _contains(self, v, n, depth=0):
        if depth > 4:
            return False
        if isinstance(v, Obj):
            return self.handle_of.get(id(v)) == n
        if isinstance(v, (Tup, tuple, list)):
            return any(self._contains(x, n, depth + 1) for x in v)
        if isinstance(v, Seq):
            return self._contains(v.elem, n, depth + 1)
        return False

    def loose(self):
        """[(entry number, how, site, call node, fate)] of the entries this run took out of the table without
        cancelling their handle; fate: 'dropped', 'returned' (handed to the caller), 'escaped' (handed to code
        the interpreter cannot look into, or stored elsewhere)"""
        out = []
        for n, how, site, node in self.taken:
            if n in self.cancelled:
                continue
            fate = "dropped"
            if self._contains(self.returned, n):
                fate = "returned"
            for t in self.trace:
                if t[0] in ("call", "setattr", "setitem") and self._contains(t[3], n):
                    fate = "escaped"
                elif t[0] in ("table-store", "queue", "send", "exchange") and self._contains(t[2], n):
                    fate = "escaped"
            out.append((n, how, site, node, fate))
        return out
