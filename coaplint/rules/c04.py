"""C04 Duplicate requests are executed at most once and re-answered identically."""

import ast

from ..rulekit import *
from ..norm import Normalizer, Poly

R = Rules(
    "C04",
    explanation=(
        "Structural clauses of request de-duplication decided on messagemanager.py: both sides key "
        "_recent_messages by (message.remote, message.mid); dispatch_message consults the filter exactly for "
        "request codes and returns on a hit before anything else happens; on a hit the only output is the stored "
        "reply object itself (identity, hence byte-identical) and only for CON with a stored reply; a miss records "
        "None, returns False and arms the expiry with EXCHANGE_LIFETIME of the message's tuning popping the same "
        "key -- a value fixed when the timer is armed, not read from the mutable message when it fires; the reply is "
        "recorded (only for known keys) before it is transmitted; nothing that may be an ACK reaches the transmission "
        "primitive on a way that does not start in _send_initially; nobody else writes the table; Message.__init__ hands "
        "the message ID / type / token it is given at the message layer's construction sites into the fields for every value "
        "(ID 0, type number 0, empty token); every tuning class a received message can carry on its way from Message.decode "
        "to the filter evaluates EXCHANGE_LIFETIME to the value of the default TransportTuning. "
        "Timing around the 247 s boundary and run-time equality of endpoint objects are not decided."
    ),
    rule_text=(
        "symbolic execution of the two de-duplication functions per state of the table entry (unknown / known without "
        "reply / known with reply) and message type, every spelling of a dictionary access and of the expiry callable "
        "interpreted by its meaning (rules/_kit_c04.py); path model of dispatch_message and _send_initially; key "
        "tracing through locals; alias- and lambda-aware who-may-write over the whole package; backward message flow "
        "from every reference to message_interface.send through conduit functions, nested defs, scheduled method values "
        "and partials to the originating call sites (WireFlow), with the message type decided from constructions and "
        "dominating conditions; concrete interpretation of Message.__init__ on representatives of the identifier domain per "
        "construction site (ObjSim); origin tracing of the message handed to dispatch_message and exact evaluation of "
        "EXCHANGE_LIFETIME along the class hierarchy of each tuning class it may carry (ClassEval)"
    ),
)

MM = "messagemanager.MessageManager."
FIELD = "self._recent_messages"


# ---------------------------------------------------------------------------
# shared helpers


def _assigned(fnode, name):
    """The unique value bound to local `name` (also as an element of `a, b = x, y` or of a chained
    `k = (a, b) = (x, y)`), else None."""
    vals = []
    for n in walk_no_nested(fnode):
        if isinstance(n, ast.Assign):
            for t in n.targets:
                if isinstance(t, ast.Name) and t.id == name:
                    vals.append(n.value)
                elif isinstance(t, (ast.Tuple, ast.List)) and isinstance(n.value, (ast.Tuple, ast.List)) and len(t.elts) == len(n.value.elts):
                    for x, v in zip(t.elts, n.value.elts):
                        if isinstance(x, ast.Name) and x.id == name and not isinstance(v, ast.Starred):
                            vals.append(v)
        elif isinstance(n, ast.NamedExpr) and n.target.id == name:
            vals.append(n.value)
    if len(vals) == 1 and len(writes_to_name(fnode, name)) == 1:
        a = getattr(fnode, "args", None)
        if a is not None and any(x.arg == name for x in a.posonlyargs + a.args + a.kwonlyargs + [y for y in (a.vararg, a.kwarg) if y]):
            return None  # a parameter that is re-bound once has two possible values
        return vals[0]
    return None


def _resolve(fnode, e, depth=4):
    """resolve_local, also through tuple-unpacking assignments and walrus targets"""
    while depth and isinstance(e, ast.Name):
        v = _assigned(fnode, e.id)
        if v is None:
            break
        e = v
        depth -= 1
    return e


def _deep_resolve(fnode, e, depth=4):
    """e with single-assignment locals that merely name another name / attribute chain / tuple replaced
    by what they stand for (the engine's copy propagation does this for most code; this covers the rest)."""
    import copy

    class T(ast.NodeTransformer):
        def __init__(s, d):
            s.d = d

        def visit_Name(s, n):
            if isinstance(n.ctx, ast.Load) and s.d > 0:
                v = _assigned(fnode, n.id)
                if v is not None and isinstance(v, (ast.Name, ast.Attribute, ast.Tuple)):
                    return T(s.d - 1).visit(copy.deepcopy(v))
            return n

        def visit_Lambda(s, n):
            return n

    return T(depth).visit(copy.deepcopy(e))


def _enclosing_binding(fi, use, name):
    """If `name` at `use` is a parameter of a lambda / nested def enclosing `use` inside fi:
    -> ("default", expr) | ("param", None); else None."""
    parent = {}
    for p in ast.walk(fi.node):
        for ch in ast.iter_child_nodes(p):
            parent[id(ch)] = p
    q = parent.get(id(use))
    while q is not None and q is not fi.node:
        if isinstance(q, (ast.Lambda, ast.FunctionDef, ast.AsyncFunctionDef)):
            a = q.args
            names = [x.arg for x in a.posonlyargs + a.args]
            if name in names:
                i = names.index(name)
                k = i - (len(names) - len(a.defaults))
                return ("default", a.defaults[k]) if k >= 0 else ("param", None)
            for x, d in zip(a.kwonlyargs, a.kw_defaults):
                if x.arg == name:
                    return ("default", d) if d is not None else ("param", None)
        q = parent.get(id(q))
    return None


def _key_ok(fi, e, m, use=None):
    """Does e denote (m.remote, m.mid)?  Locals are followed (also the default-argument binding of an enclosing
    lambda / nested def); -> True / False / None (bound by the caller of a callback: decided by C04.c)."""
    if isinstance(e, ast.Name) and use is not None:
        b = _enclosing_binding(fi, use, e.id)
        if b is not None:
            if b[0] == "param":
                return None
            e = b[1]
    e = _deep_resolve(fi.node, _resolve(fi.node, e))
    return isinstance(e, ast.Tuple) and len(e.elts) == 2 and chain(e.elts[0]) == m + ".remote" and chain(e.elts[1]) == m + ".mid"


def _uses(fi):
    """[(node, key expr, kind)] of every keyed access to the table in fi, [other references], [calls that hand the
    table to a deferred callable]"""
    from ._kit_c04 import table_uses

    return table_uses(fi.node, FIELD, lambda x: _resolve(fi.node, x))


class _Agg:
    """Obligations met on several symbolic runs are reported once per (obligation, construct)."""

    def __init__(self, ctx, fi):
        self.ctx = ctx
        self.fi = fi
        self.items = {}
        self.order = []

    def ob(self, desc, ok, node, detail=None, construct=None):
        k = (desc, id(node), construct)
        if k not in self.items:
            self.items[k] = [desc, True, node, None, construct]
            self.order.append(k)
        it = self.items[k]
        if not ok and it[1]:
            it[1] = False
            it[3] = detail
        return ok

    def flush(self):
        for k in self.order:
            desc, ok, node, detail, construct = self.items[k]
            self.ctx.ob(desc, ok, self.fi, node, detail=detail, construct=construct)


@R.clause("C04.a", "both de-duplication functions key _recent_messages by (message.remote, message.mid)")
def a(ctx):
    # Every reference to the table in the two functions is classified by what it does (lookup: d[k], d.get(k..),
    # k in d, k in d.keys(), d.__contains__(k); insert: d[k] = v, d.setdefault(k..); remove: d.pop(k..), del d[k],
    # the method value d.pop handed on together with its key); the key expression of each is traced through
    # locals and compared with (message.remote, message.mid).  Floors are per kind of access, not per spelling.
    total = 0
    kinds_seen = {}
    rec = _recorder(ctx.prog)[0]
    for fi in (ctx.prog.func(MM + "_deduplicate_message"), rec):
        name = fi.name
        m = params(fi)[0]
        keyed, other, handed = _uses(fi)
        for h in handed:
            # call_later(t, f, table, ...) / partial(f, table, ...): f receives the table and does with it whatever it
            # does when the timer fires; C04.c interprets f's body (any callable, method of the class included) and
            # refuses when it cannot (in the recording step any timer is a violation of C04.d).
            ctx.note("%s: the table is handed to a deferred callable in `%s` (interpreted in C04.c)" % (name, stmt_text(h, 50)))
        ctx.need(not other, "%s refers to _recent_messages other than by key: %s" % (name, [stmt_text(o, 50) for o in other]))
        ctx.floor("keyed accesses to _recent_messages in %s" % name, len(keyed), 2)
        for node, key, kind in keyed:
            ok = _key_ok(fi, key, m, use=node)
            if ok is None:
                ctx.note("%s: key of `%s` is bound by the caller of the callback (decided in C04.c)" % (name, stmt_text(node, 50)))
                continue
            total += 1
            kinds_seen.setdefault(name, set()).add(kind)
            ctx.ob("%s addresses _recent_messages by (message.remote, message.mid)" % name, ok and not writes_to_name(fi.node, m), fi, node,
                   detail="key = %s" % stmt_text(_deep_resolve(fi.node, _resolve(fi.node, key))))
    ctx.need({"lookup", "insert"} <= kinds_seen.get("_deduplicate_message", set()), "_deduplicate_message: no keyed lookup and insertion found")
    ctx.need("insert" in kinds_seen.get(rec.name, set()), "%s: no keyed insertion found" % rec.name)
    ctx.floor("key uses", total, 4)


_EFFECT_FREE_CALLS = {"len", "isinstance", "str", "repr", "bool", "id", "type", "int", "tuple", "hash"}


def _has_effect(astnode, ignore=()):
    """Does evaluating this statement / test do anything beyond reading and logging?"""
    for n in walk_no_nested(astnode):
        if isinstance(n, ast.Call):
            if n in ignore or is_log_call(n) or (chain(n.func) or "") in _EFFECT_FREE_CALLS:
                continue
            if isinstance(n.func, ast.Attribute) and n.func.attr.startswith("is_") and not n.args and not n.keywords:
                continue
            return True
        if isinstance(n, (ast.Attribute, ast.Subscript)) and isinstance(n.ctx, (ast.Store, ast.Del)):
            return True
        if isinstance(n, (ast.Await, ast.Yield, ast.YieldFrom)):
            return True
    return False


def _node_effect(node, ignore=()):
    if node.ast is None or node.kind in ("T", "F", "handler", "join", "entry", "exit", "rexit"):
        return False
    a = node.ast
    if node.kind == "for":
        return _has_effect(a.iter, ignore)
    if node.kind == "with":
        return any(_has_effect(it.context_expr, ignore) for it in a.items)
    if isinstance(a, (ast.FunctionDef, ast.AsyncFunctionDef, ast.ClassDef)):
        return False
    return _has_effect(a, ignore)


def _truth_named(pm, fi, ref, p):
    """pm.truth(ref, p), also when the code tests a local that names the condition."""
    from ..paths import atom_key

    t = pm.truth(ref, p)
    if t is not None:
        return t
    k, pol = atom_key(ref)
    for n in walk_no_nested(fi.node):
        if isinstance(n, ast.Assign) and len(n.targets) == 1 and isinstance(n.targets[0], ast.Name):
            name = n.targets[0].id
            if len(writes_to_name(fi.node, name)) != 1:
                continue
            k2, pol2 = atom_key(_deep_resolve(fi.node, n.value))
            if k2 != k:
                continue
            t = pm.truth(ast.Name(id=name, ctx=ast.Load()), p)
            if t is not None:
                atom = t if pol2 else (not t)
                return atom if pol else (not atom)
    return None


@R.clause("C04.b", "dispatch_message de-duplicates exactly the requests and a hit ends processing")
def b(ctx):
    # Decided on the path model of dispatch_message (one decision per atomic condition, one value of
    # message.mtype per path): independent of nesting, `a and b` against nested ifs, early returns, named
    # conditions and of how the verdict of the filter is tested (is True / == True / truthiness / is False ...).
    from ..paths import PathModel
    from ._kit_c04 import branch_normal_form

    fi0 = ctx.prog.func(MM + "dispatch_message")
    # `dup = filter(m) if c else False`, `dup = c and filter(m)` are brought into the statement-level form first
    fi = branch_normal_form(fi0)
    m = params(fi)[0]
    cfg = cfg_of(fi)
    calls = list(find("self._deduplicate_message($*a)", fi.node))
    ctx.floor("_deduplicate_message call sites", len(calls), 1)
    ctx.ob("exactly one de-duplication site", len(calls) == 1, fi, calls[0][0], detail="%d" % len(calls))
    call = calls[0][0]
    nid = cfg.loc1(call)
    arg = call.args[0] if len(call.args) == 1 and not call.keywords else None
    if arg is None and not call.args and len(call.keywords) == 1:
        arg = call.keywords[0].value
    arg = _resolve(fi.node, arg) if arg is not None else None
    ctx.ob("the incoming message is what is de-duplicated", isinstance(arg, ast.Name) and arg.id == m and not writes_to_name(fi.node, m), fi, call)
    pm = PathModel(fi, subjects={"%s.mtype" % m: ["CON", "NON", "ACK", "RST"]})
    paths = pm.paths()
    ctx.floor("normal paths of dispatch_message", len(paths), 4)
    is_req = ast.parse("%s.code.is_request()" % m, mode="eval").body
    # the verdict: the call itself when it is tested in place, or the local it is assigned to
    owner = cfg.nodes[nid].ast
    verdict = call
    vname = None
    if isinstance(owner, ast.Assign) and owner.value is call and len(owner.targets) == 1 and isinstance(owner.targets[0], ast.Name):
        vname = owner.targets[0].id
    else:
        w = [x for x in walk_no_nested(owner) if isinstance(x, ast.NamedExpr) and x.value is call]
        if w:
            vname = w[0].target.id
    if vname is not None:
        verdict = ast.Name(id=vname, ctx=ast.Load())
        # the local may be bound on other branches too (`dup = False` where the filter is not consulted, the
        # result temporary of an expanded helper with early returns): what matters is that between the call and
        # the end of each path through it nothing else re-binds it
        others = {x for wr in writes_to_name(fi.node, vname) for x in cfg.locate(wr)} - {nid}

    def cmp(op, const):
        return ast.Compare(left=verdict, ops=[op], comparators=[ast.Constant(value=const)])

    def hit(p):
        """True / False: the path is taken on a hit / on a miss; None: the verdict is not consulted on p.
        _deduplicate_message answers True or False only (C04.c), so `v`, `v is True`, `not (v is False)` agree."""
        votes = set()
        for e, flip in ((verdict, False), (cmp(ast.Is(), True), False), (cmp(ast.Is(), False), True)):
            t = pm.truth(e, p)
            if t is not None:
                votes.add((not t) if flip else t)
        if len(votes) == 1:
            return votes.pop()
        return None

    through = [p for p in paths if nid in p.nodes]
    ctx.need(through, "the de-duplication site lies on no normal path")
    if vname is not None:
        ctx.need(not any(x in others for p in through for x in p.nodes[p.index(nid) + 1:]), "the local holding the filter's verdict is re-bound after the call")
    bad_nonreq = bad_skipped = None
    for p in paths:
        rq = _truth_named(pm, fi, is_req, p)
        if nid in p.nodes:
            if rq is not True and bad_nonreq is None:
                bad_nonreq = "on the path [%s] the filter is consulted although code.is_request() is %s" % (pm.describe(p), {None: "not established", False: "false"}[rq])
        elif rq is True and bad_skipped is None:
            bad_skipped = "on the path [%s] a request bypasses the filter" % pm.describe(p)
    ctx.ob("de-duplication is applied to request codes (guard code.is_request())", bad_nonreq is None, fi, call, detail=bad_nonreq)
    ctx.ob("every request is de-duplicated (no further condition on the filter)", bad_skipped is None, fi, call, detail=bad_skipped)
    # a hit ends processing: nothing with an effect follows the filter on a path that a hit can take
    effect_nodes = {n.id for n in cfg.nodes if _node_effect(n, ignore=(call,))}
    ctx.floor("effect sites in dispatch_message", len(effect_nodes), 2)
    hits_seen = 0
    bad = None
    for p in through:
        h = hit(p)
        if h is False:
            continue
        hits_seen += 1
        after = p.nodes[p.index(nid) + 1:]
        eff = [x for x in after if x in effect_nodes]
        if eff and bad is None:
            bad = (cfg.nodes[eff[0]].ast, "on the path [%s] (%s) processing continues with: %s" % (
                pm.describe(p), "hit" if h else "verdict not consulted", [stmt_text(cfg.nodes[x].ast, 50) for x in eff[:3]]))
    ctx.need(hits_seen, "no path of dispatch_message corresponds to a hit of the filter")
    ctx.ob("a duplicate request triggers nothing beyond the filter's own re-send (return on hit)", bad is None, fi, call, detail=bad[1] if bad else None)
    ctx.need(any(hit(p) is False for p in through), "no path of dispatch_message corresponds to a miss of the filter")
    # request processing only behind the filter
    pr = list(find("self._process_request($*a)", fi.node))
    ctx.floor("_process_request call sites", len(pr), 1)
    for c, _ in pr:
        on = [p for cn in cfg.locate(c) for p in pm.paths_through(cn)]
        ctx.need(on, "_process_request lies on no normal path")
        badp = None
        for p in on:
            cn = [x for x in cfg.locate(c) if x in p.nodes][0]
            filtered = nid in p.nodes and p.index(nid) < p.index(cn) and hit(p) is False
            if not filtered and _truth_named(pm, fi, is_req, p) is not False and badp is None:
                badp = "on the path [%s] the request is processed without a miss verdict of the filter" % pm.describe(p)
        ctx.ob("request processing is reachable only through the de-duplication filter", badp is None, fi, c, detail=badp)


def _delay_ok(kind, delay, m):
    """call_later(EXCHANGE_LIFETIME of the message's tuning) or call_at(<loop>.time() + that)"""
    N = Normalizer()
    want = Poly.atom("%s.transport_tuning.EXCHANGE_LIFETIME" % m)
    try:
        p = N.poly(delay)
    except norm.NormError:
        return False
    if kind == "call_later":
        return p == want
    now = [c for c in ast.walk(delay) if isinstance(c, ast.Call) and isinstance(c.func, ast.Attribute) and c.func.attr == "time" and not c.args]
    for c in now:
        try:
            if p == want + N.poly(c):
                return True
        except norm.NormError:
            pass
    return False


def _identifier_fields_assignable(prog):
    """Is there any assignment to the attribute `mid` or `remote` of an object other than `self` in the package
    (m.mid = ..., setattr-free spelling; Message declares them as plain attributes / properties with setters)?"""
    n = 0
    for mod in prog.modules.values():
        for x in ast.walk(mod.tree):
            if isinstance(x, ast.Attribute) and isinstance(x.ctx, ast.Store) and x.attr in ("mid", "remote"):
                if not (isinstance(x.value, ast.Name) and x.value.id == "self"):
                    n += 1
    return n > 0


def _sim(ctx, fi, m):
    from ._kit_c04 import EntrySim

    # _send_initially is the send primitive: that it records what it sends (under the same identifier) is C04.d
    return EntrySim(ctx.prog, fi, FIELD, m, opaque=("_send_initially", "_store_response_for_duplicates"))


@R.clause("C04.c", "_deduplicate_message: hits return True and re-send only the stored object for CON; a miss records None, returns False and arms the expiry")
def c(ctx):
    # Decided by running the function symbolically (rules/_kit_c04.py) for each state of the entry under
    # (message.remote, message.mid) -- unknown / known without reply / known with reply -- and each message
    # type, and inspecting what each run did.  Any spelling of the dictionary accesses (membership, .get with or
    # without a sentinel default, try/except KeyError, setdefault, pop, del), of the branching and of the expiry
    # callback (partial, lambda, nested def, bound method, method of self) gives the same runs.  Conditions the
    # interpreter cannot decide fork the run, so an extra condition on an effect shows as a run lacking it.
    from ._kit_c04 import ABSENT, NONE, REPLY, KEY

    fi = ctx.prog.func(MM + "_deduplicate_message")
    DEF = "def _deduplicate_message"
    ctx.ob("_deduplicate_message is atomic (plain def without await/yield)", is_plain_sync(fi), fi, fi.node, construct=DEF)
    m = params(fi)[0]
    ctx.need(not writes_to_name(fi.node, m), "the message parameter is re-bound")
    sim = _sim(ctx, fi, m)
    runs = sim.run_all()
    ctx.floor("symbolic runs of _deduplicate_message", len(runs), 12)
    A = _Agg(ctx, fi)
    resend_expected = resend_seen = 0
    n_miss = n_hit = 0
    for r in runs:
        w = r.where()
        miss = r.entry0 == ABSENT
        if r.kind != "return":
            A.ob("no path leaves the filter without an explicit verdict", False, fi.node, construct=DEF,
                 detail="%s: %s" % (w, "falls off the end" if r.kind == "fall" else "raises %s" % r.exc))
            continue
        A.ob("no path leaves the filter without an explicit verdict", True, fi.node, construct=DEF)
        if miss:
            n_miss += 1
            A.ob("an unknown (remote, mid) is not reported as duplicate (returns False)", r.value == ("bool", False), r.node, detail=w)
        else:
            n_hit += 1
            A.ob("a known (remote, mid) reports a duplicate (returns True)", r.value == ("bool", True), r.node, detail=w)
        for ev in r.events("foreignkey"):
            A.ob("the filter addresses the table by the identifier of the message only", False, ev[1], detail=w)
        for ev in r.events("tableop"):
            A.ob("the filter changes nothing in the table but the entry of the message", False, ev[2], detail="%s: .%s()" % (w, ev[1]))
        for ev in r.events("remove"):
            A.ob("only the expiry forgets an identifier", False, ev[1], detail=w)
        inserts = r.events("insert")
        timers = r.events("timer")
        for ev in inserts:
            if miss:
                A.ob("a new (remote, mid) is recorded with no reply yet (None)", ev[1] == NONE, ev[2], detail=w)
            A.ob("recording happens only on a miss", miss, ev[2], detail=w)
        for ev in timers:
            _k, call, kind, delay, removal = ev
            if miss:
                A.ob("identifier lifetime is EXCHANGE_LIFETIME of the message's transport tuning", _delay_ok(kind, delay, m), call,
                     detail="%s: delay = %s" % (w, ast.unparse(delay)))
                ctx.need(removal is not None, "the expiry callback `%s` cannot be interpreted (%s)" % (stmt_text(call.args[1], 60), "; ".join(sim.uninterpreted) or "unknown callable"))
                # The identifier must be the one that was recorded, i.e. a value fixed when the timer is armed.  A
                # callable that receives the message object and reads remote / mid from it when it runs forgets
                # whatever the object says *then*: the request object is handed on to the application and to the
                # block-wise machinery, and its mid / remote are assignable -- the recorded identifier would never
                # be forgotten (and another one too early).  Only if nothing in the package ever assigns these
                # fields is reading them late the same as reading them when arming.
                late = [e for e in removal if e[0] == "latekey"]
                if late and not _identifier_fields_assignable(ctx.prog):
                    ctx.note("the expiry callback reads the identifier from the message when it runs; nothing assigns .mid/.remote in the package")
                    removal = [("remove", e[1], False) if e[0] == "latekey" else e for e in removal]
                    late = []
                A.ob("the expiry forgets the identifier that was recorded: the key is a value fixed when the timer is armed, not read from the (mutable) message when it fires",
                     not late, call, detail="%s: `%s` evaluates remote/mid of the message object inside the callback" % (w, stmt_text(late[0][1], 60)) if late else None)
                # exactly one removal, of the key, nothing else; a default (pop(key, None)) does not matter
                ok = len(removal) == 1 and removal[0][0] in ("remove", "latekey")
                A.ob("the expiry forgets exactly the recorded identifier", ok, call, detail="%s: callback does %s" % (w, [e[0] for e in removal]))
            A.ob("the expiry is armed only for new identifiers", miss, call, detail=w)
        if miss:
            A.ob("every miss path records the identifier before returning", len(inserts) >= 1 and r.entry == NONE, r.node,
                 detail="%s: %d insertion(s), entry finally %s" % (w, len(inserts), r.entry[0]))
            A.ob("every miss path arms the expiry", len(timers) >= 1, r.node, detail=w)
        elif r.entry != r.entry0:
            A.ob("a duplicate leaves the recorded state as it is", False, r.node, detail="%s: entry finally %s" % (w, r.entry[0]))
        # outputs
        expected = r.entry0 == REPLY and r.mtype == "CON"
        resends = 0
        for ev in r.events("call"):
            _k, name, args, call = ev
            is_resend = name == "self._send_initially" and len(args) >= 1 and args[0] == REPLY
            A.ob("the only thing re-sent is the stored reply object itself (byte-identical)", is_resend or r.entry0 != REPLY, call,
                 detail="%s: %s" % (w, stmt_text(call, 60)))
            A.ob("re-send happens only on a hit", not miss, call, detail=w)
            if not miss:
                A.ob("only duplicates of confirmable requests are re-answered", r.mtype == "CON", call, detail="mtype %s" % r.mtype)
                A.ob("nothing is re-sent while no reply has been recorded", r.entry0 == REPLY, call, detail=w)
            resends += bool(is_resend)
        for ev in r.events("store"):
            A.ob("the filter has no effect beyond the table, the expiry and the re-send", False, ev[1], detail=w)
        if expected:
            resend_expected += 1
            resend_seen += resends == 1
            A.ob("a duplicate confirmable request is answered with the recorded reply", resends == 1, fi.node, construct=DEF,
                 detail="%s: %d re-send(s)" % (w, resends))
    A.flush()
    ctx.need(n_miss and n_hit and resend_expected, "the symbolic runs do not cover miss, hit and re-answer")
    ctx.ob("both outcomes exist", n_miss > 0 and n_hit > 0, fi, fi.node, construct=DEF)


_STORE = MM + "_store_response_for_duplicates"
_TX = ("self._send_via_transport", "self.message_interface.send")


def _recorder(prog):
    """The recording step: _store_response_for_duplicates -- or _send_initially itself when the three-line
    function has been folded into its only caller (then the interpreter runs on _send_initially)."""
    if prog.has_func(_STORE):
        return prog.func(_STORE), False
    return prog.func(MM + "_send_initially"), True


@R.clause("C04.d", "the reply is recorded for duplicates before it is transmitted, and only for known identifiers")
def d(ctx):
    from ..paths import PathModel
    from ._kit_c04 import ABSENT

    fi = ctx.prog.func(MM + "_send_initially")
    m = params(fi)[0]
    sf, folded = _recorder(ctx.prog)
    if not folded:
        cfg = cfg_of(fi)
        st = list(find("self._store_response_for_duplicates($x)", fi.node))
        tx = [x for pat_ in _TX for x in find(pat_ + "($x)", fi.node)]
        ctx.floor("transmission site in _send_initially", len(tx), 1)

        def is_m(e):
            e = _resolve(fi.node, e)
            return isinstance(e, ast.Name) and e.id == m

        rebound = bool(writes_to_name(fi.node, m))
        # on every normal path through the transmission, the message was recorded before (path model: indifferent
        # to guard clauses / nesting around either call; a condition on the recording shows as a path without it)
        pm = PathModel(fi, subjects={"%s.mtype" % m: ["CON", "NON", "ACK", "RST"]})
        st_nodes = {x for s, sb in st if is_m(sb["x"]) for x in cfg.locate(s)}
        for t, tb in tx:
            bad = None
            on = [(p, tn) for tn in cfg.locate(t) for p in pm.paths_through(tn)]
            ctx.need(on, "the transmission lies on no normal path of _send_initially")
            for p, tn in on:
                before = p.nodes[: p.index(tn)]
                if not any(x in st_nodes for x in before) and bad is None:
                    bad = "on the path [%s] nothing is recorded before the transmission" % pm.describe(p)
            ctx.ob("every transmission is preceded by recording the same message as possible reply to duplicates", bad is None and is_m(tb["x"]) and not rebound, fi, t, detail=bad)
        for s, sb in st:
            ctx.ob("what is handed to the recording step is the message being sent", is_m(sb["x"]) and not rebound, fi, s)
    # the recording step, run symbolically for each state of the entry
    sm = params(sf)[0]
    ctx.need(not writes_to_name(sf.node, sm), "the message parameter of %s is re-bound" % sf.name)
    DEF = "def %s" % sf.name
    sim = _sim(ctx, sf, sm)
    runs = sim.run_all()
    ctx.floor("symbolic runs of %s" % sf.name, len(runs), 12)
    A = _Agg(ctx, sf)
    n_ins = n_tx = 0
    for r in runs:
        w = r.where()
        known = r.entry0 != ABSENT
        if r.kind == "raise":
            A.ob("the recording step completes", False, sf.node, construct=DEF, detail="%s: raises %s" % (w, r.exc))
            continue
        inserts = r.events("insert")
        for ev in inserts:
            n_ins += 1
            A.ob("a reply is recorded only under an identifier that is already known (no entry without expiry)", known, ev[2], detail=w)
            A.ob("what is recorded is the message being sent", ev[1] == ("param", sm), ev[2], detail=w)
        if known:
            anchor = inserts[0][2] if inserts else sf.node
            A.ob("no further condition prevents recording the reply", len(inserts) >= 1 and r.entry == ("param", sm), anchor,
                 construct=None if inserts else DEF, detail="%s: %d insertion(s)" % (w, len(inserts)))
        else:
            A.ob("a reply is recorded only under an identifier that is already known (no entry without expiry)", r.entry == ABSENT, sf.node, construct=DEF, detail=w)
        for ev in r.events("foreignkey"):
            A.ob("the recording step addresses the table by the identifier of the message only", False, ev[1], detail=w)
        for ev in r.events("remove"):
            A.ob("the recording step never forgets an identifier", False, ev[1], detail=w)
        for ev in r.events("tableop"):
            A.ob("the recording step changes nothing in the table but the entry of the message", False, ev[2], detail=w)
        for ev in r.events("timer"):
            A.ob("the recording step arms no expiry of its own", False, ev[1], detail=w)
        if folded:
            for i, ev in enumerate(r.trace):
                if ev[0] == "call" and ev[1] in _TX:
                    n_tx += 1
                    recorded = any(x[0] == "insert" and x[1] == ("param", sm) for x in r.trace[:i])
                    A.ob("every transmission is preceded by recording the same message as possible reply to duplicates",
                         (recorded or not known) and len(ev[2]) >= 1 and ev[2][0] == ("param", sm), ev[3], detail=w)
    A.flush()
    ctx.floor("insertions in %s" % sf.name, n_ins, 1)
    if folded:
        ctx.floor("transmissions in the symbolic runs of _send_initially", n_tx, 12)


def _references(prog, name):
    """(number of references to attribute / name `name` in the package, {function short name: count})"""
    total = 0
    per = {}
    for mod in prog.modules.values():
        for n in ast.walk(mod.tree):
            if (isinstance(n, ast.Attribute) and n.attr == name) or (isinstance(n, ast.Name) and n.id == name and isinstance(n.ctx, ast.Load)):
                total += 1
    for f in prog.funcs.values():
        if f.parent is not None:
            continue
        k = 0
        for n in ast.walk(f.node):
            if (isinstance(n, ast.Attribute) and n.attr == name) or (isinstance(n, ast.Name) and n.id == name and isinstance(n.ctx, ast.Load)):
                k += 1
        if k:
            per[f.short] = k
    return total, per


def _writers(prog, field):
    """{function: [(kind, node)]}: the engine's field_writers, united with an alias-aware scan that also enters
    lambdas (which are not functions of their own in the program index) and nested defs."""
    from ._kit_c04 import table_writes

    res = {}
    seen = set()
    for fn, hits in field_writers(prog, field).items():
        for kind, node in hits:
            seen.add(id(node))
            res.setdefault(fn, []).append((kind, node))
    for f in prog.funcs.values():
        if f.parent is not None:
            continue
        for kind, node in table_writes(f.node, field):
            # attributed to the enclosing top-level function; what the engine's scan found keeps its owner
            if id(node) in seen or _stmt_seen(f.node, node, seen):
                continue
            seen.add(id(node))
            res.setdefault(f.short, []).append((kind, node))
    return res


def _stmt_seen(root, node, seen):
    """Is `node` part of a statement the engine's scan has reported already?"""
    for st in ast.walk(root):
        if isinstance(st, ast.stmt) and id(st) in seen and any(x is node for x in ast.walk(st)):
            return True
    return False


@R.clause("C04.e", "only the two de-duplication functions (and the scheduled expiry) write _recent_messages")
def e(ctx):
    allowed = {"messagemanager.MessageManager.__init__", "messagemanager.MessageManager._deduplicate_message", _recorder(ctx.prog)[0].short}
    w = _writers(ctx.prog, "_recent_messages")
    n = sum(len(v) for v in w.values())
    ctx.floor("write sites of _recent_messages in the package", n, 3)
    # The scheduled expiry may be a method of its own (call_later(t, self._forget, key)): it is accepted when the
    # symbolic run of _deduplicate_message identifies it as the expiry callback (C04.c checks that it removes
    # exactly the key) and nothing else in the package refers to it.  Likewise a helper that is referred to by the
    # de-duplication functions only is part of them (C04.c/C04.d interpret it or refuse).
    part_of = {}
    foreign = [fn for fn in w if fn not in allowed]
    if foreign:
        for fn in foreign:
            f = ctx.prog.funcs["aiocoap." + fn]
            if f.parent is not None:
                # a nested def of an allowed function belongs to it
                top = f
                while top.parent is not None:
                    top = top.parent
                if top.short in allowed:
                    part_of[fn] = top.short
                continue
            total, per = _references(ctx.prog, f.name)
            users = set(per) - {fn}
            inside = sum(per.get(u, 0) for u in users)
            if total and total == inside and users <= (allowed - {"messagemanager.MessageManager.__init__"}):
                part_of[fn] = "/".join(sorted(u.split(".")[-1] for u in users))
    for fn, hits in sorted(w.items()):
        for kind, node in hits:
            fi = ctx.prog.funcs["aiocoap." + fn]
            ok = fn in allowed or fn in part_of
            ctx.ob("writer of _recent_messages is one of the de-duplication functions", ok, fi, node,
                   detail="%s in %s%s" % (kind, fn, (" (used by %s only)" % part_of[fn]) if fn in part_of else ""))
    # Self-check of the scan, AFTER the writers it did find have been judged: a writer outside the de-duplication
    # functions is a violation whether or not the scan also recognises the writes of the functions themselves
    # (a foreign writer that was found is a fact; a refusal here only ever adds to it).
    ctx.need(allowed <= set(w), "the writer scan does not find the writes of %s" % sorted(x.split(".")[-1] for x in allowed - set(w)))
    # positive control for the zero-instance side of the rule
    ctl = ast.parse("def f(self):\n    self._recent_messages.clear()\n").body[0]
    ctx.need(len(stores_to_any(ctl, "_recent_messages")) == 1, "positive control for the writer scan failed")


@R.clause("C04.f", "identifiers are remembered for EXCHANGE_LIFETIME as RFC 7252 defines it: the derived spans equal the section 4.8.2 formulas (shared with C03.g)")
def f_shared(ctx):
    from . import c03
    c03.g(ctx)


@R.clause("C04.g", "the reply recorded for duplicates is an object of its own: the fallback 5.00 is built afresh for every failing request (shared with C09.a)")
def g_shared(ctx):
    """The value stored in _recent_messages is the very Message object that was sent; token, remote, type and message
    ID are written into it in place.  An independently written breaking change made error_to_message hand out one
    cached Message for every non-renderable failure, so the stored reply of an earlier request silently became the
    reply to a later one.  The obligations are those of C09.a (each failure path builds its own bare 5.00)."""
    from . import c09
    c09.a(ctx)


@R.clause("C04.h", "whatever may be the acknowledgement of a request reaches the wire only through the recording sender _send_initially")
def h(ctx):
    # A duplicate can only be re-answered with "the acknowledgement already sent" if every acknowledgement that is
    # sent has been offered to the recording step.  That step lives in _send_initially (C04.d), so the necessary
    # condition is: no message that may be an ACK gets to the transmission primitive (<x>.message_interface.send)
    # on a way that does not start in _send_initially.  Decided by walking back from every reference to the
    # primitive in the whole package: a function that hands on one of its own parameters is a conduit and the
    # question moves to all of its callers (rules/_kit_c04.py: WireFlow; also through nested defs with default
    # bindings, lambdas, method values given to call_later / call_soon / partial, local aliases).  A walk may end
    #   - in _send_initially with the message it was called for (a retransmission of the same object lands here
    #     through the timer chain _add_exchange -> ... -> _retransmit): fine, and the recording step lies on every
    #     path through that site (before it when the chain to the wire is synchronous);
    #   - at a message that provably is not an ACK (built as RST / CON / NON in the function, or the site is
    #     guarded by a condition on its mtype that excludes ACK): such a message is never what a duplicate request
    #     is to be re-answered with;
    #   - anywhere else: violation at that site.
    # The re-send inside the filter is C04.c's (it sends the recorded object itself).
    from ..paths import PathModel
    from ._kit_c04 import WireFlow

    si = ctx.prog.func(MM + "_send_initially")
    m = params(si)[0]
    filt = ctx.prog.func(MM + "_deduplicate_message")
    wf = WireFlow(ctx.prog, si, _resolve, _enclosing_binding, judged_elsewhere=(filt.qn,))
    wires = wf.run()
    ctx.floor("references to the transmission primitive message_interface.send in the package", len(wires), 1)
    for t in wf.notes:
        ctx.note(t)
    bad_by_wire = [x for x in wf.findings if not x[2]]
    seen = set()
    for f, node, ok, detail in wf.findings:
        if id(node) in seen:
            continue
        seen.add(id(node))
        ctx.ob("a message that may acknowledge a request is put on the wire through _send_initially only (where it is recorded for duplicates)",
               ok, f, node, detail=detail)
    for f, ref in wires:
        if id(ref) in seen or bad_by_wire:
            continue  # the offending sites are reported where they are
        ctx.ob("every way to the transmission primitive starts in _send_initially or carries a message that is no acknowledgement", True, f, ref)
    ctx.floor("ways from _send_initially to the wire", len(wf.arrivals), 1)
    rebound = bool(writes_to_name(si.node, m))
    sf, folded = _recorder(ctx.prog)
    cfg = cfg_of(si)
    pm = None
    if not folded:
        pm = PathModel(si, subjects={"%s.mtype" % m: ["CON", "NON", "ACK", "RST"]})
        st_nodes = set()
        for s_, sb in find("self.%s($x)" % sf.name, si.node):
            x = _resolve(si.node, sb["x"])
            if isinstance(x, ast.Name) and x.id == m:
                st_nodes.update(cfg.locate(s_))
    else:
        ctx.note("the recording step is part of _send_initially: order of recording and transmission is decided on the symbolic runs of C04.d")
    done = set()
    for pin, deferred, arg in wf.arrivals:
        if id(pin) in done:
            continue
        done.add(id(pin))
        is_m = isinstance(arg, ast.Name) and arg.id == m and not rebound
        ctx.ob("what _send_initially puts on the wire (now or by a later retransmission) is the message it was called with", is_m, si, pin,
               detail="sends `%s`" % stmt_text(arg, 40))
        if pm is None:
            continue
        nids = cfg.locate(pin)
        ctx.need(nids, "the site `%s` of _send_initially is not part of its control flow graph" % stmt_text(pin, 50))
        on = [(p, n) for n in nids for p in pm.paths_through(n)]
        ctx.need(on, "the site `%s` lies on no normal path of _send_initially" % stmt_text(pin, 50))
        bad = None
        for p, n in on:
            scope = p.nodes if deferred else p.nodes[: p.index(n)]
            if not any(x in st_nodes for x in scope) and bad is None:
                bad = "on the path [%s] the message is %s without having been offered to the recording step" % (
                    pm.describe(p), "scheduled for transmission" if deferred else "transmitted")
        ctx.ob("the recording step lies on every path of _send_initially that leads to the wire (before a synchronous transmission)",
               bad is None, si, pin, detail=bad)


MSG_CLS = "aiocoap.message.Message"
TYPE_CLS = "aiocoap.numbers.types.Type"
_ID_FIELDS = ("mid", "mtype", "token")


def _bindings(fnode, name):
    """Every value bound to local `name` in fnode (assignment, element of a tuple assignment, walrus); None stands
    for a binding whose value is not an expression of the function (loop target, with-target, except name)."""
    vals = []
    for n in walk_no_nested(fnode):
        if isinstance(n, (ast.Assign, ast.AnnAssign)):
            targets = n.targets if isinstance(n, ast.Assign) else [n.target]
            if n.value is None:
                continue
            for t in targets:
                if isinstance(t, ast.Name) and t.id == name:
                    vals.append(n.value)
                elif isinstance(t, (ast.Tuple, ast.List)):
                    if isinstance(n.value, (ast.Tuple, ast.List)) and len(t.elts) == len(n.value.elts):
                        for x, v in zip(t.elts, n.value.elts):
                            if isinstance(x, ast.Name) and x.id == name:
                                vals.append(None if isinstance(v, ast.Starred) else v)
                    elif any(isinstance(x, ast.Name) and x.id == name for x in ast.walk(t)):
                        vals.append(None)
        elif isinstance(n, ast.AugAssign) and isinstance(n.target, ast.Name) and n.target.id == name:
            vals.append(None)
        elif isinstance(n, ast.NamedExpr) and n.target.id == name:
            vals.append(n.value)
        elif isinstance(n, (ast.For, ast.AsyncFor, ast.comprehension)) and any(isinstance(x, ast.Name) and x.id == name for x in ast.walk(n.target)):
            vals.append(None)
        elif isinstance(n, (ast.With, ast.AsyncWith)):
            for it in n.items:
                if it.optional_vars is not None and any(isinstance(x, ast.Name) and x.id == name for x in ast.walk(it.optional_vars)):
                    vals.append(None)
        elif isinstance(n, ast.ExceptHandler) and n.name == name:
            vals.append(None)
    return vals


def _is_param(fnode, name):
    a = fnode.args
    return any(x.arg == name for x in a.posonlyargs + a.args + a.kwonlyargs + [y for y in (a.vararg, a.kwarg) if y])


def _site_value(scope, fi, e):
    """The value a keyword argument has at a construction site when it is the same on every execution (a constant, an
    enumeration member, possibly through a local that names it); None when it varies (then the whole domain counts)."""
    e = _deep_resolve(fi.node, _resolve(fi.node, e))
    if isinstance(e, ast.Constant):
        return ("c", e.value)
    c = chain(e)
    if c is None:
        return None
    head = c.split(".")[0]
    if _is_param(fi.node, head) or _bindings(fi.node, head):
        return None
    v = scope.resolve(fi.module, c)
    if v is not None and v[0] in ("enum", "c"):
        return v
    return None


def _show(v):
    if v[0] == "c":
        return repr(v[1])
    if v[0] == "enum":
        return v[2]
    if v[0] == "new":
        return "%s()" % str(v[1]).split(".")[-1]
    if v[0] == "unk":
        return "<unknown: %s>" % v[1]
    return v[0]


@R.clause("C04.i", "a message built with a message ID, type or token carries exactly what it was given: Message.__init__ hands every value of the identifier space (ID 0, type CON, empty token included) into the field under which replies are recorded")
def i(ctx):
    # A reply is recorded under (reply.remote, reply.mid) and found again under (request.remote, request.mid); the
    # acknowledgements are built with `Message(<spelling of mid>=<the request's ID>, <spelling of mtype>=ACK ...)`.
    # That "constructor keyword" and "attribute assignment" are the same fact is a property of Message.__init__, and
    # it has to hold for every value the keyword can have at the site -- the ID space includes 0, the types include
    # the one whose number is 0, a token may be empty.  Decided by running Message.__init__ (as the rules see it,
    # helpers expanded) on representatives of the domain for the keyword set of every construction in the message
    # layer and in Message.decode, and comparing the fields it leaves behind with what was passed.  Which keyword
    # feeds which field is found by a probe run, not by its name.
    from itertools import product
    from ._kit_c04 import ObjSim, ModuleScope, Unsupported, constructions

    prog = ctx.prog
    prog.cls("message.Message")
    try:
        sim = ObjSim(prog, MSG_CLS)
        init = sim.init
        base = [r for r in sim.run({}) if r[0] == "return"]
        ctx.need(base and all(not r[2] and all(f in r[1] and r[1][f][0] != "unk" for f in _ID_FIELDS) for r in base),
                 "Message.__init__ without identifier arguments cannot be interpreted (fields %s)" % (
                     [{f: _show(r[1].get(f, ("unk", "not set"))) for f in _ID_FIELDS} for r in base][:1]))
        scope = ModuleScope(prog)
        em = scope.enum_members(TYPE_CLS)
        ctx.need(em is not None and len(em[0]) >= 4, "numbers.types.Type is not an enumeration with constant members")
        domain = {
            "mid": [("c", 0), ("c", 1), ("c", 0x1234), ("c", 0xFFFF)],
            "token": [("c", b""), ("c", b"\x00"), ("c", b"tk")],
            "mtype": [scope.member(TYPE_CLS, n) for n in sorted(em[0], key=lambda n: em[0][n])],
        }
        # which parameter feeds which field
        feeds = {}
        for p in sim.param_names():
            mk = ("marker", p)
            hit = set()
            for kind, fields, clob, info in sim.run({p: mk}):
                if kind != "return":
                    continue
                for f in _ID_FIELDS:
                    v = fields.get(f)
                    if v == mk or (v is not None and v[0] == "conv" and v[2] == mk):
                        hit.add(f)
            if len(hit) == 1:
                feeds[p] = hit.pop()
            elif hit:
                raise AnalysisError("parameter %s of Message.__init__ reaches several identifier fields %s" % (p, sorted(hit)))
        ctx.note("Message.__init__: %s" % ", ".join("%s -> .%s" % kv for kv in sorted(feeds.items())))
        funcs = [f for f in prog.funcs.values() if f.module.name == "aiocoap.messagemanager"]
        dec = prog.lookup_method(MSG_CLS, "decode")
        if dec is not None:
            funcs.append(dec)
        n_sites = n_runs = 0
        for f in funcs:
            for call, kws, opaque in constructions(prog, f, MSG_CLS):
                idk = [k for k in kws if k in feeds]
                if not idk:
                    continue
                if opaque:
                    ctx.note("%s: `%s` passes arguments the interpreter cannot see (positional / **)" % (f.name, stmt_text(call, 50)))
                n_sites += 1
                choices = []
                for k in idk:
                    v = _site_value(scope, f, kws[k])
                    choices.append([v] if v is not None else domain[feeds[k]])
                fixed = {}
                for k in kws:
                    if k not in feeds and k in sim.param_names():
                        v = _site_value(scope, f, kws[k])
                        fixed[k] = v if v is not None else ("unk", "argument %s" % k)
                bad = {}
                unknown = None
                for combo in product(*choices):
                    kw = dict(fixed)
                    kw.update(zip(idk, combo))
                    res = sim.run(kw)
                    n_runs += 1
                    rets = [r for r in res if r[0] == "return"]
                    given = ", ".join("%s=%s" % (k, _show(v)) for k, v in zip(idk, combo))
                    if not rets:
                        bad.setdefault("*", "%s: the construction raises (%s)" % (given, res[0][3] if res else "no path"))
                        continue
                    # what each field is expected to hold: the value given for it (when two spellings of the same
                    # field are given at one site the code has to pick one of them)
                    for fld in {feeds[k] for k in idk}:
                        want = [v for k, v in zip(idk, combo) if feeds[k] == fld]
                        for kind, fields, clob, info in rets:
                            got = fields.get(fld, ("unk", "not set"))
                            if got[0] == "unk" or clob:
                                unknown = "%s: field %s is %s" % (given, fld, _show(got))
                                continue
                            if not any(sim.eq(got, w) is True for w in want):
                                bad.setdefault(fld, "%s: the object's %s is %s" % (given, fld, _show(got)))
                ctx.need(unknown is None or bad, "Message.__init__ cannot be interpreted for `%s`: %s" % (stmt_text(call, 60), unknown))
                for fld in sorted({feeds[k] for k in idk} | ({"*"} if "*" in bad else set())):
                    what = "the message built here can be built for every identifier" if fld == "*" else "the message built here carries the %s it is given, whatever its value" % fld
                    ctx.ob(what, fld not in bad, f, call, detail=bad.get(fld))
        ctx.note("%d construction sites with identifier arguments, %d constructor runs" % (n_sites, n_runs))
    except Unsupported as ex:
        raise AnalysisError("Message.__init__ is outside what the constructor interpreter understands: %s" % ex)


def _tuning_classes(prog, fi, e, own, depth=5):
    """{class qn: node} -- the classes of the objects expression e (in fi) may denote when it is stored as the
    transport tuning of a message; `own` are the local names of that message (its own tuning adds nothing).
    Raises AnalysisError when a possible value cannot be traced to a class of the package."""
    from ._kit_c04 import ModuleScope

    scope = ModuleScope(prog)
    out = {}

    def cls_of_name(c):
        head = c.split(".")[0]
        if "." not in c:
            f = fi
            while f is not None:
                q = f.qn.split("#")[0] + ".<locals>." + c
                if q in prog.classes:
                    return ("cls", q)
                f = f.parent
        if _is_param(fi.node, head) or _bindings(fi.node, head):
            return None
        return scope.resolve(fi.module, c)

    def rec(x, d):
        if d < 0:
            raise AnalysisError("tuning value `%s` in %s: too many indirections" % (stmt_text(e, 40), fi.name))
        if isinstance(x, ast.Constant) and x.value is None:
            return
        if isinstance(x, ast.IfExp):
            rec(x.body, d - 1)
            rec(x.orelse, d - 1)
            return
        if isinstance(x, ast.BoolOp):
            for v in x.values:
                rec(v, d - 1)
            return
        if isinstance(x, ast.NamedExpr):
            rec(x.value, d - 1)
            return
        if isinstance(x, ast.Attribute) and x.attr == "transport_tuning":
            b = x.value
            for _ in range(4):
                if not isinstance(b, ast.Name):
                    break
                if b.id in own:
                    return
                b = _assigned(fi.node, b.id)
            raise AnalysisError("a received message gets the tuning of another object (`%s` in %s): its class is not known statically" % (stmt_text(x, 40), fi.name))
        if isinstance(x, ast.Call) and not x.args and not x.keywords:
            c = chain(x.func)
            r = cls_of_name(c) if c else None
            if r is not None and r[0] == "cls":
                out.setdefault(r[1], x)
                return
        c = chain(x)
        if c is not None:
            r = cls_of_name(c)
            if r is not None and r[0] in ("cls", "new") and r[1] in prog.classes:
                out.setdefault(r[1], x)
                return
            if r is not None and r == ("c", None):
                return
            if isinstance(x, ast.Name):
                vals = _bindings(fi.node, x.id)
                if vals and all(v is not None for v in vals) and not _is_param(fi.node, x.id):
                    for v in vals:
                        rec(v, d - 1)
                    return
        raise AnalysisError("the tuning object `%s` given to a received message in %s cannot be traced to a class of the package" % (stmt_text(x, 40), fi.name))

    rec(e, depth)
    return out


def _tuning_stores(fi, own):
    """[(node, value expr)] of the stores to <m>.transport_tuning in fi for m one of the names `own` (or an alias)"""
    res = []

    def is_own(b):
        # the name itself, or a local that merely names it
        for _ in range(4):
            if not isinstance(b, ast.Name):
                return False
            if b.id in own:
                return True
            b = _assigned(fi.node, b.id)
        return False

    for n in walk_no_nested(fi.node):
        if isinstance(n, (ast.Assign, ast.AnnAssign, ast.AugAssign)):
            targets = n.targets if isinstance(n, ast.Assign) else [n.target]
            for t in targets:
                for x in (t.elts if isinstance(t, (ast.Tuple, ast.List)) else [t]):
                    if isinstance(x, ast.Attribute) and x.attr == "transport_tuning" and is_own(x.value):
                        v = n.value
                        if isinstance(t, (ast.Tuple, ast.List)):
                            v = n.value.elts[t.elts.index(x)] if isinstance(n.value, (ast.Tuple, ast.List)) and len(n.value.elts) == len(t.elts) else None
                        res.append((n, v if not isinstance(n, ast.AugAssign) else None))
        elif isinstance(n, ast.Call) and chain(n.func) == "setattr" and len(n.args) == 3 and is_own(n.args[0]):
            k = n.args[1]
            if not isinstance(k, ast.Constant):
                res.append((n, None))
            elif k.value == "transport_tuning":
                res.append((n, n.args[2]))
    return res


@R.clause("C04.j", "the lifetime of a remembered identifier is the EXCHANGE_LIFETIME of RFC 7252 for every received message: whatever tuning object a decoded message can carry evaluates EXCHANGE_LIFETIME to the value of the default TransportTuning")
def j(ctx):
    # The filter arms the expiry with <received message>.transport_tuning.EXCHANGE_LIFETIME (C04.c), C04.f pins the
    # formulas and defaults of the class TransportTuning.  What joins the two: the object found in .transport_tuning
    # of a message that reaches dispatch_message.  Two sites maintain the invariant together and either may change as
    # long as it holds:
    #   (A) the classes of the tuning objects a received message may carry: what the constructor leaves there for the
    #       way Message.decode (or the transport) builds the object, plus every later store to its .transport_tuning on
    #       the way to the filter (decode, the transport's receive function, dispatch_message, the filter itself);
    #   (B) the number EXCHANGE_LIFETIME evaluates to for each of these classes (attributes and properties looked up
    #       along the class hierarchy, exact arithmetic).
    # Obligation: for every class of (A) the value (B) equals that of TransportTuning itself.  Tagging received messages
    # with Reliable()/Unreliable() is fine while these compute 247 s; overriding MAX_RETRANSMIT in Unreliable is fine
    # while no received message carries an Unreliable.
    from ._kit_c04 import ObjSim, ClassEval, Unsupported, constructions

    prog = ctx.prog
    BASE = "aiocoap.numbers.constants.TransportTuning"
    prog.cls("numbers.constants.TransportTuning")
    ctx.need(prog.lookup_method(MSG_CLS, "transport_tuning") is None and all(
        "transport_tuning" not in prog.classes[q].attrs for q in prog.mro(MSG_CLS) if q in prog.classes),
        "Message.transport_tuning is not a plain instance attribute")
    try:
        be = ClassEval(prog, BASE)
        ref = be.number("EXCHANGE_LIFETIME")
    except Unsupported as ex:
        raise AnalysisError("TransportTuning.EXCHANGE_LIFETIME cannot be evaluated: %s" % ex)
    deps = set(be.deps)
    origins = []  # (class qn, function, node)

    def add(classes, f, node=None):
        for q, n in classes.items():
            origins.append((q, f, node if node is not None else n))

    def from_construction(f, call, kws, opaque):
        """tuning left behind by the constructor for this construction"""
        ctx.need(not opaque, "`%s` in %s passes arguments the interpreter cannot see" % (stmt_text(call, 50), f.name))
        try:
            sim = ObjSim(prog, MSG_CLS)
            kw = {k: ("unk", "argument %s" % k) for k in kws if k in sim.param_names() and k != "transport_tuning"}
            # keywords that are not parameters go to **kwargs (options): they do not matter here
            res = [r for r in sim.run(kw) if r[0] == "return"]
        except Unsupported as ex:
            raise AnalysisError("Message.__init__ is outside what the constructor interpreter understands: %s" % ex)
        ctx.need(res, "Message.__init__ has no normal path for `%s`" % stmt_text(call, 50))
        for kind, fields, clob, info in res:
            v = fields.get("transport_tuning", ("unk", "not set"))
            ctx.need(not clob and v[0] in ("new", "cls") and v[1] in prog.classes,
                     "the tuning Message.__init__ gives a message built by `%s` is not a known class (%s)" % (stmt_text(call, 50), _show(v)))
            origins.append((v[1], f, call))
        if "transport_tuning" in kws:
            add(_tuning_classes(prog, f, kws["transport_tuning"], set()), f, call)

    def objects_of(f, e, seen):
        """local names / constructions the expression e of f may denote -> ([names], [construction calls], [decode calls])"""
        names, ctors, decs = [], [], []
        cons = {id(c): (c, k, o) for c, k, o in constructions(prog, f, MSG_CLS)}

        def rec(x, d):
            if d < 0:
                raise AnalysisError("origin of the message `%s` in %s: too many indirections" % (stmt_text(e, 40), f.name))
            if isinstance(x, ast.Await):
                x = x.value
            if isinstance(x, ast.Name):
                if x.id in names:
                    return
                vals = _bindings(f.node, x.id)
                ctx.need(vals and all(v is not None for v in vals) and not _is_param(f.node, x.id),
                         "the message `%s` in %s does not originate in that function" % (x.id, f.name))
                names.append(x.id)
                for v in vals:
                    rec(v, d - 1)
                return
            if isinstance(x, ast.IfExp):
                rec(x.body, d - 1)
                rec(x.orelse, d - 1)
                return
            if isinstance(x, ast.Call):
                if id(x) in cons:
                    ctors.append(cons[id(x)])
                    return
                if isinstance(x.func, ast.Attribute):
                    c = chain(x.func.value)
                    recv_cls = None
                    if c is not None:
                        if f.cls is not None and f.cls.qn == MSG_CLS and c == (params_all(f) or [None])[0]:
                            recv_cls = MSG_CLS
                        elif not _is_param(f.node, c.split(".")[0]) and not _bindings(f.node, c.split(".")[0]):
                            recv_cls = prog.resolve_in_module(f.module, c)
                    if recv_cls == MSG_CLS:
                        m = prog.lookup_method(MSG_CLS, x.func.attr)
                        if m is not None:
                            decs.append((x, m))
                            return
            raise AnalysisError("the origin `%s` of a message handed to dispatch_message in %s is neither Message.decode(...) nor a construction" % (stmt_text(x, 50), f.name))

        rec(e, 5)
        return names, ctors, decs

    def params_all(f):
        a = f.node.args
        return [x.arg for x in a.posonlyargs + a.args]

    def analyse_factory(m, depth=0):
        """a classmethod / staticmethod of Message that returns the decoded object"""
        ctx.need(depth < 3, "nesting of message factories")
        rets = [n for n in walk_no_nested(m.node) if isinstance(n, ast.Return) and n.value is not None]
        ctx.need(rets, "%s returns nothing" % m.name)
        for r in rets:
            names, ctors, decs = objects_of(m, r.value, set())
            for call, kws, opaque in ctors:
                from_construction(m, call, kws, opaque)
            for call, m2 in decs:
                ctx.need(m2 is not m, "%s is recursive" % m.name)
                analyse_factory(m2, depth + 1)
            for node, v in _tuning_stores(m, set(names)):
                ctx.need(v is not None, "store `%s` in %s cannot be interpreted" % (stmt_text(node, 50), m.name))
                add(_tuning_classes(prog, m, v, set(names)), m, node)

    sites = []
    for f in prog.funcs.values():
        for c in walk_no_nested(f.node):
            if isinstance(c, ast.Call) and isinstance(c.func, ast.Attribute) and c.func.attr == "dispatch_message" and len(c.args) + len(c.keywords) == 1:
                if f.module.name == "aiocoap.messagemanager" and f.cls is not None and f.name == "dispatch_message":
                    continue
                sites.append((f, c))
    ctx.floor("places where a transport hands a received message to dispatch_message", len(sites), 1)
    factories = set()
    for f, c in sites:
        arg = c.args[0] if c.args else c.keywords[0].value
        names, ctors, decs = objects_of(f, arg, set())
        for call, kws, opaque in ctors:
            from_construction(f, call, kws, opaque)
        for call, m in decs:
            if m.qn not in factories:
                factories.add(m.qn)
                analyse_factory(m)
        for node, v in _tuning_stores(f, set(names)):
            ctx.need(v is not None, "store `%s` in %s cannot be interpreted" % (stmt_text(node, 50), f.name))
            add(_tuning_classes(prog, f, v, set(names)), f, node)
    # on the way from dispatch_message to the read in the filter
    for short in (MM + "dispatch_message", MM + "_deduplicate_message"):
        f = prog.func(short)
        own = {params(f)[0]}
        for node, v in _tuning_stores(f, own):
            ctx.need(v is not None, "store `%s` in %s cannot be interpreted" % (stmt_text(node, 50), f.name))
            add(_tuning_classes(prog, f, v, own), f, node)
    ctx.floor("tuning classes a received message may carry", len(origins), 1)
    carried = {q for q, _f, _n in origins}
    # nothing re-defines, at run time, a parameter the lifetime is computed from
    all_deps = set(deps)
    values = {}
    for q in sorted(carried):
        try:
            ce = ClassEval(prog, q)
            values[q] = ce.number("EXCHANGE_LIFETIME")
            all_deps |= set(ce.deps)
        except Unsupported as ex:
            raise AnalysisError("EXCHANGE_LIFETIME of %s (a tuning class a received message may carry) cannot be evaluated: %s" % (q.split(".")[-1], ex))
    family = {a for q in carried | {BASE} for a in prog.mro(q)}
    for mod in prog.modules.values():
        pm = None
        for n in ast.walk(mod.tree):
            tgt = None
            if isinstance(n, ast.Attribute) and isinstance(n.ctx, (ast.Store, ast.Del)) and n.attr in all_deps:
                tgt = n.value
            elif isinstance(n, ast.Call) and chain(n.func) == "setattr" and len(n.args) == 3 and isinstance(n.args[1], ast.Constant) and n.args[1].value in all_deps:
                tgt = n.args[0]
            if tgt is None:
                continue
            pm = pm or prog.parent_map(mod)
            owner = pm.get(id(n))
            while owner is not None and not isinstance(owner, (ast.FunctionDef, ast.AsyncFunctionDef)):
                owner = pm.get(id(owner))
            fo = next((x for x in prog.funcs.values() if x.node is owner), None)
            c = chain(tgt) or ""
            hits_family = c.endswith("transport_tuning")
            if not hits_family and c and fo is not None and c == (params_all(fo) or [None])[0] and fo.cls is not None:
                if fo.cls.qn in family or any(fo.cls.qn in prog.mro(q) for q in carried):
                    hits_family = True
                elif BASE in prog.mro(fo.cls.qn):
                    continue  # a tuning class of its own that no received message carries
            if not hits_family and c:
                r = prog.resolve_in_module(mod, c)
                if r in family:
                    hits_family = True
            ctx.need(hits_family, "`%s` assigns a transmission parameter of an object the analysis cannot identify" % stmt_text(n, 60))
            ctx.ob("no transmission parameter that EXCHANGE_LIFETIME is computed from is re-defined at run time on the tuning of a received message",
                   False, fo, n, detail="the value read by the filter is no longer the one of the class")
    seen = set()
    for q, f, node in origins:
        k = (q, id(node))
        if k in seen:
            continue
        seen.add(k)
        ctx.ob("a received message's tuning evaluates EXCHANGE_LIFETIME to the value of the default parameters (%s s)" % (ref if ref.denominator != 1 else int(ref)),
               values[q] == ref, f, node, construct="%s: received message carries %s" % (stmt_text(node, 60), q.split(".")[-1]),
               detail="%s.EXCHANGE_LIFETIME = %s" % (q.split(".")[-1], float(values[q])))
    ctx.note("tuning classes of received messages: %s" % ", ".join(sorted(x.split(".")[-1] for x in carried)))


F_MM = "aiocoap/messagemanager.py"
R.seed("C04.a", F_MM, "        key = (message.remote, message.mid)\n        if key in self._recent_messages:\n            if message.mtype is CON:", "        key = message.mid\n        if key in self._recent_messages:\n            if message.mtype is CON:", "keyed by mid only")
R.seed("C04.a", F_MM, "        key = (message.remote, message.mid)\n        if key in self._recent_messages:\n            self._recent_messages[key] = message", "        key = (message.mid, message.remote)\n        if key in self._recent_messages:\n            self._recent_messages[key] = message", "components swapped on one side")
R.seed("C04.b", F_MM, "        if message.code.is_request():\n            # Responses", "        if message.code.is_request() and message.mtype is CON:\n            # Responses", "NON requests not de-duplicated")
R.seed("C04.b", F_MM, "            if self._deduplicate_message(message) is True:\n                return\n", "            if self._deduplicate_message(message) is True:\n                pass\n", "no return on hit")
R.seed("C04.c", F_MM, "                    self._send_initially(self._recent_messages[key])", "                    self._send_initially(self._recent_messages[key].copy())", "re-send a copy")
R.seed("C04.c", F_MM, "                message.transport_tuning.EXCHANGE_LIFETIME,\n", "                message.transport_tuning.MAX_TRANSMIT_SPAN,\n", "wrong lifetime")
R.seed("C04.c", F_MM, "                functools.partial(self._recent_messages.pop, key),", "                functools.partial(self._recent_messages.pop, message.mid),", "expiry pops another key")
R.seed("C04.c", F_MM, "            self._recent_messages[key] = None\n            return False", "            self._recent_messages[key] = None\n            return True", "miss reported as duplicate")
R.seed("C04.c", F_MM, "            else:\n                self.log.info(\"Duplicate NON, ACK or RST received\")\n            return True", "            else:\n                self.log.info(\"Duplicate NON, ACK or RST received\")\n                self._send_initially(self._recent_messages[key])\n            return True", "NON duplicates answered")
R.seed("C04.c", F_MM, "            if message.mtype is CON:\n                if self._recent_messages[key] is not None:", "            if message.mtype is CON:\n                if True:", "re-send without stored reply")
R.seed("C04.d", F_MM, "        self._store_response_for_duplicates(message)\n\n        self._send_via_transport(message)", "        self._send_via_transport(message)", "reply never recorded")
R.seed("C04.d", F_MM, "        if key in self._recent_messages:\n            self._recent_messages[key] = message", "        if True:\n            self._recent_messages[key] = message", "entries without expiry")
R.seed("C04.e", F_MM, "        self.log.debug(\"Exchange removed, message ID: %d.\", message.mid)\n", "        self.log.debug(\"Exchange removed, message ID: %d.\", message.mid)\n        self._recent_messages.pop(key, None)\n", "foreign writer forgets the identifier early")

# seeds for the generalised (interpreted) forms of the clauses
R.seed("C04.b", F_MM, "            if self._deduplicate_message(message) is True:\n                return\n", "            if self._deduplicate_message(message) is False:\n                return\n", "verdict inverted: duplicates are processed, new requests dropped")
R.seed("C04.c", F_MM, "            self._recent_messages[key] = None\n            return False", "            if message.mtype is CON:\n                self._recent_messages[key] = None\n            return False", "NON requests are never remembered")
R.seed("C04.c", F_MM, "                functools.partial(self._recent_messages.pop, key),", "                lambda: self._recent_messages.pop(message.mid),", "expiry as a lambda that pops another key")
R.seed("C04.c", F_MM, "                    self._send_initially(self._recent_messages[key])", "                    self._send_initially(self._recent_messages.pop(key))", "the reply is forgotten with the first re-answer")
R.seed("C04.c", F_MM, "        if key in self._recent_messages:\n            if message.mtype is CON:", "        if self._recent_messages.get(key) is not None:\n            if message.mtype is CON:", "an identifier without reply yet counts as new: executed twice")
R.seed("C04.d", F_MM, "        if key in self._recent_messages:\n            self._recent_messages[key] = message", "        if key not in self._recent_messages:\n            self._recent_messages[key] = message", "membership test inverted")
R.seed("C04.e", F_MM, "        self.log.debug(\"Exchange removed, message ID: %d.\", message.mid)\n", "        self.log.debug(\"Exchange removed, message ID: %d.\", message.mid)\n        self._recent_messages = {}\n", "foreign writer re-binds the table: every identifier forgotten in bulk, whenever that function runs")
R.seed("C04.e", F_MM, "        self.log.debug(\"Exchange removed, message ID: %d.\", message.mid)\n", "        self.log.debug(\"Exchange removed, message ID: %d.\", message.mid)\n        for table in (self._recent_messages, self._active_exchanges):\n            table.pop(key, None)\n", "foreign writer reaching the table through the variable of a loop over a literal tuple of tables")
R.seed("C04.e", F_MM, "        self.log.debug(\"Exchange removed, message ID: %d.\", message.mid)\n", "        self.log.debug(\"Exchange removed, message ID: %d.\", message.mid)\n        self.loop.call_soon(lambda: self._recent_messages.pop(key, None))\n", "foreign writer hidden in a lambda")

R.seed("C04.f", "aiocoap/numbers/constants.py", "        return self.ACK_TIMEOUT\n", "        return self.EMPTY_ACK_DELAY\n", "PROCESSING_DELAY 0.1 s: EXCHANGE_LIFETIME shrinks to 245.1 s")

# third pass: the expiry key must be a value fixed when the timer is armed (C04.c), acknowledgements reach the wire
# only through the recording sender (C04.h)
R.seed("C04.c", F_MM, "                functools.partial(self._recent_messages.pop, key),", "                lambda: self._recent_messages.pop((message.remote, message.mid), None),", "expiry key read from the mutable message when the timer fires (closure)")
R.seed("C04.c", F_MM, "                functools.partial(self._recent_messages.pop, key),", "                lambda m=message: self._recent_messages.pop((m.remote, m.mid), None),", "expiry callable bound to the message object, not to its identifier")
R.seed("C04.c", F_MM, "                functools.partial(self._recent_messages.pop, key),", "                functools.partial(lambda t, m: t.pop((m.remote, m.mid)), self._recent_messages, message),", "table and message handed to the callable, key derived when it runs")
R.seed("C04.h", F_MM, "        self._send_initially(ack)\n", "        self._send_via_transport(ack)\n", "empty ACK straight to the transport: never recorded for duplicates")
R.seed("C04.h", F_MM, "        self._send_initially(ack)\n", "        self.message_interface.send(ack)\n", "empty ACK handed to the message interface directly")
R.seed("C04.h", F_MM, "        self._send_initially(ack)\n", "        self.loop.call_soon(self._send_via_transport, ack)\n", "empty ACK sent by a scheduled call of the transmission primitive")
R.seed("C04.h", F_MM, "        else:\n            self._send_initially(message, messageerror_monitor)\n\n    def _send_initially", "        elif message.mtype is CON:\n            self._send_initially(message, messageerror_monitor)\n        else:\n            self._send_via_transport(message)\n\n    def _send_initially", "only CONs go through the recording sender: piggybacked responses are not recorded")
R.seed("C04.h", F_MM, "        self._store_response_for_duplicates(message)\n\n        self._send_via_transport(message)", "        if message.mtype is CON:\n            self._store_response_for_duplicates(message)\n\n        self._send_via_transport(message)", "acknowledgements pass the sender without being offered to the recording step")

# fifth pass: the constructor hands identifiers on for every value (C04.i); the tuning of received messages has the
# lifetime of the default parameters (C04.j)
F_MSG = "aiocoap/message.py"
R.seed("C04.i", F_MSG, "        if mid is not None:\n", "        if mid:\n", "message ID 0 given through the deprecated spelling is dropped: the empty ACK for a suppressed response gets a fresh ID")
R.seed("C04.i", F_MSG, "        self.mid = _mid\n", "        self.mid = _mid or None\n", "message ID 0 never reaches the field")
R.seed("C04.j", F_MSG, "        msg.mtype = Type(mtype)\n", "        msg.mtype = Type(mtype)\n        class _Brief(TransportTuning):\n            MAX_RETRANSMIT = 0\n        msg.transport_tuning = _Brief()\n", "received messages carry a tuning whose EXCHANGE_LIFETIME is 202 s")
R.seed("C04.j", F_MSG, "        msg.mtype = Type(mtype)\n", "        msg.mtype = Type(mtype)\n        msg.transport_tuning.MAX_LATENCY = 50\n", "a parameter of the received message's tuning re-defined at run time")

# sixth pass: C04.j evaluates what the tuning classes compute, through methods with arguments, staticmethods, helper
# functions and sums (ClassEval is an evaluator, not a matcher of single-expression properties): a deviation hidden in
# such a helper is still a deviation
R.seed("C04.j", F_MSG, "        msg.mtype = Type(mtype)\n", "        msg.mtype = Type(mtype)\n        class _Brief(TransportTuning):\n            @staticmethod\n            def _span(timeout, doublings, factor):\n                return timeout * (2**doublings - 1) * factor\n            MAX_TRANSMIT_SPAN = property(lambda self: self._span(self.ACK_TIMEOUT, self.MAX_RETRANSMIT - 1, self.ACK_RANDOM_FACTOR))\n        msg.transport_tuning = _Brief()\n", "received messages carry a tuning whose span helper is called with one doubling too few: EXCHANGE_LIFETIME is 223 s")
R.seed("C04.j", F_MSG, "        msg.mtype = Type(mtype)\n", "        msg.mtype = Type(mtype)\n        class _Brief(TransportTuning):\n            @property\n            def MAX_TRANSMIT_SPAN(self):\n                return sum(self.ACK_TIMEOUT * 2**i for i in range(self.MAX_RETRANSMIT))\n        msg.transport_tuning = _Brief()\n", "received messages carry a tuning whose span is summed without the random factor: EXCHANGE_LIFETIME is 232 s")
