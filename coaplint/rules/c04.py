"""C04 Duplicate requests are executed at most once and re-answered identically."""

import ast

from ..rulekit import *
from ..norm import Normalizer, Poly

R = Rules(
    "C04",
    explanation=(
        "Structural clauses of request de-duplication decided on messagemanager.py: both sides key "
        "_recent_messages by (message.remote, message.mid); dispatch_message consults the filter exactly for "
        "request codes and returns on a hit before anything else happens; on a hit the only output is the stored "
        "reply object itself (identity, hence byte-identical) and only for CON with a stored reply; a miss records "
        "None, returns False and arms the expiry with EXCHANGE_LIFETIME of the message's tuning popping the same "
        "key; the reply is recorded (only for known keys) before it is transmitted; nobody else writes the table. "
        "Timing around the 247 s boundary and run-time equality of endpoint objects are not decided."
    ),
    rule_text="key tracing through single-assignment locals, dominance/guard rules, who-may-write over the whole package",
)

MM = "messagemanager.MessageManager."
FIELD = "self._recent_messages"


def _key_ok(fi, e, m):
    e = resolve_local(fi.node, e)
    b = match("($a, $b)", e)
    return b is not None and chain(b["a"]) == m + ".remote" and chain(b["b"]) == m + ".mid"


def _uses(fi):
    out = []
    for n in ast.walk(fi.node):
        if isinstance(n, ast.Subscript) and chain(n.value) == FIELD:
            out.append((n, n.slice))
        elif isinstance(n, ast.Call) and isinstance(n.func, ast.Attribute) and chain(n.func.value) == FIELD and n.func.attr in ("pop", "get", "setdefault") and n.args:
            out.append((n, n.args[0]))
        elif isinstance(n, ast.Compare) and len(n.ops) == 1 and isinstance(n.ops[0], (ast.In, ast.NotIn)) and chain(n.comparators[0]) == FIELD:
            out.append((n, n.left))
        elif match("functools.partial(self._recent_messages.pop, $k, $*r)", n) is not None:
            out.append((n, n.args[1]))
    return out


@R.clause("C04.a", "both de-duplication functions key _recent_messages by (message.remote, message.mid)")
def a(ctx):
    total = 0
    for name in ("_deduplicate_message", "_store_response_for_duplicates"):
        fi = ctx.prog.func(MM + name)
        m = params(fi)[0]
        uses = _uses(fi)
        ctx.floor("uses of _recent_messages in %s" % name, len(uses), 2)
        for node, key in uses:
            total += 1
            ctx.ob("%s addresses _recent_messages by (message.remote, message.mid)" % name, _key_ok(fi, key, m) and not writes_to_name(fi.node, m), fi, node,
                   detail="key = %s" % stmt_text(resolve_local(fi.node, key)))
    ctx.floor("key uses", total, 6)


@R.clause("C04.b", "dispatch_message de-duplicates exactly the requests and a hit ends processing")
def b(ctx):
    fi = ctx.prog.func(MM + "dispatch_message")
    m = params(fi)[0]
    cfg = cfg_of(fi)
    calls = list(find("self._deduplicate_message($x)", fi.node))
    ctx.floor("_deduplicate_message call sites", len(calls), 1)
    ctx.ob("exactly one de-duplication site", len(calls) == 1, fi, calls[0][0], detail="%d" % len(calls))
    call, bnd = calls[0]
    nid = cfg.loc1(call)
    ctx.ob("the incoming message is what is de-duplicated", isinstance(bnd["x"], ast.Name) and bnd["x"].id == m, fi, call)
    gs = guard_exprs(cfg, nid)
    ok = [(e, pol) for e, pol in gs if match("%s.code.is_request()" % m, e) is not None and pol]
    extra = [(e, pol) for e, pol in gs if not (match("%s.code.is_request()" % m, e) is not None and pol)]
    ctx.ob("de-duplication is applied to request codes (guard code.is_request())", bool(ok), fi, call, detail="guards: %s" % [stmt_text(e) for e, _ in gs])
    ctx.ob("every request is de-duplicated (no further condition on the filter)", not extra, fi, call, detail="extra guards: %s" % [stmt_text(e) for e, _ in extra])
    # a hit returns immediately: find the T pseudo-node of the dedup test (or F of its negation) and require
    # that no effect call is reachable from it
    hit_nodes = []
    for n in cfg.nodes:
        if n.kind in ("T", "F") and n.ast is not None and contains(n.ast, call):
            e = n.ast
            pol = n.kind == "T"
            if match("self._deduplicate_message($x) is True", e) is not None or match("self._deduplicate_message($x)", e) is not None or match("self._deduplicate_message($x) == True", e) is not None:
                if pol:
                    hit_nodes.append(n.id)
            elif match("self._deduplicate_message($x) is False", e) is not None or match("self._deduplicate_message($x) is not True", e) is not None:
                if not pol:
                    hit_nodes.append(n.id)
    ctx.need(hit_nodes, "the result of _deduplicate_message is not tested in a recognised form (is True / truthiness / is False)")
    effects = []
    for c in calls_in(fi.node):
        cn = call_name(c) or ""
        if cn.startswith("self._") and cn != "self._deduplicate_message":
            effects.append(c)
    ctx.floor("effect calls in dispatch_message", len(effects), 5)
    for h in hit_nodes:
        reach = cfg.reach({h})
        bad = [c for c in effects if set(cfg.locate(c)) & reach]
        ctx.ob("a duplicate request triggers nothing beyond the filter's own re-send (return on hit)", not bad, fi, bad[0] if bad else call,
               detail="reachable after a hit: %s" % [call_name(c) for c in bad])
    # every effect is dominated by the filter call or by not-a-request
    pr = list(find("self._process_request($x)", fi.node))
    ctx.floor("_process_request call sites", len(pr), 1)
    for c, _ in pr:
        cn = cfg.loc1(c)
        # paths on which the code is a request (the F outcomes of code.is_request() are excluded)
        not_req = {n.id for n in cfg.nodes if n.kind == "F" and match("%s.code.is_request()" % m, n.ast) is not None}
        passed = not cfg.exists_path(cfg.entry, cn, avoid={nid} | not_req)
        ctx.ob("request processing is reachable only through the de-duplication filter", passed, fi, c)


@R.clause("C04.c", "_deduplicate_message: hits return True and re-send only the stored object for CON; a miss records None, returns False and arms the expiry")
def c(ctx):
    fi = ctx.prog.func(MM + "_deduplicate_message")
    ctx.ob("_deduplicate_message is atomic (plain def without await/yield)", is_plain_sync(fi), fi, fi.node, construct="def _deduplicate_message")
    m = params(fi)[0]
    cfg = cfg_of(fi)
    rets = [n for n in walk_no_nested(fi.node) if isinstance(n, ast.Return)]
    ctx.floor("return statements", len(rets), 2)
    hit_seen = miss_seen = False
    for r in rets:
        nid = cfg.loc1(r)
        is_hit = guarded_by(cfg, nid, "$k in self._recent_messages", True)
        is_miss = guarded_by(cfg, nid, "$k in self._recent_messages", False)
        v = r.value.value if isinstance(r.value, ast.Constant) else "?"
        if is_hit:
            hit_seen = True
            ctx.ob("a known (remote, mid) reports a duplicate (returns True)", v is True, fi, r)
        elif is_miss:
            miss_seen = True
            ctx.ob("an unknown (remote, mid) is not reported as duplicate (returns False)", v is False, fi, r)
        else:
            ctx.ob("every return is decided by membership of the key in _recent_messages", False, fi, r)
    ctx.ob("both outcomes exist", hit_seen and miss_seen, fi, fi.node, construct="def _deduplicate_message")
    # falling off the end (None) is not True: require no path entry->exit without a return
    ret_nodes = [cfg.loc1(r) for r in rets]
    ctx.ob("no path leaves the filter without an explicit verdict", cfg.must_pass(cfg.entry, ret_nodes), fi, fi.node, construct="def _deduplicate_message")
    # sends
    sends = [c for c in calls_in(fi.node) if (call_name(c) or "").startswith("self._send") or (call_name(c) or "") in ("self.message_interface.send", "self.send_message")]
    ctx.floor("re-send sites in _deduplicate_message", len(sends), 1)
    for s in sends:
        nid = cfg.loc1(s)
        arg = s.args[0] if s.args else None
        stored = arg is not None and match("self._recent_messages[$k]", resolve_local(fi.node, arg)) is not None
        ctx.ob("the only thing re-sent is the stored reply object itself (byte-identical)", stored and call_name(s) == "self._send_initially", fi, s)
        ctx.ob("re-send happens only on a hit", guarded_by(cfg, nid, "$k in self._recent_messages", True), fi, s)
        alive, _ = mtype_values(guard_exprs(cfg, nid), "%s.mtype" % m, ("CON", "NON", "ACK", "RST"))
        ctx.ob("only duplicates of confirmable requests are re-answered", alive == {"CON"}, fi, s, detail="mtype in %s" % sorted(alive))
        ctx.ob("nothing is re-sent while no reply has been recorded", guarded_by(cfg, nid, "self._recent_messages[$k] is not None", True) or guarded_by(cfg, nid, "self._recent_messages[$k] is None", False), fi, s)
    # a CON duplicate with stored reply must be re-answered: exists such a send (liveness of the re-answer)
    ctx.ob("a duplicate confirmable request is answered with the recorded reply", bool(sends), fi, fi.node, construct="def _deduplicate_message")
    # miss side: store None + expiry
    stores = [(k, n) for k, n in stores_to(fi.node, FIELD) if k == "setitem"]
    ctx.floor("insertions in _deduplicate_message", len(stores), 1)
    for k, st in stores:
        nid = cfg.loc1(st)
        ctx.ob("a new (remote, mid) is recorded with no reply yet (None)", isinstance(st, ast.Assign) and isinstance(st.value, ast.Constant) and st.value.value is None, fi, st)
        ctx.ob("recording happens only on a miss", guarded_by(cfg, nid, "$k in self._recent_messages", False), fi, st)
    miss_false = [cfg.loc1(r) for r in rets if guarded_by(cfg, cfg.loc1(r), "$k in self._recent_messages", False)]
    store_nodes = [cfg.loc1(st) for _, st in stores]
    for mr in miss_false:
        ctx.ob("every miss path records the identifier before returning", any(cfg.dominates(s, mr) for s in store_nodes), fi, cfg.nodes[mr].ast)
    timers = list(find("self.loop.call_later($d, $cb, $*rest)", fi.node))
    ctx.floor("expiry timers", len(timers), 1)
    N = Normalizer(env=norm.local_env(fi.node))
    for call, bnd in timers:
        nid = cfg.loc1(call)
        ctx.ob("identifier lifetime is EXCHANGE_LIFETIME of the message's transport tuning", N.poly(bnd["d"]) == Poly.atom("%s.transport_tuning.EXCHANGE_LIFETIME" % m), fi, call, detail="delay = %s" % ast.unparse(bnd["d"]))
        cb = bnd["cb"]
        pb = match("functools.partial(self._recent_messages.pop, $k, $*r)", cb)
        if pb is None and match("self._recent_messages.pop", cb) is not None and bnd["rest"]:
            pb = {"k": bnd["rest"][0]}
        if pb is None and isinstance(cb, ast.Lambda):
            x = match("self._recent_messages.pop($k, $*r)", cb.body)
            if x:
                pb = x
        ctx.ob("the expiry forgets exactly the recorded identifier", pb is not None and _key_ok(fi, pb["k"], m), fi, call)
        ctx.ob("the expiry is armed only for new identifiers", guarded_by(cfg, nid, "$k in self._recent_messages", False), fi, call)
    for mr in miss_false:
        tn = [cfg.loc1(c) for c, _ in timers]
        ctx.ob("every miss path arms the expiry", any(cfg.dominates(t, mr) for t in tn), fi, cfg.nodes[mr].ast)


@R.clause("C04.d", "the reply is recorded for duplicates before it is transmitted, and only for known identifiers")
def d(ctx):
    fi = ctx.prog.func(MM + "_send_initially")
    m = params(fi)[0]
    cfg = cfg_of(fi)
    st = list(find("self._store_response_for_duplicates($x)", fi.node))
    tx = list(find("self._send_via_transport($x)", fi.node))
    ctx.floor("_send_via_transport call", len(tx), 1)
    for t, tb in tx:
        tn = cfg.loc1(t)
        ok = any(cfg.dominates(cfg.loc1(s), tn) and isinstance(sb["x"], ast.Name) and sb["x"].id == m and same(sb["x"], tb["x"]) for s, sb in st)
        ctx.ob("every transmission is preceded by recording the same message as possible reply to duplicates", ok and not writes_to_name(fi.node, m), fi, t)
    for s, sb in st:
        sn = cfg.loc1(s)
        gs = guard_exprs(cfg, sn)
        ctx.ob("recording is unconditional", not gs, fi, s, detail="guards: %s" % [stmt_text(e) for e, _ in gs])
    sf = ctx.prog.func(MM + "_store_response_for_duplicates")
    sm = params(sf)[0]
    scfg = cfg_of(sf)
    writes = [(k, n) for k, n in stores_to(sf.node, FIELD)]
    ctx.floor("writes in _store_response_for_duplicates", len(writes), 1)
    for k, n in writes:
        nid = scfg.loc1(n)
        ctx.ob("a reply is recorded only under an identifier that is already known (no entry without expiry)", k == "setitem" and guarded_by(scfg, nid, "$k in self._recent_messages", True), sf, n)
        ctx.ob("what is recorded is the message being sent", isinstance(n, ast.Assign) and isinstance(n.value, ast.Name) and n.value.id == sm and not writes_to_name(sf.node, sm), sf, n)
        gs = [e for e, pol in guard_exprs(scfg, nid) if match("$k in self._recent_messages", e) is None and match("$k not in self._recent_messages", e) is None]
        ctx.ob("no further condition prevents recording the reply", not gs, sf, n, detail="%s" % [stmt_text(e) for e in gs])


@R.clause("C04.e", "only the two de-duplication functions (and the scheduled expiry) write _recent_messages")
def e(ctx):
    allowed = {"messagemanager.MessageManager.__init__", "messagemanager.MessageManager._deduplicate_message", "messagemanager.MessageManager._store_response_for_duplicates"}
    w = field_writers(ctx.prog, "_recent_messages")
    n = sum(len(v) for v in w.values())
    ctx.floor("write sites of _recent_messages in the package", n, 4)
    for fn, hits in sorted(w.items()):
        for kind, node in hits:
            fi = ctx.prog.funcs["aiocoap." + fn]
            ctx.ob("writer of _recent_messages is one of the de-duplication functions", fn in allowed, fi, node, detail="%s in %s" % (kind, fn))
    # positive control for the zero-instance side of the rule
    ctl = ast.parse("def f(self):\n    self._recent_messages.clear()\n").body[0]
    ctx.need(len(stores_to_any(ctl, "_recent_messages")) == 1, "positive control for the writer scan failed")


@R.clause("C04.f", "identifiers are remembered for EXCHANGE_LIFETIME as RFC 7252 defines it: the derived spans equal the section 4.8.2 formulas (shared with C03.g)")
def f_shared(ctx):
    from . import c03
    c03.g(ctx)


@R.clause("C04.g", "the reply recorded for duplicates is an object of its own: the fallback 5.00 is built afresh for every failing request (shared with C09.a)")
def g_shared(ctx):
    """The value stored in _recent_messages is the very Message object that was sent; token, remote, type and message
    ID are written into it in place.  An independently written breaking change made error_to_message hand out one
    cached Message for every non-renderable failure, so the stored reply of an earlier request silently became the
    reply to a later one.  The obligations are those of C09.a (each failure path builds its own bare 5.00)."""
    from . import c09
    c09.a(ctx)


F_MM = "aiocoap/messagemanager.py"
R.seed("C04.a", F_MM, "        key = (message.remote, message.mid)\n        if key in self._recent_messages:\n            if message.mtype is CON:", "        key = message.mid\n        if key in self._recent_messages:\n            if message.mtype is CON:", "keyed by mid only")
R.seed("C04.a", F_MM, "        key = (message.remote, message.mid)\n        if key in self._recent_messages:\n            self._recent_messages[key] = message", "        key = (message.mid, message.remote)\n        if key in self._recent_messages:\n            self._recent_messages[key] = message", "components swapped on one side")
R.seed("C04.b", F_MM, "        if message.code.is_request():\n            # Responses", "        if message.code.is_request() and message.mtype is CON:\n            # Responses", "NON requests not de-duplicated")
R.seed("C04.b", F_MM, "            if self._deduplicate_message(message) is True:\n                return\n", "            if self._deduplicate_message(message) is True:\n                pass\n", "no return on hit")
R.seed("C04.c", F_MM, "                    self._send_initially(self._recent_messages[key])", "                    self._send_initially(self._recent_messages[key].copy())", "re-send a copy")
R.seed("C04.c", F_MM, "                message.transport_tuning.EXCHANGE_LIFETIME,\n", "                message.transport_tuning.MAX_TRANSMIT_SPAN,\n", "wrong lifetime")
R.seed("C04.c", F_MM, "                functools.partial(self._recent_messages.pop, key),", "                functools.partial(self._recent_messages.pop, message.mid),", "expiry pops another key")
R.seed("C04.c", F_MM, "            self._recent_messages[key] = None\n            return False", "            self._recent_messages[key] = None\n            return True", "miss reported as duplicate")
R.seed("C04.c", F_MM, "            else:\n                self.log.info(\"Duplicate NON, ACK or RST received\")\n            return True", "            else:\n                self.log.info(\"Duplicate NON, ACK or RST received\")\n                self._send_initially(self._recent_messages[key])\n            return True", "NON duplicates answered")
R.seed("C04.c", F_MM, "            if message.mtype is CON:\n                if self._recent_messages[key] is not None:", "            if message.mtype is CON:\n                if True:", "re-send without stored reply")
R.seed("C04.d", F_MM, "        self._store_response_for_duplicates(message)\n\n        self._send_via_transport(message)", "        self._send_via_transport(message)", "reply never recorded")
R.seed("C04.d", F_MM, "        if key in self._recent_messages:\n            self._recent_messages[key] = message", "        if True:\n            self._recent_messages[key] = message", "entries without expiry")
R.seed("C04.e", F_MM, "        self.log.debug(\"Exchange removed, message ID: %d.\", message.mid)\n", "        self.log.debug(\"Exchange removed, message ID: %d.\", message.mid)\n        self._recent_messages.pop(key, None)\n", "foreign writer forgets the identifier early")

R.seed("C04.f", "aiocoap/numbers/constants.py", "        return self.ACK_TIMEOUT\n", "        return self.EMPTY_ACK_DELAY\n", "PROCESSING_DELAY 0.1 s: EXCHANGE_LIFETIME shrinks to 245.1 s")
