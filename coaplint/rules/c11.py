"""C11 OSCORE protection: structural clauses decided on the syntax tree of oscore.py."""

import ast

from ..rulekit import *
from ..norm import Normalizer, Poly
from ..exc import EscapeAnalysis

R = Rules(
    "C11",
    explanation=(
        "Structural clauses of OSCORE (RFC 8613) protection decided on the syntax trees of aiocoap/oscore.py "
        "(the module cannot be imported here: cbor2/cryptography are absent).  C11.a: reaching definitions of "
        "every value stored into the outer message (constructor keywords in _split_message, later attribute "
        "stores and mutating calls in _split_message/protect) are enumerated and compared with an allow-list of "
        "sources (fixed outer codes, Uri-Host, Observe, the origin of the Proxy-Uri, _compress output whose "
        "third argument is the result of alg_symmetric.encrypt, the encrypted signature, direction and transport "
        "tuning); nothing derived from the plaintext or from other parts of the inner message reaches an outer "
        "store except through encrypt.  C11.b: the external AAD array carries request_id.kid/partial_iv, the "
        "nonce inputs of a response without PIV are the request's, a reused nonce comes from "
        "get_reusable_kid_and_piv which clears the reuse flag.  C11.c: the nonce layout extracted from "
        "_construct_nonce equals RFC 8613 section 5.2.  C11.d: the writer layout of _compress, the reader "
        "layout of _uncompress and the RFC 8613 section 6.1 table agree; reserved bits are refused.  C11.e: the "
        "exception-escape set of _extract_encrypted0/_uncompress and of the raising sites of unprotect before "
        "decryption is inside ProtectionInvalid + NotAProtectedMessage.  C11.f: KID / KID-context comparison and "
        "the length check dominate decrypt, decrypt failures always propagate, every return is dominated by "
        "decrypt.  C11.g: every AEAD wrapper maps InvalidTag to ProtectionInvalid.  Not decided: cryptographic "
        "strength, value-level equality of the round trip, implicit flows through branch conditions, callees of "
        "unprotect other than _extract_encrypted0 (their escape sets are listed as notes only), the "
        "deterministic-request override of _get_sender_key."
    ),
    rule_text="reaching definitions / source allow-lists on per-function CFGs, dominance and must-not-reach-exit rules, "
              "exception-escape sets, layout normal forms compared with RFC 8613 reference tables, class-hierarchy facts",
)

CP = "oscore.CanProtect."
CU = "oscore.CanUnprotect."
BS = "oscore.BaseSecurityContext."
PI = "aiocoap.oscore.ProtectionInvalid"
NAPM = "aiocoap.oscore.NotAProtectedMessage"
MSGCLS = "aiocoap.message.Message"


# ---------------------------------------------------------------------------
# E7 (local to this module): reaching definitions over the engine's CFG and
# source tracing.  A *leaf* is (root, path, primary):
#   root    ('param', name) | ('self',) | ('const', repr) | ('global', qualified name) | ('exc',) | ('opaque', text)
#   path    attribute / call / index suffixes applied to the root, e.g. '.copy().remote.uri_base'
#   primary True when the leaf denotes (a part of) the value itself, False when it is an ingredient that went
#           through a call as an argument or was stored into the object (weak update).
# Branch conditions are not sources (implicit flows are not decided).


class Def:
    __slots__ = ("name", "nid", "stmt", "value", "index", "kind")

    def __init__(self, name, nid, stmt, value, index, kind):
        self.name, self.nid, self.stmt, self.value, self.index, self.kind = name, nid, stmt, value, index, kind

    def key(self):
        return (self.name, id(self.stmt), self.index)


class Flow:
    def __init__(self, prog, fi, sanitisers=(), opaque_self_calls=()):
        self.prog = prog
        self.fi = fi
        self.cfg = cfg_of(fi)
        self.sanitisers = set(sanitisers)
        self.opaque_self_calls = set(opaque_self_calls)
        self.defs = []
        self.at = {}
        self.stores = []  # (rootname, path, value or call, nid, stmt, kind)
        a = fi.node.args
        self.params_all = [x.arg for x in a.posonlyargs + a.args + a.kwonlyargs]
        if a.vararg:
            self.params_all.append(a.vararg.arg)
        if a.kwarg:
            self.params_all.append(a.kwarg.arg)
        deco = [ast.unparse(d) for d in getattr(fi.node, "decorator_list", [])]
        self.selfname = None
        if fi.cls is not None and "staticmethod" not in deco and self.params_all:
            self.selfname = self.params_all[0]
        self._collect()
        self._solve()

    # -- definitions ------------------------------------------------------
    def _add(self, name, nid, stmt, value, index, kind):
        self.defs.append(Def(name, nid, stmt, value, index, kind))
        self.at.setdefault(nid, []).append(len(self.defs) - 1)

    def _bind(self, tgt, value, nid, stmt, idx, kind):
        if isinstance(tgt, ast.Name):
            self._add(tgt.id, nid, stmt, value, idx if idx else None, ("unpack" if idx and kind == "assign" else kind))
        elif isinstance(tgt, (ast.Tuple, ast.List)):
            for i, el in enumerate(tgt.elts):
                if isinstance(el, ast.Starred):
                    self._bind(el.value, value, nid, stmt, idx + ("*",), "other")
                else:
                    self._bind(el, value, nid, stmt, idx + (i,), kind)
        elif isinstance(tgt, (ast.Attribute, ast.Subscript)):
            root, path = _root_path(tgt)
            if root is not None:
                self.stores.append((root, path, value, nid, stmt, "store"))

    def _collect(self):
        cfg = self.cfg
        for p in self.params_all:
            self._add(p, cfg.entry, None, None, None, "param")
        for n in cfg.nodes:
            st = n.ast
            if st is None:
                continue
            if n.kind == "stmt":
                if isinstance(st, ast.Assign):
                    for t in st.targets:
                        self._bind(t, st.value, n.id, st, (), "assign")
                elif isinstance(st, ast.AugAssign):
                    if isinstance(st.target, ast.Name):
                        self._add(st.target.id, n.id, st, st.value, None, "aug")
                    else:
                        self._bind(st.target, st.value, n.id, st, (), "assign")
                elif isinstance(st, ast.AnnAssign) and st.value is not None:
                    self._bind(st.target, st.value, n.id, st, (), "assign")
                elif isinstance(st, (ast.FunctionDef, ast.AsyncFunctionDef, ast.ClassDef)):
                    self._add(st.name, n.id, st, None, None, "other")
                elif isinstance(st, ast.Expr) and isinstance(st.value, ast.Call) and isinstance(st.value.func, ast.Attribute):
                    root, path = _root_path(st.value.func)
                    if root is not None:
                        self.stores.append((root, path + "()", st.value, n.id, st, "call"))
            elif n.kind == "for":
                self._bind(st.target, st.iter, n.id, st, (), "for")
            elif n.kind == "with":
                for it in st.items:
                    if it.optional_vars is not None:
                        self._bind(it.optional_vars, it.context_expr, n.id, st, (), "with")
            elif n.kind == "handler":
                if st.name:
                    self._add(st.name, n.id, st, None, None, "handler")
            if n.kind in ("stmt", "test", "return", "raise"):
                for x in walk_no_nested(st):
                    if isinstance(x, ast.NamedExpr) and isinstance(x.target, ast.Name):
                        self._add(x.target.id, n.id, x, x.value, None, "assign")

    def _solve(self):
        cfg = self.cfg
        ids = [n.id for n in cfg.nodes]
        self.IN = {i: frozenset() for i in ids}
        self.OUT = {i: frozenset() for i in ids}
        names_at = {i: {self.defs[d].name for d in self.at.get(i, [])} for i in ids}
        work = list(ids)
        while work:
            n = work.pop(0)
            acc = set()
            for p, lab in cfg.pred[n]:
                acc |= self.OUT[p]
                if lab == "exc":
                    acc |= self.IN[p]
            inn = frozenset(acc)
            gen = self.at.get(n, [])
            out = frozenset(set(gen) | {d for d in inn if self.defs[d].name not in names_at[n]})
            if inn != self.IN[n] or out != self.OUT[n]:
                self.IN[n], self.OUT[n] = inn, out
                for s, _ in cfg.succ[n]:
                    if s not in work:
                        work.append(s)

    def reaching(self, name, nid):
        return [self.defs[d] for d in sorted(self.IN[nid]) if self.defs[d].name == name]

    def node_of(self, astnode):
        return self.cfg.loc1(astnode)

    # -- sources ------------------------------------------------------------
    @staticmethod
    def _ext(leaf, suffix):
        return (leaf[0], leaf[1] + suffix, True) if leaf[2] else leaf

    @staticmethod
    def _demote(leaves):
        return {(l[0], l[1], False) for l in leaves}

    def src(self, e, nid=None):
        if nid is None:
            nid = self.node_of(e)
        return frozenset(self._src(e, nid, ()))

    def _src(self, e, nid, stack):
        if e is None:
            return set()
        if isinstance(e, ast.Constant):
            return {(("const", repr(e.value)), "", True)}
        if isinstance(e, ast.Name):
            return self._src_name(e.id, nid, stack)
        if isinstance(e, ast.Attribute):
            return {self._ext(l, "." + e.attr) for l in self._src(e.value, nid, stack)}
        if isinstance(e, ast.Subscript):
            if isinstance(e.slice, ast.Constant):
                return {self._ext(l, "[%r]" % (e.slice.value,)) for l in self._src(e.value, nid, stack)}
            out = {self._ext(l, "[]") for l in self._src(e.value, nid, stack)}
            return out | self._demote(self._src(e.slice, nid, stack))
        if isinstance(e, ast.Slice):
            out = set()
            for x in (e.lower, e.upper, e.step):
                out |= self._src(x, nid, stack)
            return out
        if isinstance(e, ast.IfExp):
            return self._src(e.body, nid, stack) | self._src(e.orelse, nid, stack)
        if isinstance(e, ast.Call):
            return self._src_call(e, nid, stack)
        if isinstance(e, ast.Starred):
            return self._src(e.value, nid, stack)
        if isinstance(e, ast.Dict):
            out = set()
            for k in e.keys:
                out |= self._demote(self._src(k, nid, stack))
            for v in e.values:
                out |= self._src(v, nid, stack)
            return out
        if isinstance(e, ast.Lambda):
            return {(("opaque", "lambda"), "", True)}
        if isinstance(e, (ast.ListComp, ast.SetComp, ast.GeneratorExp, ast.DictComp)):
            out = set()
            for g in e.generators:
                out |= self._demote(self._src(g.iter, nid, stack))
            for x in ([e.key, e.value] if isinstance(e, ast.DictComp) else [e.elt]):
                out |= self._src(x, nid, stack)
            return out
        out = set()
        for c in ast.iter_child_nodes(e):
            if isinstance(c, ast.expr):
                out |= self._src(c, nid, stack)
        return out

    def _src_name(self, name, nid, stack):
        if self.selfname is not None and name == self.selfname:
            return {(("self",), "", True)}
        defs = self.reaching(name, nid)
        if not defs:
            return {(("global", self.prog.resolve_in_module(self.fi.module, name)), "", True)}
        out = set()
        for d in defs:
            k = d.key()
            if k in stack:
                continue
            out |= self._src_def(d, stack + (k,))
        for root, path, val, snid, stmt, kind in self.stores:
            if root != name:
                continue
            k = ("store", id(stmt))
            if k in stack:
                continue
            st2 = stack + (k,)
            if kind == "call":
                for a in list(val.args) + [kw.value for kw in val.keywords]:
                    out |= self._demote(self._src(a, snid, st2))
            else:
                out |= self._demote(self._src(val, snid, st2))
        return out

    def _src_def(self, d, stack):
        if d.kind == "param":
            return {(("param", d.name), "", True)}
        if d.kind == "handler":
            return {(("exc",), "", True)}
        if d.kind == "other" or d.value is None:
            return {(("opaque", d.name), "", True)}
        if d.kind == "assign":
            return self._src(d.value, d.nid, stack)
        if d.kind == "unpack":
            v = d.value
            idx = list(d.index)
            while (idx and isinstance(v, (ast.Tuple, ast.List)) and isinstance(idx[0], int) and idx[0] < len(v.elts)
                   and not any(isinstance(x, ast.Starred) for x in v.elts)):
                v = v.elts[idx.pop(0)]
            suffix = "".join("[%r]" % (j,) for j in idx)
            return {self._ext(l, suffix) for l in self._src(v, d.nid, stack)}
        if d.kind == "aug":
            return self._src(d.value, d.nid, stack) | self._src_name(d.name, d.nid, stack)
        if d.kind == "for":
            return {self._ext(l, "[]") for l in self._src(d.value, d.nid, stack)}
        if d.kind == "with":
            return {self._ext(l, ".__enter__()") for l in self._src(d.value, d.nid, stack)}
        return {(("opaque", d.name), "", True)}

    def _src_call(self, e, nid, stack):
        f = e.func
        if isinstance(f, ast.Attribute):
            recv = self._src(f.value, nid, stack)
            res = {self._ext(l, "." + f.attr + "()") for l in recv}
            if f.attr in self.sanitisers:
                return {l for l in res if l[2]} or {(("opaque", "sanitised"), "", True)}
            if self.selfname is not None and chain(f.value) == self.selfname and f.attr in self.opaque_self_calls:
                return {l for l in res if l[2]}
        else:
            res = {self._ext(l, "()") for l in self._src(f, nid, stack)}
        argl = set()
        for a in list(e.args) + [kw.value for kw in e.keywords]:
            argl |= self._demote(self._src(a, nid, stack))
        return res | argl

    # -- terminals: follow plain copies and conditional expressions -------
    def terminals(self, e, nid=None, conds=None, stack=()):
        """[(expr or Def, nid, conds)] where conds are the branch outcomes under which that
        definition is the one flowing in (CFG guards of the defining statement, arms of IfExp)."""
        if nid is None:
            nid = self.node_of(e)
        if conds is None:
            conds = tuple(guard_exprs(self.cfg, nid))
        if isinstance(e, ast.IfExp):
            return (self.terminals(e.body, nid, conds + ((e.test, True),), stack)
                    + self.terminals(e.orelse, nid, conds + ((e.test, False),), stack))
        if isinstance(e, ast.Name) and e.id != self.selfname:
            defs = self.reaching(e.id, nid)
            if defs:
                out = []
                for d in defs:
                    if d.key() in stack:
                        continue
                    c2 = conds + tuple(guard_exprs(self.cfg, d.nid))
                    if d.kind == "assign":
                        out += self.terminals(d.value, d.nid, c2, stack + (d.key(),))
                    else:
                        out.append((d, d.nid, c2))
                return out
        return [(e, nid, conds)]


def _root_path(e):
    """('name', '.a.b[]') for an attribute / subscript chain rooted at a Name."""
    parts = []
    while True:
        if isinstance(e, ast.Attribute):
            parts.append("." + e.attr)
            e = e.value
        elif isinstance(e, ast.Subscript):
            parts.append("[]")
            e = e.value
        else:
            break
    if isinstance(e, ast.Name):
        return e.id, "".join(reversed(parts))
    return None, None


def _neg(e):
    if isinstance(e, ast.Compare) and len(e.ops) == 1:
        flip = {ast.Is: ast.IsNot, ast.IsNot: ast.Is, ast.Eq: ast.NotEq, ast.NotEq: ast.Eq, ast.In: ast.NotIn, ast.NotIn: ast.In,
                ast.Lt: ast.GtE, ast.GtE: ast.Lt, ast.Gt: ast.LtE, ast.LtE: ast.Gt}
        t = type(e.ops[0])
        if t in flip:
            return ast.Compare(left=e.left, ops=[flip[t]()], comparators=e.comparators)
    return None


def cond_has(fnode, conds, pattern, pol, bindings=None):
    """Does the condition list contain `pattern` with polarity `pol` (negated spellings and
    single-assignment locals used as tests are looked through)?"""
    for t, p in conds:
        for tt in (t, resolve_local(fnode, t)):
            while isinstance(tt, ast.UnaryOp) and isinstance(tt.op, ast.Not):
                tt, p = tt.operand, not p
            b = match(pattern, tt, bindings)
            if b is not None and p == pol:
                return b
            nt = _neg(tt)
            if nt is not None:
                b = match(pattern, nt, bindings)
                if b is not None and p == (not pol):
                    return b
    return None


def is_request_cond(fnode, conds, m):
    """True: conds say message `m` is a request; False: a response; None: unknown."""
    if cond_has(fnode, conds, "%s.code.is_request()" % m, True) is not None or cond_has(fnode, conds, "%s.code.is_response()" % m, False) is not None:
        return True
    if cond_has(fnode, conds, "%s.code.is_request()" % m, False) is not None or cond_has(fnode, conds, "%s.code.is_response()" % m, True) is not None:
        return False
    return None


def fmt_leaves(ls):
    def one(l):
        r = l[0]
        head = {"param": lambda: "<%s>" % r[1], "self": lambda: "self", "const": lambda: r[1], "global": lambda: r[1].replace("aiocoap.", ""),
                "exc": lambda: "<exc>", "opaque": lambda: "?" + r[1]}[r[0]]()
        return head + l[1] + ("" if l[2] else "~")
    return ", ".join(sorted(one(l) for l in ls))


def qn(prog, fi, e):
    c = chain(e)
    return prog.resolve_in_module(fi.module, c) if c else None


def module_int_consts(prog, modshort):
    env = {}
    for st in prog.module(modshort).tree.body:
        if isinstance(st, ast.Assign) and len(st.targets) == 1 and isinstance(st.targets[0], ast.Name):
            try:
                v = norm.consteval(st.value, env)
            except norm.NormError:
                continue
            if isinstance(v, int) and not isinstance(v, bool):
                env[st.targets[0].id] = v
    return env


def stmt_of(fi, node):
    return cfg_of(fi).nodes[cfg_of(fi).loc1(node)].ast


# ---------------------------------------------------------------------------
# C11.a

OUTER_KW = {
    # keyword of the outer Message(...) -> allowed sources (root kind, qualified/positional name, path)
    "code": {("global", "aiocoap.numbers.codes.POST", ""), ("global", "aiocoap.numbers.codes.FETCH", ""), ("param", 1, ".code_style.response")},
    "uri_host": {("const", "None", ""), ("param", 0, ".opt.uri_host")},
    "observe": {("const", "None", ""), ("param", 0, ".opt.observe")},
}
OUTER_STORES = {
    # attribute path stored on the outer message -> allowed primary sources
    ".direction": {("global", "aiocoap.message.Direction", ".OUTGOING")},
    ".transport_tuning": {("param", 0, ".transport_tuning")},
    ".opt.oscore": {("self", None, "._compress()[0]")},
    ".payload": {("self", None, "._compress()[1]"), ("global", "aiocoap.oscore._xor_bytes", "()")},
}
# parts of the plain message that are not message content (local configuration)
MESSAGE_UNTAINTED_PATHS = {".transport_tuning", ".direction"}
ENCRYPT_PATHS = {".alg_aead.encrypt()", ".alg_group_enc.encrypt()"}
REF_CODESTYLE = {"FETCH": "CONTENT", "POST": "CHANGED"}  # RFC 8613 section 4.2 / A.11


def _canon(leaf, pnames):
    """Leaf -> (kind, name-or-position, path) comparable with the allow-lists."""
    r, p, _ = leaf
    if r[0] == "param":
        return ("param", pnames.index(r[1]) if r[1] in pnames else r[1], p)
    if r[0] == "self":
        return ("self", None, p)
    return (r[0], r[1] if len(r) > 1 else None, p)


def _tainted(leaf, msg):
    r, p, _ = leaf
    if r == ("param", msg):
        return p not in MESSAGE_UNTAINTED_PATHS
    if r == ("self",) and p.startswith("._split_message()[1]"):
        return True
    return False


def _prim(ls):
    return {l for l in ls if l[2]}


def _outer_uses(fl, is_outer_leaf):
    """All attribute stores and calls through a name that denotes the outer message."""
    fi = fl.fi
    def is_outer(name, nid):
        pl = _prim(fl.src(ast.Name(id=name, ctx=ast.Load()), nid))
        return bool(pl) and all(is_outer_leaf(l) for l in pl)
    stores, calls, passed = [], [], []
    for root, path, val, nid, stmt, kind in fl.stores:
        if kind == "store" and is_outer(root, nid):
            stores.append((path, val, nid, stmt))
    for c in walk_no_nested(fi.node):
        if not isinstance(c, ast.Call):
            continue
        locs = fl.cfg.locate(c)
        if not locs:
            continue
        nid = locs[0]
        if isinstance(c.func, ast.Attribute):
            root, path = _root_path(c.func)
            if root is not None and root != fl.selfname and fl.reaching(root, nid) and is_outer(root, nid):
                calls.append((path + "()", c, nid))
                continue
        for i, a in enumerate(c.args):
            if isinstance(a, ast.Name) and fl.reaching(a.id, nid) and is_outer(a.id, nid):
                passed.append((c, i, nid))
        for kw in c.keywords:
            if isinstance(kw.value, ast.Name) and fl.reaching(kw.value.id, nid) and is_outer(kw.value.id, nid):
                passed.append((c, kw.arg, nid))
    return stores, calls, passed


def _check_store(ctx, fl, fi, pn, msg, path, val, nid, stmt):
    leaves = fl.src(val, nid)
    allow = OUTER_STORES.get(path)
    if allow is None:
        ctx.ob("only oscore option, payload, direction and transport tuning are stored on the outer message", False, fi, stmt,
               detail="store to <outer>%s from %s" % (path, fmt_leaves(leaves)))
        return
    bad = [l for l in _prim(leaves) if _canon(l, pn) not in allow]
    ctx.ob("value stored to <outer>%s comes from its allowed source" % path, not bad, fi, stmt, detail="sources: %s" % fmt_leaves(_prim(leaves)))
    t = [l for l in leaves if _tainted(l, msg)]
    ctx.ob("nothing derived from the plaintext or the inner message reaches <outer>%s except through encrypt" % path, not t, fi, stmt,
           detail=("tainted sources: %s" % fmt_leaves(t)) if t else None)


@R.clause("C11.a", "only ciphertext, routing data and fixed codes reach the outer message; the inner copy has the routing options cleared; CodeStyle table")
def a(ctx):
    prog = ctx.prog
    # ---- _split_message --------------------------------------------------
    fi = prog.func(CP + "_split_message")
    pn = params(fi)
    ctx.need(len(pn) == 2, "_split_message signature changed")
    msg, rid = pn
    fl = Flow(prog, fi)
    cfg = fl.cfg
    ctors = [c for c in walk_no_nested(fi.node) if isinstance(c, ast.Call) and qn(prog, fi, c.func) == MSGCLS]
    ctx.floor("Message(...) constructions in _split_message", len(ctors), 1)
    def is_ctor_leaf(l):
        return l[0] == ("global", MSGCLS) and l[1] == "()"
    rets = [n for n in walk_no_nested(fi.node) if isinstance(n, ast.Return)]
    ctx.floor("return statements of _split_message", len(rets), 1)
    for r in rets:
        ok = isinstance(r.value, ast.Tuple) and len(r.value.elts) == 2
        ctx.need(ok, "_split_message does not return a pair")
        pl = _prim(fl.src(r.value.elts[0], fl.node_of(r)))
        ctx.ob("the first component returned by _split_message is the freshly constructed outer Message", bool(pl) and all(is_ctor_leaf(l) for l in pl), fi, r,
               detail="sources: %s" % fmt_leaves(pl))
        inner = fl.src(r.value.elts[1], fl.node_of(r))
        bad = [l for l in inner if not (l[0][0] in ("const", "global") or (l[0] == ("param", msg) and (l[1].startswith(".copy()") or l[1] == ".code"
                                                                                                    or (not l[2] and l[1] == ".opt.proxy_uri"))))]
        ctx.ob("the plaintext is built only from the cleared copy of the message", not bad and any(l[0] == ("param", msg) for l in inner), fi, r,
               detail="sources: %s" % fmt_leaves(inner))
    seen_codes = set()
    for c in ctors:
        nid = fl.node_of(c)
        extra = [kw.arg or "**" for kw in c.keywords if kw.arg not in OUTER_KW]
        ctx.ob("the outer Message is constructed from code, uri_host and observe only", not c.args and not extra, fi, c,
               detail="extra arguments: %s" % ", ".join(extra + ["positional"] * len(c.args)))
        for kw in c.keywords:
            if kw.arg not in OUTER_KW:
                continue
            leaves = fl.src(kw.value, nid)
            bad = [l for l in leaves if _canon(l, pn) not in OUTER_KW[kw.arg]]
            ctx.ob("outer %s comes only from its allowed sources" % kw.arg, not bad, fi, c, detail="sources: %s" % fmt_leaves(leaves),
                   construct="Message(%s=%s)" % (kw.arg, stmt_text(kw.value, 80)))
            if kw.arg == "code":
                for t, tn, conds in fl.terminals(kw.value, nid):
                    q = qn(prog, fi, t) if isinstance(t, ast.AST) else None
                    if q == "aiocoap.numbers.codes.POST":
                        seen_codes.add("POST")
                        okc = is_request_cond(fi.node, conds, msg) is True and cond_has(fi.node, conds, "%s.opt.observe is None" % msg, True) is not None
                        ctx.ob("outer code POST is chosen exactly for requests without Observe", okc, fi, t)
                    elif q == "aiocoap.numbers.codes.FETCH":
                        seen_codes.add("FETCH")
                        okc = is_request_cond(fi.node, conds, msg) is True and cond_has(fi.node, conds, "%s.opt.observe is None" % msg, False) is not None
                        ctx.ob("outer code FETCH is chosen exactly for requests with Observe", okc, fi, t)
                    elif isinstance(t, ast.AST) and chain(t) == "%s.code_style.response" % rid:
                        seen_codes.add("RESP")
                        ctx.ob("the outer response code is the request's code style and is used only for responses", is_request_cond(fi.node, conds, msg) is False, fi, t)
    ctx.ob("outer codes POST, FETCH and the request's response style are all present", seen_codes == {"POST", "FETCH", "RESP"}, fi, ctors[0],
           detail="found %s" % sorted(seen_codes), construct="outer code table")
    stores, calls, passed = _outer_uses(fl, is_ctor_leaf)
    for path, val, nid, stmt in stores:
        _check_store(ctx, fl, fi, pn, msg, path, val, nid, stmt)
    for path, c, nid in calls:
        args = list(c.args) + [kw.value for kw in c.keywords]
        if not args:
            continue
        if path == ".set_request_uri()" and len(c.args) == 1 and not c.keywords:
            leaves = fl.src(c.args[0], nid)
            okp = _prim(leaves) and all(_canon(l, pn) == ("param", 0, ".copy().remote.uri_base") for l in _prim(leaves))
            oks = all(l[0][0] in ("const", "global") or _canon(l, pn) in (("param", 0, ".opt.proxy_uri"), ("param", 0, ".copy().remote.uri_base")) for l in leaves)
            ctx.ob("on the proxy arm the outer URI is the origin (uri_base) of the split Proxy-Uri and nothing else", bool(okp and oks), fi, c,
                   detail="sources: %s" % fmt_leaves(leaves))
        else:
            ctx.ob("no other mutating call is made on the outer message", False, fi, c, detail="<outer>%s with arguments" % path)
    for c, i, nid in passed:
        if c in ctors:
            continue
        ctx.ob("the outer message is not handed to other code inside _split_message", is_log_call(c), fi, c)
    # ---- the inner copy ---------------------------------------------------
    copies = [c for c in walk_no_nested(fi.node) if isinstance(c, ast.Call) and isinstance(c.func, ast.Attribute) and c.func.attr == "copy" and chain(c.func.value) == msg]
    ctx.floor("message.copy(...) sites in _split_message", len(copies), 2)
    nreq = 0
    for c in copies:
        req = is_request_cond(fi.node, tuple(guard_exprs(cfg, fl.node_of(c))), msg)
        if req is False:
            continue
        nreq += 1
        cleared = {kw.arg for kw in c.keywords if isinstance(kw.value, ast.Constant) and kw.value.value is None}
        want = {"uri_host", "uri_port", "proxy_uri", "proxy_scheme"}
        ctx.ob("the inner copy of a request has Uri-Host, Uri-Port, Proxy-Uri and Proxy-Scheme cleared", want <= cleared, fi, c,
               detail="cleared: %s" % sorted(cleared))
    ctx.floor("request-arm copies", nreq, 1)

    # ---- protect ------------------------------------------------------------
    fi = prog.func(CP + "protect")
    pn = params(fi)
    ctx.need(len(pn) >= 2, "protect signature changed")
    msg = pn[0]
    fl = Flow(prog, fi, sanitisers={"encrypt"}, opaque_self_calls={"_split_message"})
    def is_split0(l):
        return l[0] == ("self",) and l[1] == "._split_message()[0]"
    splits = list(find("self._split_message($*a)", fi.node))
    ctx.floor("_split_message calls in protect", len(splits), 1)
    for c, b in splits:
        ok = len(b["a"]) == 2 and all(isinstance(x, ast.Name) for x in b["a"]) and [x.id for x in b["a"]] == pn[:2] and not writes_to_name(fi.node, pn[0])
        ctx.ob("protect splits the message it was given", ok, fi, c)
    stores, calls, passed = _outer_uses(fl, is_split0)
    ctx.floor("stores to the outer message in protect", len(stores), 4)
    seen = set()
    for path, val, nid, stmt in stores:
        seen.add(path)
        _check_store(ctx, fl, fi, pn, msg, path, val, nid, stmt)
    ctx.ob("protect stores the OSCORE option and the payload on the outer message", {".opt.oscore", ".payload"} <= seen, fi, fi.node,
           construct="outer stores of protect", detail="stored: %s" % sorted(seen))
    for path, c, nid in calls:
        if list(c.args) or c.keywords:
            ctx.ob("no mutating call is made on the outer message in protect", False, fi, c, detail="<outer>%s with arguments" % path)
    for c, i, nid in passed:
        if is_log_call(c):
            continue
        tgt = None
        if isinstance(c.func, ast.Attribute) and chain(c.func.value) == fl.selfname:
            tgt = prog.lookup_method(fi.cls.qn, c.func.attr)
        elif qn(prog, fi, c.func) in prog.classes:
            m = prog.lookup_method(qn(prog, fi, c.func), "__init__")
            tgt = m
        if tgt is None:
            ctx.ob("the outer message is only handed to methods of the context that can be inspected", False, fi, c)
            continue
        tp = params(tgt)
        pname = tp[i] if isinstance(i, int) and i < len(tp) else (i if i in tp else None)
        ctx.need(pname is not None, "cannot bind the outer message to a parameter of %s" % tgt.short)
        tfl = Flow(prog, tgt)
        mod = [s for s in tfl.stores if s[0] == pname and (s[5] == "store" or list(s[2].args) or s[2].keywords)]
        ctx.ob("%s (default implementation) does not modify the outer message" % tgt.short, not mod, tgt, mod[0][4] if mod else tgt.node,
               construct=stmt_text(mod[0][4]) if mod else "%s(%s)" % (tgt.short, pname))
    comp = list(find("self._compress($*a)", fi.node))
    ctx.floor("_compress calls in protect", len(comp), 1)
    n_enc = 0
    for c, b in comp:
        ctx.need(len(b["a"]) == 3 and not c.keywords, "_compress call with unexpected arity")
        pl = _prim(fl.src(b["a"][2], fl.node_of(c)))
        ok = bool(pl) and all(l[0][0] == "const" or (l[0] == ("self",) and l[1] in ENCRYPT_PATHS) for l in pl)
        n_enc += any(l[0] == ("self",) and l[1] in ENCRYPT_PATHS for l in pl)
        ctx.ob("the body handed to _compress is the output of the context's encryption algorithm", ok, fi, c, detail="sources: %s" % fmt_leaves(pl))
    ctx.ob("some _compress call carries the ciphertext", n_enc >= 1, fi, comp[0][0], construct="ciphertext into _compress")
    for r in [n for n in walk_no_nested(fi.node) if isinstance(n, ast.Return)]:
        ok = isinstance(r.value, ast.Tuple) and len(r.value.elts) == 2
        pl = _prim(fl.src(r.value.elts[0], fl.node_of(r))) if ok else set()
        ctx.ob("protect returns the outer message it checked", bool(pl) and all(is_split0(l) for l in pl), fi, r)
    # _compress passes the ciphertext through unchanged and keeps it out of the option
    cf = prog.func(CP + "_compress")
    cp = params(cf)
    ctx.need(len(cp) == 3, "_compress signature changed")
    cfl = Flow(prog, cf)
    crets = [n for n in walk_no_nested(cf.node) if isinstance(n, ast.Return)]
    ctx.floor("return statements of _compress", len(crets), 1)
    for r in crets:
        ctx.need(isinstance(r.value, ast.Tuple) and len(r.value.elts) == 2, "_compress does not return a pair")
        l1 = cfl.src(r.value.elts[1], cfl.node_of(r))
        ctx.ob("_compress returns its ciphertext argument unchanged as the body", l1 == {(("param", cp[2]), "", True)}, cf, r, detail="sources: %s" % fmt_leaves(l1))
        l0 = cfl.src(r.value.elts[0], cfl.node_of(r))
        ctx.ob("the option value produced by _compress does not depend on the body", not any(l[0] == ("param", cp[2]) for l in l0), cf, r)

    # ---- CodeStyle table -------------------------------------------------------
    ci = prog.cls("oscore.CodeStyle")
    base = ci.node.bases[0] if ci.node.bases else None
    fields = None
    if isinstance(base, ast.Call) and chain(base.func) in ("namedtuple", "collections.namedtuple") and len(base.args) == 2:
        try:
            fields = tuple(norm.consteval(base.args[1]))
        except norm.NormError:
            fields = None
    ctx.need(fields is not None, "CodeStyle is not a namedtuple with literal fields")
    ctx.ob("CodeStyle fields are (request, response)", fields == ("request", "response"), None, None, construct="CodeStyle fields", detail=repr(fields))
    mod = prog.module("oscore")
    table = {}
    for st in mod.tree.body:
        if isinstance(st, ast.Assign) and len(st.targets) == 1 and isinstance(st.targets[0], ast.Attribute) and chain(st.targets[0].value) == "CodeStyle":
            v = st.value
            if isinstance(v, ast.Call) and chain(v.func) == "CodeStyle" and len(v.args) == 2 and not v.keywords:
                table[st.targets[0].attr] = tuple(prog.resolve_in_module(mod, chain(x) or "?").split(".")[-1] for x in v.args)
    ctx.floor("CodeStyle constants", len(table), 2)
    for name, (rq, rs) in sorted(table.items()):
        ctx.ob("CodeStyle.%s pairs a request code with the response code of RFC 8613" % name, REF_CODESTYLE.get(rq) == rs, None, None,
               construct="CodeStyle.%s = CodeStyle(%s, %s)" % (name, rq, rs))
    ctx.ob("both RFC 8613 code styles exist", {v[0] for v in table.values()} == set(REF_CODESTYLE), None, None, construct="CodeStyle constants")
    ff = prog.func("oscore.CodeStyle.from_request")
    fp = params(ff)
    fcfg = cfg_of(ff)
    frets = [n for n in walk_no_nested(ff.node) if isinstance(n, ast.Return)]
    ctx.floor("returns in CodeStyle.from_request", len(frets), 2)
    for r in frets:
        name = r.value.attr if isinstance(r.value, ast.Attribute) and chain(r.value.value) in ("cls", "CodeStyle") else None
        ctx.need(name in table, "from_request returns something that is not a CodeStyle constant")
        conds = tuple(guard_exprs(fcfg, fcfg.loc1(r)))
        b = cond_has(ff.node, conds, "%s == $c" % fp[0], True)
        got = prog.resolve_in_module(mod, chain(b["c"]) or "?").split(".")[-1] if b else None
        ctx.ob("from_request maps a request code to the style with that request code", got == table[name][0], ff, r, detail="guard code %s, style %s" % (got, table[name]))
    init = prog.func("oscore.RequestIdentifiers.__init__")
    ip = params(init)
    st = [s for k, s in stores_to(init.node, "self.code_style") if k == "assign"]
    ok = len(st) == 1 and match("CodeStyle.from_request(%s)" % ip[3], st[0].value) is not None and not writes_to_name(init.node, ip[3]) if len(ip) >= 4 else False
    ctx.ob("RequestIdentifiers derives its code style from the request code", ok, init, st[0] if st else init.node)


# ---------------------------------------------------------------------------
# C11.b

def _is_none_const(e):
    return isinstance(e, ast.Constant) and e.value is None


def _cose_key(prog, fi, e):
    q = qn(prog, fi, e)
    return q.split(".")[-1] if q and q.startswith("aiocoap.oscore.COSE_") else None


def _dict_read(prog, fi, e):
    """COSE key name when e reads an entry of a dict: d.pop(K[, dflt]) / d.get(K[, dflt]) / d[K]."""
    if isinstance(e, ast.Call) and isinstance(e.func, ast.Attribute) and e.func.attr in ("pop", "get") and e.args:
        return _cose_key(prog, fi, e.args[0])
    if isinstance(e, ast.Subscript):
        return _cose_key(prog, fi, e.slice)
    return None


@R.clause("C11.b", "request binding: the AAD carries the request's kid and partial IV, a response without PIV derives its nonce from them, nonce reuse is one-shot")
def b(ctx):
    prog = ctx.prog
    # ---- external AAD array ---------------------------------------------------
    fi = prog.func(BS + "_extract_external_aad")
    pn = params(fi)
    ctx.need(len(pn) >= 2, "_extract_external_aad signature changed")
    rid = pn[1]
    fl = Flow(prog, fi)
    rets = [n for n in walk_no_nested(fi.node) if isinstance(n, ast.Return)]
    ctx.floor("returns of _extract_external_aad", len(rets), 1)
    for r in rets:
        terms = fl.terminals(r.value, fl.node_of(r))
        for t, tn, conds in terms:
            ok = isinstance(t, ast.Call) and qn(prog, fi, t.func) == "cbor2.dumps" and len(t.args) == 1
            ctx.need(ok, "_extract_external_aad does not return cbor.dumps(<array>)")
            arrs = fl.terminals(t.args[0], tn)
            for arr, an, _ in arrs:
                ctx.need(isinstance(arr, ast.List), "the external AAD is not built from a list display")
                okk = len(arr.elts) >= 5 and fl.src(arr.elts[2], an) == {(("param", rid), ".kid", True)} and fl.src(arr.elts[3], an) == {(("param", rid), ".partial_iv", True)}
                ctx.ob("external_aad = [version, algorithms, request_kid, request_piv, options]: positions 2 and 3 are the request's kid and partial IV", okk, fi, arr,
                       detail="array: %s" % stmt_text(arr, 120))
            if isinstance(t.args[0], ast.Name):
                kinds = sorted({k for k, _ in stores_to(fi.node, t.args[0].id)} - {"assign", "append"})
                ctx.ob("the AAD array is only extended after it is built (no element replaced or removed)", not kinds, fi, r, detail="other writes: %s" % kinds)

    # ---- unprotect -----------------------------------------------------------------
    fi = prog.func(CU + "unprotect")
    pn = params(fi)
    ctx.need(len(pn) == 2, "unprotect signature changed")
    msg, rid = pn
    fl = Flow(prog, fi)
    decs = _decrypt_calls(fi)
    ctx.floor("decrypt calls in unprotect", len(decs), 1)
    for d in decs:
        dn = fl.node_of(d)
        ctx.need(len(d.args) == 4 and not d.keywords, "decrypt call with unexpected arity")
        aadl = fl.src(d.args[1], dn)
        ctx.ob("the AAD given to decrypt is derived from _extract_external_aad", any(l[0] == ("self",) and l[1] == "._extract_external_aad()" for l in aadl), fi, d)
        nl = _prim(fl.src(d.args[3], dn))
        ctx.ob("the nonce given to decrypt is the result of _construct_nonce", bool(nl) and all(l[0] == ("self",) and l[1] == "._construct_nonce()" for l in nl), fi, d,
               detail="sources: %s" % fmt_leaves(nl))
    ncs = list(find("self._construct_nonce($*a)", fi.node))
    ctx.floor("_construct_nonce calls in unprotect", len(ncs), 1)
    for c, bnd in ncs:
        ctx.need(len(bnd["a"]) == 3 and not c.keywords, "_construct_nonce call with unexpected arity")
        cn = fl.node_of(c)
        for pos, req_attr, own in ((0, ".partial_iv", "COSE_PIV"), (1, ".kid", "self.recipient_id")):
            seen = set()
            for t, tn, conds in fl.terminals(bnd["a"][pos], cn):
                if not isinstance(t, ast.AST):
                    ctx.ob("nonce input %d has a recognisable source" % pos, False, fi, c, detail="definition by %s" % t.kind)
                    continue
                has_piv = cond_has(fi.node, conds, "COSE_PIV in $u", True) is not None
                no_piv = cond_has(fi.node, conds, "COSE_PIV in $u", False) is not None
                if fl.src(t, tn) == {(("param", rid), req_attr, True)}:
                    seen.add("request")
                    ctx.ob("the request's %s is used for the nonce exactly when the message carries no partial IV" % req_attr[1:], no_piv, fi, t,
                           construct="nonce input %d <- %s" % (pos, stmt_text(t)))
                elif (own == "COSE_PIV" and _dict_read(prog, fi, t) == "COSE_PIV") or (own != "COSE_PIV" and chain(t) == own):
                    seen.add("own")
                    ctx.ob("the message's own partial IV / sender is used for the nonce exactly when a partial IV is present", has_piv, fi, t,
                           construct="nonce input %d <- %s" % (pos, stmt_text(t)))
                else:
                    ctx.ob("nonce inputs are either the request's identifiers or the message's own partial IV and the recipient ID", False, fi, t,
                           construct="nonce input %d <- %s" % (pos, stmt_text(t)))
            ctx.ob("both nonce sources (request identifiers / own partial IV) exist for input %d" % pos, seen == {"request", "own"}, fi, c,
                   construct="nonce input %d of unprotect" % pos, detail="found %s" % sorted(seen))
    aads = list(find("self._extract_external_aad($*a, $**k)", fi.node))
    ctx.floor("_extract_external_aad calls in unprotect", len(aads), 1)
    for c, bnd in aads:
        ctx.need(len(bnd["a"]) >= 2, "_extract_external_aad call with unexpected arity")
        an = fl.node_of(c)
        for t, tn, conds in fl.terminals(bnd["a"][1], an):
            if not isinstance(t, ast.AST) and t.kind == "param" and t.name == rid:
                ctx.ob("the AAD of a response is built from the request identifiers handed in by the caller", True, fi, c, construct="aad request_id <- parameter")
            elif isinstance(t, ast.Call) and qn(prog, fi, t.func) == "aiocoap.oscore.RequestIdentifiers" and len(t.args) >= 2:
                ok = is_request_cond(fi.node, conds, msg) is True
                ctx.ob("fresh request identifiers replace the caller's only while unprotecting a request", ok, fi, t, construct="aad request_id <- RequestIdentifiers(...)")
                kid = [x[0] for x in fl.terminals(t.args[0], tn)]
                piv = [x[0] for x in fl.terminals(t.args[1], tn)]
                ok2 = all(isinstance(x, ast.AST) and chain(x) == "self.recipient_id" for x in kid) and all(isinstance(x, ast.AST) and _dict_read(prog, fi, x) == "COSE_PIV" for x in piv)
                ctx.ob("a request's identifiers are (recipient ID, partial IV of the message)", bool(kid and piv and ok2), fi, t,
                       construct="RequestIdentifiers(kid, piv) in unprotect")
            else:
                ctx.ob("the request identifiers in the AAD are the caller's or freshly built ones", False, fi, c,
                       detail="source %s" % (stmt_text(t) if isinstance(t, ast.AST) else t.kind))

    # ---- protect -----------------------------------------------------------------------
    fi = prog.func(CP + "protect")
    pn = params(fi)
    msg, rid = pn[0], pn[1]
    fl = Flow(prog, fi, sanitisers=(), opaque_self_calls={"_split_message"})
    ncs = list(find("self._construct_nonce($*a)", fi.node))
    ctx.floor("_construct_nonce calls in protect", len(ncs), 1)
    for c, bnd in ncs:
        ctx.need(len(bnd["a"]) == 3, "_construct_nonce call with unexpected arity")
        cn = fl.node_of(c)
        for pos, idx in ((0, "[1]"), (1, "[0]")):
            pl = _prim(fl.src(bnd["a"][pos], cn))
            arg = bnd["a"][pos]
            if isinstance(arg, ast.Name) and (guarded_by(fl.cfg, cn, "%s is None" % arg.id, False)):
                pl = {l for l in pl if l[0] != ("const", "None")}
            ok = pl == {(("param", rid), ".get_reusable_kid_and_piv()" + idx, True)}
            ctx.ob("a reused nonce is built from the pair handed out by request_id.get_reusable_kid_and_piv()", ok, fi, c,
                   detail="input %d sources: %s" % (pos, fmt_leaves(pl)), construct="reused nonce input %d" % pos)
    encs = [c for c in walk_no_nested(fi.node) if isinstance(c, ast.Call) and isinstance(c.func, ast.Attribute) and c.func.attr == "encrypt"]
    ctx.floor("encrypt calls in protect", len(encs), 1)
    for e in encs:
        en = fl.node_of(e)
        ctx.need(len(e.args) == 4 and not e.keywords, "encrypt call with unexpected arity")
        nl = _prim(fl.src(e.args[3], en))
        ok = bool(nl) and all(l[0] == ("self",) and l[1] in ("._construct_nonce()", "._build_new_nonce()[0]") for l in nl)
        ctx.ob("the nonce given to encrypt is a reused or a freshly built one", ok, fi, e, detail="sources: %s" % fmt_leaves(nl))
        aadl = fl.src(e.args[1], en)
        ctx.ob("the AAD given to encrypt is derived from _extract_external_aad", any(l[0] == ("self",) and l[1] == "._extract_external_aad()" for l in aadl), fi, e)
        ptl = _prim(fl.src(e.args[0], en))
        ctx.ob("what is encrypted is the plaintext produced by _split_message", ptl == {(("self",), "._split_message()[1]", True)}, fi, e, detail="sources: %s" % fmt_leaves(ptl))
    aads = list(find("self._extract_external_aad($*a, $**k)", fi.node))
    ctx.floor("_extract_external_aad calls in protect", len(aads), 1)
    for c, bnd in aads:
        an = fl.node_of(c)
        for t, tn, conds in fl.terminals(bnd["a"][1], an):
            if not isinstance(t, ast.AST) and t.kind == "param" and t.name == rid:
                ctx.ob("the AAD of a response is built from the identifiers of the request it answers", True, fi, c, construct="aad request_id <- parameter")
            elif isinstance(t, ast.Call) and qn(prog, fi, t.func) == "aiocoap.oscore.RequestIdentifiers" and len(t.args) >= 2:
                ok = is_request_cond(fi.node, conds, msg) is True
                pivl = _prim(fl.src(t.args[1], tn))
                ok2 = chain(t.args[0]) == "self.sender_id" and bool(pivl) and all(
                    l in ((("self",), "._build_new_nonce()[1]", True), (("param", rid), ".get_reusable_kid_and_piv()[1]", True)) for l in pivl)
                ctx.ob("a request's AAD identifiers are (own sender ID, partial IV of this message), built only for requests", ok and ok2, fi, t,
                       construct="RequestIdentifiers(kid, piv) in protect")
            else:
                ctx.ob("the request identifiers in the AAD are the caller's or freshly built ones", False, fi, c,
                       detail="source %s" % (stmt_text(t) if isinstance(t, ast.AST) else t.kind))
    # a freshly generated partial IV travels in the option
    fresh = [(s, nid) for root, path, val, nid, s, kind in fl.stores
             if kind == "store" and path == "[]" and isinstance(s, ast.Assign) and isinstance(s.targets[0], ast.Subscript) and _cose_key(prog, fi, s.targets[0].slice) == "COSE_PIV"]
    builds = [fl.node_of(c) for c, _ in find("self._build_new_nonce($*a)", fi.node)]
    ctx.floor("_build_new_nonce calls in protect", len(builds), 1)
    okf = False
    for s, nid in fresh:
        pl = _prim(fl.src(s.value, nid))
        if pl == {(("self",), "._build_new_nonce()[1]", True)} and any(fl.cfg.dominates(bn, nid) for bn in builds):
            okf = all(fl.cfg.must_pass(bn, [nid]) for bn in builds)
    ctx.ob("a freshly generated partial IV is always placed into the OSCORE option", okf, fi, fresh[0][0] if fresh else fi.node,
           construct="unprotected[COSE_PIV] <- _build_new_nonce()[1]")

    # ---- one-shot reuse -------------------------------------------------------------------
    fi = prog.func("oscore.RequestIdentifiers.get_reusable_kid_and_piv")
    cfg = cfg_of(fi)
    rets = [n for n in walk_no_nested(fi.node) if isinstance(n, ast.Return)]
    ctx.floor("returns of get_reusable_kid_and_piv", len(rets), 2)
    clears = [cfg.loc1(s) for k, s in stores_to(fi.node, "self.can_reuse_nonce") if k == "assign" and isinstance(s, ast.Assign) and isinstance(s.value, ast.Constant) and s.value.value is False]
    nonnull = 0
    for r in rets:
        v = resolve_local(fi.node, r.value)
        ctx.need(isinstance(v, ast.Tuple) and len(v.elts) == 2, "get_reusable_kid_and_piv does not return a pair")
        if all(_is_none_const(x) for x in v.elts):
            continue
        nonnull += 1
        rn = cfg.loc1(r)
        ctx.ob("the reusable pair is (kid, partial_iv) of the request", chain(v.elts[0]) == "self.kid" and chain(v.elts[1]) == "self.partial_iv", fi, r)
        ctx.ob("the pair is handed out only while can_reuse_nonce is set", guarded_by(cfg, rn, "self.can_reuse_nonce", True), fi, r)
        ctx.ob("handing out the pair clears can_reuse_nonce first (a nonce is reused at most once)", any(cfg.dominates(cn, rn) for cn in clears), fi, r)
    ctx.floor("non-empty returns of get_reusable_kid_and_piv", nonnull, 1)


def _decrypt_calls(fi):
    return [c for c in walk_no_nested(fi.node) if isinstance(c, ast.Call) and isinstance(c.func, ast.Attribute) and c.func.attr == "decrypt"]


# ---------------------------------------------------------------------------
# C11.c

# RFC 8613 section 5.2: nonce = (len(ID_PIV) as one byte | zeros to N-6-len(ID_PIV) | ID_PIV | zeros to 5-len(PIV) | PIV) XOR Common IV
REF_NONCE = [("lenbyte", "ID"), ("zeros", "N - 6 - len(ID)"), ("field", "ID"), ("zeros", "5 - len(PIV)"), ("field", "PIV")]
PIV_BYTES = 5


def _flatten_add(e, env, depth=0):
    """Operands of a byte-string concatenation, single-assignment locals inlined."""
    if isinstance(e, ast.BinOp) and isinstance(e.op, ast.Add):
        return _flatten_add(e.left, env, depth) + _flatten_add(e.right, env, depth)
    if isinstance(e, ast.Name) and e.id in env and depth < 8:
        return _flatten_add(env[e.id], env, depth + 1)
    return [e]


def _single_byte_of(e):
    """X for bytes([X]) / bytes((X,)), else None."""
    if isinstance(e, ast.Call) and chain(e.func) == "bytes" and len(e.args) == 1 and not e.keywords:
        a = e.args[0]
        if isinstance(a, (ast.List, ast.Tuple)) and len(a.elts) == 1:
            return a.elts[0]
    return None


def _zeros_count(e):
    """N for b"\\0" * N / N * b"\\0" / bytes(N), else None."""
    if isinstance(e, ast.BinOp) and isinstance(e.op, ast.Mult):
        for z, n in ((e.left, e.right), (e.right, e.left)):
            if isinstance(z, ast.Constant) and z.value == b"\0":
                return n
    if isinstance(e, ast.Call) and chain(e.func) == "bytes" and len(e.args) == 1 and not e.keywords and not isinstance(e.args[0], (ast.List, ast.Tuple, ast.Constant)):
        return e.args[0]
    return None


def _layout(ops, N):
    out = []
    for o in ops:
        sb = _single_byte_of(o)
        z = _zeros_count(o)
        if sb is not None:
            p = N.poly(sb)
            lens = [a for a in p.atoms() if a.startswith("len(")]
            if p == Poly.atom(lens[0]) if len(lens) == 1 else False:
                out.append(("lenbyte", lens[0][4:-1]))
            else:
                out.append(("byte", repr(p)))
        elif z is not None:
            p = N.poly(z)
            if out and out[-1][0] == "zeros":
                out[-1] = ("zeros", out[-1][1] + p)
            else:
                out.append(("zeros", p))
        elif isinstance(o, ast.Constant) and o.value == b"":
            continue
        else:
            out.append(("field", repr(N.poly(o))))
    return out


@R.clause("C11.c", "nonce layout equals RFC 8613 section 5.2 and is XORed with the common IV; fresh partial IVs are 5-byte big-endian sequence numbers")
def c(ctx):
    prog = ctx.prog
    fi = prog.func(BS + "_construct_nonce")
    pn = params(fi)
    ctx.need(len(pn) == 3, "_construct_nonce signature changed")
    piv, pid, alg = pn
    for p in pn:
        ctx.need(not writes_to_name(fi.node, p), "_construct_nonce rebinds its parameter %s" % p)
    env = norm.local_env(fi.node)
    rename = {piv: "PIV", pid: "ID", "%s.iv_bytes" % alg: "N"}
    N = Normalizer(env=env, rename=rename)
    rets = [n for n in walk_no_nested(fi.node) if isinstance(n, ast.Return)]
    ctx.floor("returns of _construct_nonce", len(rets), 1)
    want = []
    for k, v in REF_NONCE:
        want.append((k, Normalizer().poly(ast.parse(v, mode="eval").body)) if k == "zeros" else (k, v))
    for r in rets:
        v = resolve_local(fi.node, r.value)
        ok = isinstance(v, ast.Call) and qn(prog, fi, v.func) == "aiocoap.oscore._xor_bytes" and len(v.args) == 2 and not v.keywords
        if not ok:
            ctx.ob("the nonce is the XOR of the padded components with the context's common IV", False, fi, r, detail="returned value: %s" % stmt_text(v, 80))
            continue
        sides = [resolve_local(fi.node, x) for x in v.args]
        civ = [i for i, s in enumerate(sides) if chain(s.value if isinstance(s, ast.Subscript) else s) == "self.common_iv"]
        ctx.ob("the nonce is the XOR of the padded components with the context's common IV", len(civ) == 1, fi, v)
        if len(civ) != 1:
            continue
        comp = v.args[1 - civ[0]]
        s = sides[civ[0]]
        if isinstance(s, ast.Subscript):
            sl = s.slice
            okp = isinstance(sl, ast.Slice) and sl.lower is None and sl.step is None and sl.upper is not None and same(resolve_local(fi.node, sl.upper), ast.parse("len(%s)" % ast.unparse(comp), mode="eval").body)
            ctx.ob("the common IV is cut to the length of the components from its start", bool(okp), fi, s)
        got = _layout(_flatten_add(comp, env), N)
        ctx.ob("nonce components = len(ID) | 0-pad to N-6-len(ID) | ID | 0-pad to 5-len(PIV) | PIV (RFC 8613 section 5.2)", got == want, fi, resolve_local(fi.node, comp),
               detail="layout: %r" % (got,), construct="nonce components")
    xf = prog.func("oscore._xor_bytes")
    xp = params(xf, skip_self=False)
    xr = [n for n in walk_no_nested(xf.node) if isinstance(n, ast.Return)]
    okx = len(xp) == 2 and len(xr) == 1 and any(
        match("bytes($x ^ $y for ($x, $y) in zip(%s, %s))" % (a, b2), xr[0].value) is not None for a, b2 in ((xp[0], xp[1]), (xp[1], xp[0])))
    ctx.ob("_xor_bytes is the byte-wise XOR of its two arguments", okx, xf, xr[0] if xr else xf.node)
    # fresh partial IV
    bf = prog.func(CP + "_build_new_nonce")
    bp = params(bf)
    bfl = Flow(prog, bf)
    brets = [n for n in walk_no_nested(bf.node) if isinstance(n, ast.Return)]
    ctx.floor("returns of _build_new_nonce", len(brets), 1)
    for r in brets:
        ctx.need(isinstance(r.value, ast.Tuple) and len(r.value.elts) == 2, "_build_new_nonce does not return a pair")
        rn = bfl.node_of(r)
        call = resolve_local(bf.node, r.value.elts[0])
        b0 = match("self._construct_nonce($p, $i, $a)", call)
        ctx.need(b0 is not None, "_build_new_nonce does not return a _construct_nonce(...) result first")
        full = resolve_local(bf.node, b0["p"])
        bb = match("$n.to_bytes(%d, 'big')" % PIV_BYTES, full)
        seq = _prim(bfl.src(bb["n"], rn)) if bb else set()
        ctx.ob("a fresh partial IV is the new sequence number as %d big-endian bytes" % PIV_BYTES, bb is not None and seq == {(("self",), ".new_sequence_number()", True)}, bf, full,
               detail="sources: %s" % fmt_leaves(seq))
        ctx.ob("a fresh nonce is built for the own sender ID and the given algorithm", chain(b0["i"]) == "self.sender_id" and isinstance(b0["a"], ast.Name) and b0["a"].id == bp[0], bf, call)
        short = resolve_local(bf.node, r.value.elts[1])
        bs = match("$v.lstrip(b'\\x00') or b'\\x00'", short)
        ctx.ob("the partial IV sent is the same value without leading zero bytes (one zero byte for 0)", bs is not None and same(resolve_local(bf.node, bs["v"]), full), bf, short)


# ---------------------------------------------------------------------------
# C11.d

# RFC 8613 section 6.1 (A.11): flag byte bits 0-2 n, bit 3 k, bit 4 h, bits 5-7 reserved (bit 5: group flag of the groupcomm draft);
# value = flag | PIV (n bytes) | [s (1 byte) | kid context (s bytes)] if h | [kid (rest)] if k; empty when the flag byte is zero.
REF_FLAGS = {"COMPRESSION_BITS_N": 0b111, "COMPRESSION_BIT_K": 0b1000, "COMPRESSION_BIT_H": 0b10000, "COMPRESSION_BITS_RESERVED": 0b11000000}
REF_GROUP_BIT = ("COMPRESSION_BIT_GROUP", 0b100000)
REF_OPTION = [
    (0b111, [("COSE_PIV", "flagbits")]),
    (0b10000, [("len",), ("COSE_KID_CONTEXT", "lenbyte")]),
    (0b1000, [("COSE_KID", "rest")]),
]
MAX_CONTEXT = 255


def _const_int(e, consts):
    try:
        v = norm.consteval(e, consts)
    except norm.NormError:
        return None
    return v if isinstance(v, int) and not isinstance(v, bool) else None


def _flag_mask(fn, test, flagvars, consts, P):
    """int mask for `flag & CONST`, 'nonempty' for tests of the option being empty, else None."""
    m, _ = _flag_cond(fn, test, True, flagvars, consts, P)
    return m


def _flag_cond(fn, test, pol, flagvars, consts, P):
    """(mask, polarity) of a test on flag bits: `flag & C`, `n` with n = flag & C, `n != 0`, `n == 0`, `n > 0`."""
    t = resolve_local(fn, test)
    if isinstance(t, ast.Compare) and len(t.ops) == 1 and isinstance(t.comparators[0], ast.Constant) and t.comparators[0].value == 0 \
            and isinstance(t.ops[0], (ast.Eq, ast.NotEq, ast.Gt)):
        inner = _flag_cond(fn, t.left, pol if not isinstance(t.ops[0], ast.Eq) else (not pol), flagvars, consts, P)
        if isinstance(inner[0], int):
            return inner
    if isinstance(t, ast.BinOp) and isinstance(t.op, ast.BitAnd):
        for f, c in ((t.left, t.right), (t.right, t.left)):
            if isinstance(f, ast.Name) and f.id in flagvars:
                return _const_int(c, consts), pol
    if isinstance(t, ast.Name) and t.id == P:
        return "nonempty", pol
    if isinstance(t, ast.Compare) and len(t.ops) == 1 and {chain(t.left), chain(t.comparators[0])} & {P}:
        return "nonempty", pol
    if isinstance(t, ast.Call) and chain(t.func) == "len" and len(t.args) == 1 and chain(t.args[0]) == P:
        return "nonempty", pol
    if isinstance(t, ast.Name) and t.id in flagvars:
        return "nonempty", pol
    return None, pol


def _is_validation_guard(cfg, pid):
    """The branch outcome pid is the surviving side of a test whose other side never returns normally."""
    tests = [p for p, lab in cfg.pred[pid] if lab in ("T", "F")]
    if len(tests) != 1:
        return False
    sib = [s for s, lab in cfg.succ[tests[0]] if lab in ("T", "F") and s != pid]
    return bool(sib) and all(cfg.exit not in cfg.reach({s}, skip_labels=("exc",), include_src=True) for s in sib)


def _reader_layout(ctx, prog, fi, consts):
    fn = fi.node
    fl = Flow(prog, fi)
    cfg = fl.cfg
    pn = params(fi)
    ctx.need(len(pn) == 2, "_uncompress signature changed")
    P = pn[0]
    ctx.need(not [d for d in fl.defs if d.name == P and d.kind != "param"], "_uncompress rebinds the option parameter")

    def sub_of(e, names):
        return isinstance(e, ast.Subscript) and isinstance(e.value, ast.Name) and e.value.id in names

    flagvars = {d.name for d in fl.defs if d.kind == "assign" and sub_of(d.value, {P}) and isinstance(d.value.slice, ast.Constant) and d.value.slice.value == 0}
    ctx.need(len(flagvars) == 1, "_uncompress: the flag byte is not read as <option>[0] into one local")
    for d in fl.defs:
        if d.name in flagvars and not (sub_of(d.value, {P}) or (isinstance(d.value, ast.Constant) and d.value.value == 0)):
            raise AnalysisError("C11.d: the flag byte local has a definition the rule cannot interpret: %s" % stmt_text(d.stmt))

    def tail_from(e, names):
        return sub_of(e, names) and isinstance(e.slice, ast.Slice) and e.slice.upper is None and e.slice.step is None and e.slice.lower is not None

    cursors = {d.name for d in fl.defs if d.kind == "assign" and tail_from(d.value, {P}) and _const_int(d.value.slice.lower, consts) == 1}
    ctx.need(len(cursors) == 1, "_uncompress: no single cursor local initialised as <option>[1:]")
    events = []
    used = set()
    for d in fl.defs:
        if d.name in cursors:
            if d.kind == "assign" and tail_from(d.value, {P}):
                events.append({"k": "adv", "nid": d.nid, "n": d.value.slice.lower, "node": d.stmt, "init": True})
            elif d.kind == "assign" and tail_from(d.value, cursors):
                events.append({"k": "adv", "nid": d.nid, "n": d.value.slice.lower, "node": d.stmt, "init": False})
            else:
                raise AnalysisError("C11.d: cursor update outside the rule's idioms: %s" % stmt_text(d.stmt))
            used.add(id(d.value))
        elif d.kind == "assign" and sub_of(d.value, cursors) and not isinstance(d.value.slice, ast.Slice):
            i = _const_int(d.value.slice, consts)
            ctx.need(i is not None, "_uncompress: non-constant index into the cursor")
            events.append({"k": "idx", "nid": d.nid, "name": d.name, "i": i, "node": d.stmt})
            used.add(id(d.value))
    rets = [n for n in walk_no_nested(fn) if isinstance(n, ast.Return)]
    ctx.need(len(rets) >= 1 and all(isinstance(r.value, ast.Tuple) and len(r.value.elts) == 4 for r in rets), "_uncompress does not return a 4-tuple")
    dicts = {r.value.elts[2].id for r in rets if isinstance(r.value.elts[2], ast.Name)}
    ctx.need(len(dicts) == 1, "_uncompress: the unprotected map is not one local")
    U = next(iter(dicts))
    flagonly = {}
    for root, path, val, nid, stmt, kind in fl.stores:
        if root != U or kind != "store":
            continue
        tgt = stmt.targets[0] if isinstance(stmt, ast.Assign) and len(stmt.targets) == 1 else None
        key = _cose_key(prog, fi, tgt.slice) if isinstance(tgt, ast.Subscript) else None
        ctx.need(key is not None, "_uncompress: store into the unprotected map that is not map[COSE_*] = value")
        v = val
        while isinstance(v, ast.Name) and v.id not in cursors:
            ds = fl.reaching(v.id, nid)
            if len(ds) != 1 or ds[0].kind != "assign":
                break
            v, nid = ds[0].value, ds[0].nid  # the field is cut where the local is defined
        if sub_of(v, cursors) and isinstance(v.slice, ast.Slice) and v.slice.step is None and v.slice.upper is not None:
            events.append({"k": "read", "nid": nid, "key": key, "lo": v.slice.lower, "hi": v.slice.upper, "node": stmt})
            used.add(id(v))
        elif isinstance(v, ast.Name) and v.id in cursors:
            events.append({"k": "rest", "nid": nid, "key": key, "node": stmt})
            used.add(id(v))
        elif any(isinstance(x, ast.Name) and x.id in cursors for x in ast.walk(v)):
            raise AnalysisError("C11.d: field extraction outside the rule's idioms: %s" % stmt_text(stmt))
        else:
            flagonly[key] = nid
    # every other use of the cursor must be a test
    for x in walk_no_nested(fn):
        if isinstance(x, ast.Name) and x.id in cursors and isinstance(x.ctx, ast.Load):
            par = cfg.parent.get(id(x))
            if id(par) in used or id(x) in used:
                continue
            locs = cfg.locate(x)
            if locs and cfg.nodes[locs[0]].kind == "test":
                continue
            if any(isinstance(s, ast.Assign) and s.value is x for s in [cfg.nodes[l].ast for l in locs]):
                continue  # plain copy, resolved through resolve_local above
            raise AnalysisError("C11.d: the cursor is used in a way the rule cannot interpret: %s" % stmt_text(cfg.nodes[locs[0]].ast if locs else x))
    # layout guards
    def mask_of(nid):
        ms = []
        for test, pol, pid in cfg.guards(nid):
            if _is_validation_guard(cfg, pid):
                continue
            m, epol = _flag_cond(fn, test, pol, flagvars, consts, P)
            if m == "nonempty":
                continue
            if m is None or epol is not True:
                raise AnalysisError("C11.d: _uncompress: layout depends on a condition the rule cannot interpret: %s" % stmt_text(test))
            ms.append(m)
        return ms
    for ev in events:
        ms = mask_of(ev["nid"])
        if ev.get("init"):
            ctx.need(not ms, "_uncompress: the flag byte is skipped only conditionally")
            ev["mask"] = 0
        else:
            ctx.need(len(ms) == 1, "_uncompress: a field is read under %d flag conditions" % len(ms))
            ev["mask"] = ms[0]
    nids = {ev["nid"] for ev in events}
    for ev in events:
        ev["after"] = len(cfg.reach({ev["nid"]}) & nids)
        ctx.need(ev["nid"] not in cfg.reach({ev["nid"]}), "_uncompress: field extraction inside a loop")
    events.sort(key=lambda ev: -ev["after"])
    for x, y in zip(events, events[1:]):
        ctx.need(y["nid"] in cfg.reach({x["nid"]}) and x["nid"] not in cfg.reach({y["nid"]}), "_uncompress: extraction steps are not totally ordered")
    env = {k: v for k, v in norm.local_env(fn).items() if k not in {e["name"] for e in events if e["k"] == "idx"} and k not in cursors}
    N = Normalizer(env=env, penv={k: Poly.const(v) for k, v in consts.items()})
    blocks = []
    tiling = []
    for ev in events:
        if ev.get("init"):
            ctx.need(_const_int(ev["n"], consts) == 1, "the reader does not skip exactly the flag byte")
            continue
        if not blocks or blocks[-1]["mask"] != ev["mask"]:
            ctx.need(all(b["mask"] != ev["mask"] for b in blocks), "_uncompress: steps for one flag are not contiguous")
            blocks.append({"mask": ev["mask"], "rel": Poly.const(0), "spans": [], "items": [], "lens": {}, "first": ev["node"]})
        b = blocks[-1]
        if ev["k"] == "adv":
            b["rel"] = b["rel"] + N.poly(ev["n"])
        elif ev["k"] == "idx":
            b["spans"].append((b["rel"] + Poly.const(ev["i"]), b["rel"] + Poly.const(ev["i"] + 1)))
            b["items"].append(("len",))
            b["lens"][ev["name"]] = True
        elif ev["k"] == "read":
            lo = N.poly(ev["lo"]) if ev["lo"] is not None else Poly.const(0)
            b["spans"].append((b["rel"] + lo, b["rel"] + N.poly(ev["hi"])))
            length = N.poly(ev["hi"]) - lo
            if any(length == Poly.atom(nm) for nm in b["lens"]):
                kind = "lenbyte"
            elif any(length == N.poly(ast.parse("%s & %d" % (fv, ev["mask"]), mode="eval").body) for fv in flagvars):
                kind = "flagbits"
            else:
                kind = "expr:%r" % (length,)
            b["items"].append((ev["key"], kind))
        else:
            b["spans"].append((b["rel"], None))
            b["items"].append((ev["key"], "rest"))
    for i, b in enumerate(blocks):
        ok = bool(b["spans"]) and b["spans"][0][0] == Poly.const(0)
        for (s0, e0), (s1, e1) in zip(b["spans"], b["spans"][1:]):
            ok = ok and e0 is not None and e0 == s1
        last = b["spans"][-1][1] if b["spans"] else None
        if last is None:
            ok = ok and i == len(blocks) - 1
        else:
            ok = ok and last == b["rel"]
        tiling.append((b, ok))
    return [(b["mask"], b["items"]) for b in blocks], tiling, flagonly, flagvars, U, fl


def _writer_layout(ctx, prog, fi, consts):
    fn = fi.node
    fl = Flow(prog, fi)
    cfg = fl.cfg
    pn = params(fi)
    ctx.need(len(pn) == 3, "_compress signature changed")
    U = pn[1]
    rets = [n for n in walk_no_nested(fn) if isinstance(n, ast.Return)]
    ctx.need(rets and all(isinstance(r.value, ast.Tuple) and len(r.value.elts) == 2 for r in rets), "_compress does not return a pair")
    res = {"concats": [], "empties": [], "U": U, "fl": fl}

    def dict_key(e, nid):
        ts = fl.terminals(e, nid)
        if len(ts) != 1 or not isinstance(ts[0][0], ast.AST):
            return None, None
        t = ts[0][0]
        if isinstance(t, ast.Call) and isinstance(t.func, ast.Attribute) and chain(t.func.value) == U and t.func.attr in ("pop", "get") and t.args:
            return _cose_key(prog, fi, t.args[0]), t
        if isinstance(t, ast.Subscript) and chain(t.value) == U:
            return _cose_key(prog, fi, t.slice), t
        return None, None

    def in_key(conds, pol):
        b = cond_has(fn, conds, "$k in %s" % U, pol)
        return _cose_key(prog, fi, b["k"]) if b else None

    for r in rets:
        for t, tn, conds in fl.terminals(r.value.elts[0], fl.node_of(r)):
            if isinstance(t, ast.Constant) and t.value == b"":
                res["empties"].append((t, tn, conds))
                continue
            ctx.need(isinstance(t, ast.AST), "_compress: option value defined in a way the rule cannot interpret")
            ops = _flatten_add(t, {})
            fb = _single_byte_of(ops[0])
            ctx.need(isinstance(fb, ast.Name), "_compress: the option does not start with bytes([flag])")
            blocks = []
            for pos, op in enumerate(ops[1:]):
                alts = fl.terminals(op, tn)
                blk = {"op": op, "key": None, "items": None, "empties": [], "node": None, "lenexpr": None, "cond": None, "last": pos == len(ops) - 2}
                for at, an, ac in alts:
                    if isinstance(at, ast.Constant) and at.value == b"":
                        blk["empties"].append(in_key(ac, False) if in_key(ac, True) is None else "although %s present" % in_key(ac, True))
                        continue
                    ctx.need(isinstance(at, ast.AST), "_compress: option segment defined in a way the rule cannot interpret")
                    items = []
                    for so in _flatten_add(at, {}):
                        sb = _single_byte_of(so)
                        if sb is not None:
                            lt = fl.terminals(sb, an)
                            le = lt[0][0] if len(lt) == 1 and isinstance(lt[0][0], ast.AST) else None
                            k = None
                            if isinstance(le, ast.Call) and chain(le.func) == "len" and len(le.args) == 1:
                                k, _ = dict_key(le.args[0], lt[0][1])
                            items.append(("len", k))
                            blk["lenexpr"] = sb
                        else:
                            k, call = dict_key(so, an)
                            items.append(("field", k, call))
                    ctx.need(blk["items"] is None, "_compress: an option segment has two non-empty definitions")
                    blk["items"], blk["node"], blk["cond"], blk["nid"] = items, at, in_key(ac, True), an
                ctx.need(blk["items"] is not None, "_compress: an option segment is always empty")
                blocks.append(blk)
            res["concats"].append({"expr": t, "nid": tn, "flag": fb.id, "blocks": blocks, "conds": conds})
    ctx.need(len(res["concats"]) == 1, "_compress: %d option concatenations" % len(res["concats"]))
    F = res["concats"][0]["flag"]
    res["bits"] = {}
    res["base"] = None
    for d in fl.defs:
        if d.name != F:
            continue
        if d.kind == "aug" and isinstance(d.stmt.op, ast.BitOr):
            m = _const_int(d.value, consts)
        elif d.kind == "assign" and isinstance(d.value, ast.BinOp) and isinstance(d.value.op, ast.BitOr) and isinstance(d.value.left, ast.Name) and d.value.left.id == F:
            m = _const_int(d.value.right, consts)
        elif d.kind == "assign" and isinstance(d.value, ast.Call) and chain(d.value.func) == "len" and len(d.value.args) == 1:
            ctx.need(res["base"] is None, "_compress: two base definitions of the flag byte")
            res["base"] = (d, dict_key(d.value.args[0], d.nid)[0])
            continue
        else:
            raise AnalysisError("C11.d: _compress: flag byte definition outside the rule's idioms: %s" % stmt_text(d.stmt))
        ctx.need(m is not None, "_compress: flag bit is not a module constant")
        k = in_key(tuple(guard_exprs(cfg, d.nid)), True)
        res["bits"].setdefault(k, []).append((m, d))
    ctx.need(res["base"] is not None, "_compress: the flag byte does not start as len(<partial IV>)")
    return res


@R.clause("C11.d", "OSCORE option compression: flag constants, writer layout of _compress, reader layout of _uncompress and RFC 8613 section 6.1 agree; reserved bits refused")
def d(ctx):
    prog = ctx.prog
    consts = module_int_consts(prog, "oscore")
    for name, val in sorted(REF_FLAGS.items()) + [REF_GROUP_BIT]:
        ctx.ob("%s == %s" % (name, bin(val)), consts.get(name) == val, None, None, construct="%s = %s" % (name, bin(consts[name]) if name in consts else "?"))
    allbits = [consts.get(n, 0) for n in list(REF_FLAGS) + [REF_GROUP_BIT[0]]]
    ctx.ob("the flag fields are disjoint and cover the byte", sum(allbits) == 0xFF and all(a & b == 0 for i, a in enumerate(allbits) for b in allbits[i + 1:]), None, None,
           construct="COMPRESSION_* constants")
    nmask = REF_FLAGS["COMPRESSION_BITS_N"]

    # ---- writer ------------------------------------------------------------------
    wf = prog.func(CP + "_compress")
    W = _writer_layout(ctx, prog, wf, consts)
    wfl, wcfg = W["fl"], W["fl"].cfg
    con = W["concats"][0]
    based, basekey = W["base"]
    wl = []
    ctx.ob("the low flag bits carry the length of the partial IV", basekey == "COSE_PIV", wf, based.stmt)
    Nw = Normalizer(env=norm.local_env(wf.node), penv={k: Poly.const(v) for k, v in consts.items()})
    want = Nw.negate(Nw.cmp(ast.parse("len(%s) > %d" % (ast.unparse(based.value.args[0]), nmask), mode="eval").body))
    ctx.ob("a partial IV longer than %d bytes is refused by the writer" % nmask, want in cmp_guard_nf(wcfg, con["nid"], Nw), wf, based.stmt,
           detail="guards at the concatenation: %s" % sorted(map(repr, cmp_guard_nf(wcfg, con["nid"], Nw))), construct="len(piv) <= COMPRESSION_BITS_N")
    for blk in con["blocks"]:
        items = blk["items"]
        fields = [i for i in items if i[0] == "field"]
        key = fields[0][1] if len(fields) == 1 else None
        if blk["cond"] is None and not blk["empties"]:
            # unconditional segment: the partial IV
            call = fields[0][2] if fields else None
            dflt = isinstance(call, ast.Call) and len(call.args) == 2 and isinstance(call.args[1], ast.Constant) and call.args[1].value == b""
            ctx.ob("the unconditional segment is the partial IV (empty when absent)", key == "COSE_PIV" and len(items) == 1 and dflt, wf, blk["node"])
            wl.append((nmask, [(key, "flagbits")]))
            continue
        bits = W["bits"].get(blk["cond"], [])
        def region(nid):
            return {pid for _, _, pid in wcfg.guards(nid) if not _is_validation_guard(wcfg, pid)}
        together = len(bits) == 1 and region(bits[0][1].nid) == region(blk["nid"])
        ctx.ob("segment %s is written exactly when its flag bit is set" % key,
               blk["cond"] is not None and blk["cond"] == key and all(x in (key, None) for x in blk["empties"]) and together, wf, blk["node"],
               detail="non-empty when %s present, empty when %s absent, bits %s, same branch: %s" % (blk["cond"], blk["empties"], [bin(m) for m, _ in bits], together))
        mask = bits[0][0] if bits else None
        if len(items) == 2 and items[0] == ("len", key):
            wl.append((mask, [("len",), (key, "lenbyte")]))
            wantl = Nw.negate(Nw.cmp(ast.parse("%s > %d" % (ast.unparse(blk["lenexpr"]), MAX_CONTEXT), mode="eval").body))
            ctx.ob("a length-prefixed segment longer than %d bytes is refused by the writer" % MAX_CONTEXT, wantl in cmp_guard_nf(wcfg, blk["nid"], Nw), wf, blk["node"],
                   construct="len(%s) <= %d" % (key, MAX_CONTEXT))
        elif len(items) == 1 and blk["last"]:
            wl.append((mask, [(key, "rest")]))
        else:
            wl.append((mask, [(key, "unbounded")] if len(items) == 1 else [(i[0], i[1]) for i in items]))
    extra = {k: v for k, v in W["bits"].items() if k not in {b["cond"] for b in con["blocks"]}}
    for k, lst in sorted(extra.items(), key=lambda kv: str(kv[0])):
        for m, dd in lst:
            ctx.ob("a flag bit without a segment is the group flag", m == REF_GROUP_BIT[1] and k == "COSE_COUNTERSIGNATURE0", wf, dd.stmt)
    ctx.ob("writer layout = flag | PIV | [s | kid context] | [kid] (RFC 8613 section 6.1)", wl == REF_OPTION, wf, con["expr"], detail="writer: %r" % (wl,),
           construct="option layout of _compress")
    for t, tn, conds in W["empties"]:
        ctx.ob("the option is left empty only when the flag byte is zero (no field is dropped)", cond_has(wf.node, conds, con["flag"], False) is not None, wf, t,
               construct="option = b'' when flag == 0")

    # ---- reader -------------------------------------------------------------------
    rf = prog.func(CU + "_uncompress")
    rl, tiling, flagonly, flagvars, U, rfl = _reader_layout(ctx, prog, rf, consts)
    rcfg = rfl.cfg
    for b, ok in tiling:
        ctx.ob("the reader consumes the bytes of the segment for flag %s contiguously and completely" % bin(b["mask"]), ok, rf, b["first"],
               detail="spans %r, advanced %r" % (b["spans"], b["rel"]), construct="segment %s of _uncompress" % bin(b["mask"]))
    ctx.ob("reader layout = flag | PIV | [s | kid context] | [kid] (RFC 8613 section 6.1)", rl == REF_OPTION, rf, rf.node, detail="reader: %r" % (rl,),
           construct="option layout of _uncompress")
    ctx.ob("writer and reader agree on the order and framing of the option fields", rl == wl, rf, rf.node, detail="writer %r / reader %r" % (wl, rl),
           construct="_compress vs _uncompress")
    for key, nid in sorted(flagonly.items()):
        ms = [_flag_mask(rf.node, t, flagvars, consts, params(rf)[0]) for t, pol, pid in rcfg.guards(nid) if not _is_validation_guard(rcfg, pid)]
        ctx.ob("a flag without a segment is the group flag", key == "COSE_COUNTERSIGNATURE0" and [m for m in ms if m != "nonempty"] == [REF_GROUP_BIT[1]], rf, rcfg.nodes[nid].ast)
    # reserved bits
    resv = REF_FLAGS["COMPRESSION_BITS_RESERVED"]
    rets = [rcfg.loc1(n) for n in walk_no_nested(rf.node) if isinstance(n, ast.Return)]
    for rn in rets:
        hit = [(t, pol, pid) for t, pol, pid in rcfg.guards(rn) if _flag_cond(rf.node, t, pol, flagvars, consts, params(rf)[0]) == (resv, False)]
        ctx.ob("_uncompress returns only when no reserved flag bit is set", bool(hit), rf, rcfg.nodes[rn].ast)
    raises = [n for n in walk_no_nested(rf.node) if isinstance(n, ast.Raise)]
    n_res = 0
    for rz in raises:
        g = [(t, pol) for t, pol, pid in rcfg.guards(rcfg.loc1(rz)) if _flag_cond(rf.node, t, pol, flagvars, consts, params(rf)[0]) == (resv, True)]
        if g:
            n_res += 1
            cls = qn(prog, rf, rz.exc.func if isinstance(rz.exc, ast.Call) else rz.exc) if rz.exc is not None else None
            ctx.ob("reserved flag bits are refused with a DecodeError", cls is not None and prog.is_subclass(cls, "aiocoap.oscore.DecodeError"), rf, rz, detail="class %s" % cls)
    ctx.ob("there is a refusal of reserved flag bits", n_res >= 1, rf, rf.node, construct="reserved bits test of _uncompress")
    for r in [n for n in walk_no_nested(rf.node) if isinstance(n, ast.Return)]:
        v = r.value
        ok = (isinstance(v.elts[0], ast.Constant) and v.elts[0].value == b"" and isinstance(v.elts[1], ast.Dict) and not v.elts[1].keys
              and rfl.src(v.elts[3], rfl.node_of(r)) == {(("param", params(rf)[1]), "", True)})
        ctx.ob("_uncompress yields an empty protected map and hands the payload through as the ciphertext", ok, rf, r)


# ---------------------------------------------------------------------------
# C11.e

def _allowed_exc(prog, cls):
    return cls in prog.classes and (prog.is_subclass(cls, PI) or prog.is_subclass(cls, NAPM))


def _origin_nodes(ofi, esc):
    """AST nodes of the origin function whose normalised text is the escape's origin text."""
    out = []
    for n in walk_no_nested(ofi.node):
        if isinstance(n, (ast.Raise, ast.Subscript, ast.Call, ast.Assign, ast.Attribute)) and esc.text in (stmt_text(n, 100), stmt_text(n, 80), stmt_text(n, 60)):
            out.append(n)
    return out


@R.clause("C11.e", "pre-authentication failures are protection errors: escape sets of _extract_encrypted0/_uncompress and of unprotect's own raising sites before decrypt")
def e(ctx):
    prog = ctx.prog
    for cls, base in (("oscore.DecodeError", PI), ("oscore.ReplayError", PI), ("oscore.ProtectionInvalid", "aiocoap.error.Error"), ("oscore.NotAProtectedMessage", "aiocoap.error.Error")):
        ci = prog.cls(cls)
        ctx.ob("%s derives from %s" % (cls, base), prog.is_subclass(ci.qn, base), None, None, construct="class %s" % cls)
    EA = EscapeAnalysis(prog)
    seen = set()
    n_allowed = 0
    for short in (CU + "_uncompress", CU + "_extract_encrypted0"):
        fi = prog.func(short)
        escs = EA.escapes(fi)
        ctx.floor("escapes of %s" % short, len(escs), 1)
        for esc in sorted(escs, key=repr):
            if esc.key() in seen:
                continue
            seen.add(esc.key())
            ofi = prog.func(esc.func) if prog.has_func(esc.func) else fi
            nodes = _origin_nodes(ofi, esc)
            node = nodes[0] if nodes else ofi.node
            ok = _allowed_exc(prog, esc.cls)
            n_allowed += ok
            stmt = stmt_of(ofi, node) if nodes and cfg_of(ofi).locate(node) else node
            ctx.ob("decoding the OSCORE option of an unauthenticated message fails only with ProtectionInvalid (or NotAProtectedMessage)", ok, ofi, stmt,
                   detail="%s can escape from `%s`%s" % (esc.cls, esc.text, (" via " + " > ".join(esc.via)) if esc.via else ""))
    ctx.floor("protection-error origins in option decoding", n_allowed, 2)
    unres = [u for u in EA.unresolved if u[0] in (CU + "_uncompress", CU + "_extract_encrypted0")]
    ctx.need(not unres, "unresolved calls inside the option decoding region: %s" % unres)
    # unprotect: raising sites located in unprotect itself and not dominated by decrypt
    fi = prog.func(CU + "unprotect")
    cfg = cfg_of(fi)
    decs = [cfg.loc1(d) for d in _decrypt_calls(fi)]
    ctx.floor("decrypt calls in unprotect", len(decs), 1)
    escs = EA.escapes(fi)
    own = 0
    for esc in sorted(escs, key=repr):
        if esc.func != fi.short:
            continue
        nodes = [n for n in _origin_nodes(fi, esc) if cfg.locate(n)]
        ctx.need(nodes, "cannot locate the origin `%s` in unprotect" % esc.text)
        pre = [n for n in nodes if not any(cfg.dominates(dn, cfg.loc1(n)) for dn in decs)]
        if not pre:
            continue
        own += 1
        ctx.ob("before decryption unprotect itself fails only with ProtectionInvalid", _allowed_exc(prog, esc.cls), fi, stmt_of(fi, pre[0]),
               detail="%s can escape from `%s`" % (esc.cls, esc.text))
    ctx.floor("raising sites of unprotect before decrypt", own, 8)
    other = sorted({"%s from %s" % (x.cls.split(".")[-1], x.func) for x in escs if x.func != fi.short and not _allowed_exc(prog, x.cls)})
    if other:
        ctx.note("not decided: callees of unprotect other than _extract_encrypted0 can raise %s" % "; ".join(other))
    ctx.extra["C11.e implicit_sites"] = sorted(set(map(str, EA.implicit_sites)))
    ctx.extra["C11.e unresolved (outside the decided region)"] = sorted(set(map(str, EA.unresolved)))


# ---------------------------------------------------------------------------
# C11.f

@R.clause("C11.f", "KID / KID-context comparison and the length check dominate decrypt; decrypt failures propagate; every return is dominated by decrypt")
def f(ctx):
    prog = ctx.prog
    fi = prog.func(CU + "unprotect")
    fl = Flow(prog, fi)
    cfg = fl.cfg
    decs = _decrypt_calls(fi)
    ctx.floor("decrypt calls in unprotect", len(decs), 1)
    ctx.ob("there is exactly one decryption site", len(decs) == 1, fi, decs[-1], detail="%d sites" % len(decs))
    for d in decs:
        dn = cfg.loc1(d)
        guards = cfg.guards(dn)
        facts = {}
        for test, pol, pid in guards:
            t = resolve_local(fi.node, test)
            if isinstance(t, ast.Compare) and len(t.ops) == 1 and isinstance(t.ops[0], (ast.Eq, ast.NotEq)):
                for x, y in ((t.left, t.comparators[0]), (t.comparators[0], t.left)):
                    key = _dict_read(prog, fi, resolve_local(fi.node, x))
                    if key and chain(y):
                        equal = isinstance(t.ops[0], ast.Eq) == pol
                        facts[key] = (chain(y), equal, pid)
        for key, attr, what in (("COSE_KID_CONTEXT", "self.id_context", "ID context"), ("COSE_KID", "self.recipient_id", "key ID")):
            got = facts.get(key)
            ok = got is not None and got[0] == attr and got[1] is True and _is_validation_guard(cfg, got[2])
            ctx.ob("decrypt is reached only when the %s of the OSCORE option equals the context's (mismatch raises)" % what, ok, fi, d,
                   detail="fact at decrypt: %r" % (got[:2] if got else None,), construct="%s comparison dominates decrypt" % what)
        ctx.need(len(d.args) == 4, "decrypt call with unexpected arity")
        c0 = d.args[0]
        Nn = Normalizer()
        if isinstance(c0, ast.Name):
            want = Nn.negate(Nn.cmp(ast.parse("len(%s) < self.alg_aead.tag_bytes + 1" % c0.id, mode="eval").body))
            hit = None
            for test, pol, pid in guards:
                try:
                    cf = Nn.cmp(test)
                except norm.NormError:
                    continue
                if (cf if pol else Nn.negate(cf)) == want:
                    hit = pid
            fresh = hit is not None and {x.key() for x in fl.reaching(c0.id, dn)} == {x.key() for x in fl.reaching(c0.id, hit)}
            ctx.ob("the ciphertext handed to decrypt is at least tag length + 1 (checked on the value that is decrypted)", bool(fresh), fi, d,
                   construct="minimum length check dominates decrypt")
        else:
            ctx.ob("the ciphertext handed to decrypt is a checked local", False, fi, d)
        # failures propagate
        p = cfg.parent.get(id(stmt_of(fi, d)))
        tries = []
        node = stmt_of(fi, d)
        while node is not None and node is not fi.node:
            par = cfg.parent.get(id(node))
            if isinstance(par, ast.Try) and any(node is s for s in par.body):
                tries.append(par)
            node = par
        for tr in tries:
            for h in tr.handlers:
                hn = cfg.loc1(h)
                ctx.ob("a failing decrypt never leads to a normal return (the handler re-raises on all paths)", cfg.exit not in cfg.reach({hn}), fi, h,
                       construct="except %s around decrypt" % (ast.unparse(h.type) if h.type is not None else ""))
        rets = [n for n in walk_no_nested(fi.node) if isinstance(n, ast.Return)]
        ctx.floor("returns of unprotect", len(rets), 1)
        for r in rets:
            rn = cfg.loc1(r)
            ctx.ob("every return of unprotect is dominated by the decryption", cfg.dominates(dn, rn), fi, r)
            if isinstance(r.value, ast.Tuple) and r.value.elts:
                ls = fl.src(r.value.elts[0], rn)
                ctx.ob("the message returned is built from the decrypted plaintext", any(l[1].endswith(".decrypt()") or ".decrypt()[" in l[1] for l in ls), fi, r)
        ctx.ob("falling off the end of unprotect is dominated by the decryption", all(cfg.dominates(dn, p0) for p0, lab in cfg.pred[cfg.exit]), fi, d,
               construct="normal exit of unprotect")


# ---------------------------------------------------------------------------
# C11.g

AEAD_WRAPPERS = ("oscore.AES_CCM", "oscore.AES_GCM", "oscore.ChaCha20Poly1305")
LIB_AEAD = "cryptography.hazmat.primitives.ciphers.aead."


def _raise_class(prog, fi, rz):
    if rz.exc is None:
        return None
    return qn(prog, fi, rz.exc.func if isinstance(rz.exc, ast.Call) else rz.exc)


@R.clause("C11.g", "every AEAD wrapper maps InvalidTag to ProtectionInvalid; AES_CBC.decrypt raises only ProtectionInvalid; all algorithms use a checked wrapper")
def g(ctx):
    prog = ctx.prog
    checked = set()
    for cls in AEAD_WRAPPERS:
        fi = prog.func(cls + ".decrypt")
        checked.add(fi.qn)
        cfg = cfg_of(fi)
        lib = [c for c in walk_no_nested(fi.node) if isinstance(c, ast.Call) and isinstance(c.func, ast.Attribute) and c.func.attr == "decrypt"
               and isinstance(c.func.value, ast.Call) and (qn(prog, fi, c.func.value.func) or "").startswith(LIB_AEAD)]
        ctx.floor("library decrypt calls in %s.decrypt" % cls, len(lib), 1)
        for c in lib:
            st = stmt_of(fi, c)
            par = cfg.parent.get(id(st))
            handlers = par.handlers if isinstance(par, ast.Try) and any(st is s for s in par.body) else []
            catching = []
            for h in handlers:
                names = [] if h.type is None else ([h.type] if not isinstance(h.type, ast.Tuple) else list(h.type.elts))
                qs = [prog.resolve_in_module(fi.module, chain(x) or "?") for x in names]
                if h.type is None or any(q.split(".")[-1] in ("InvalidTag", "Exception", "BaseException") for q in qs):
                    catching.append(h)
            ctx.ob("the library's InvalidTag is caught around the decryption", bool(catching), fi, c, construct="%s.decrypt: handler for InvalidTag" % cls)
            for h in handlers:
                hn = cfg.loc1(h)
                reach = cfg.reach({hn}, include_src=True)
                ctx.ob("a failed tag check never yields a plaintext (the handler cannot reach a normal return)", cfg.exit not in reach, fi, h,
                       construct="%s.decrypt: except %s" % (cls, ast.unparse(h.type) if h.type is not None else ""))
                rz = [cfg.nodes[n].ast for n in reach if cfg.nodes[n].kind == "raise"]
                bad = [r for r in rz if not (_raise_class(prog, fi, r) in prog.classes and prog.is_subclass(_raise_class(prog, fi, r), PI))]
                ctx.ob("the handler raises ProtectionInvalid", bool(rz) and not bad, fi, bad[0] if bad else h,
                       construct="%s.decrypt: %s" % (cls, stmt_text(bad[0]) if bad else "raise ProtectionInvalid"))
            for r in [n for n in walk_no_nested(fi.node) if isinstance(n, ast.Return)]:
                v = resolve_local(fi.node, r.value) if r.value is not None else None
                ctx.ob("the wrapper returns what the library decrypted", v is c, fi, r, construct="%s.decrypt: %s" % (cls, stmt_text(r)))
    EA = EscapeAnalysis(prog)
    fi = prog.func("oscore.AES_CBC.decrypt")
    checked.add(fi.qn)
    escs = EA.escapes(fi)
    ctx.floor("raising sites of AES_CBC.decrypt", len(escs), 2)
    for esc in sorted(escs, key=repr):
        nodes = _origin_nodes(fi, esc) if esc.func == fi.short else []
        ctx.ob("AES_CBC.decrypt fails only with ProtectionInvalid", esc.cls in prog.classes and prog.is_subclass(esc.cls, PI), fi, stmt_of(fi, nodes[0]) if nodes else fi.node,
               detail="%s can escape from `%s`" % (esc.cls, esc.text))
    n = 0
    for sub in prog.subclasses("aiocoap.oscore.SymmetricEncryptionAlgorithm"):
        ci = prog.classes[sub]
        if "value" not in ci.attrs:
            continue  # abstract family class
        n += 1
        m = prog.lookup_method(sub, "decrypt")
        ctx.ob("algorithm %s decrypts through a checked wrapper" % sub.split(".")[-1], m is not None and m.qn in checked, None, None,
               construct="%s.decrypt -> %s" % (sub.split(".")[-1], m.short if m else None))
    ctx.floor("concrete symmetric algorithms", n, 12)


@R.clause("C11.s", "sibling sweep: overrides of the protect/unprotect customisation hooks (reported, not decided)", tier="thorough")
def s(ctx):
    prog = ctx.prog
    for base, hook in (("aiocoap.oscore.CanProtect", "_get_sender_key"), ("aiocoap.oscore.CanUnprotect", "_get_recipient_key"), ("aiocoap.oscore.CanUnprotect", "_post_decrypt_checks"),
                       ("aiocoap.oscore.CanProtect", "protect"), ("aiocoap.oscore.CanUnprotect", "unprotect"), ("aiocoap.oscore.CanProtect", "_split_message")):
        over = [c for c in prog.subclasses(base) if c != base and hook in prog.classes[c].methods]
        for c in over:
            m = prog.classes[c].methods[hook]
            deleg = any(isinstance(x, ast.Call) and isinstance(x.func, ast.Attribute) and x.func.attr == hook and isinstance(x.func.value, ast.Call)
                        and chain(x.func.value.func) == "super" for x in walk_no_nested(m.node))
            ctx.note("SIBLING-NOTE %s.%s overrides the analysed implementation (%s); the clauses are decided for %s.%s only"
                     % (c.replace("aiocoap.", ""), hook, "wraps super().%s" % hook if deleg else "does not delegate", base.replace("aiocoap.", ""), hook))
    ctx.ob("sibling sweep of the customisation hooks completed", True, None, None, construct="overrides of protect/unprotect hooks")


# ---------------------------------------------------------------------------
# seeded faults (sensitivity self-test)
@R.clause("C11.h", "tampering with the partial IV or the length bits of the option is detected: the request identifiers keep the option's PIV bytes verbatim, and every field cut out of the option is preceded by a bounds check")
def h_fields(ctx):
    """Added after two independently written breaking changes: (1) RequestIdentifiers stored the partial IV in
    minimal-length form, so the external AAD no longer depended on the exact PIV bytes of the option and a
    zero-extended PIV still verified; (2) _uncompress checked `not tail` instead of `len(tail) < pivsz` before
    `tail[:pivsz]`, so (thanks to slice tolerance) a flipped length bit announcing more PIV bytes than present went
    unnoticed.  Necessary conditions decided here: the constructor stores kid and partial_iv parameters unmodified;
    in _uncompress every slice `X[:n]` with a non-constant n that is stored as a field is dominated by the failing
    side of `len(X) < n` (or `len(X) - k < n`), whose other side raises DecodeError."""
    ri = ctx.prog.func("oscore.RequestIdentifiers.__init__")
    p = params(ri)
    for attr, par in (("kid", p[0]), ("partial_iv", p[1])):
        st = [n for n in walk_no_nested(ri.node) if isinstance(n, ast.Assign) and any(chain(t) == "self." + attr for t in n.targets)]
        ok = len(st) == 1 and isinstance(st[0].value, ast.Name) and st[0].value.id == par and not writes_to_name(ri.node, par)
        ctx.ob("RequestIdentifiers keeps the %s exactly as given (it enters the external AAD and the nonce)" % attr, ok, ri, st[0] if st else ri.node,
               construct=stmt_text(st[0]) if st else "RequestIdentifiers.__init__: %s" % attr)
    un = ctx.prog.func("oscore.CanUnprotect._uncompress")
    cfg = cfg_of(un)
    N = Normalizer()
    n_checked = 0
    for st in walk_no_nested(un.node):
        if not (isinstance(st, ast.Assign) and isinstance(st.value, ast.Subscript) and isinstance(st.value.slice, ast.Slice)):
            continue
        sl = st.value.slice
        if sl.lower is not None or sl.upper is None or isinstance(sl.upper, ast.Constant):
            continue
        tb = st.targets[0].value if isinstance(st.targets[0], ast.Subscript) else None
        if not (isinstance(tb, ast.Name) and any(isinstance(w, ast.Assign) and isinstance(w.value, ast.Dict) for w in writes_to_name(un.node, tb.id))):
            continue  # not a store into the map of unprotected header fields
        X = st.value.value
        if not isinstance(X, ast.Name):
            continue
        n_checked += 1
        nid = cfg.loc1(st)
        facts = cmp_guard_nf(cfg, nid, N)
        ln, up = Poly.atom("len(%s)" % X.id), N.poly(sl.upper)
        ok = False
        for k in range(0, 3):
            want = N.negate(("lt", ln - Poly.const(k) - up))
            if want in facts:
                # a guard on len(X) - k is only valid if X was shortened by k afterwards; k = 0 is the plain case
                ok = ok or k == 0 or any(isinstance(w, ast.Assign) and match("%s[%d:]" % (X.id, k), w.value) is not None and cfg.dominates(cfg.loc1(w), nid) for w in writes_to_name(un.node, X.id))
        ctx.ob("the field cut out of the option is known to be completely present (len check against the announced length)", ok, un, st,
               detail="guards: %s" % sorted(map(repr, facts)))
    ctx.floor("length-prefixed fields in _uncompress", n_checked, 2)


F_OS = "aiocoap/oscore.py"
R.seed("C11.a", F_OS, "            uri_host=outer_host,\n", "            uri_host=outer_host,\n            uri_path=message.opt.uri_path,\n", "a Class E option copied to the outer message")
R.seed("C11.a", F_OS, "        outer_message.payload = payload\n", "        outer_message.payload = plaintext\n", "plaintext sent as the outer payload")
R.seed("C11.a", F_OS, "_, payload = self._compress(protected, unprotected, ciphertext)", "_, payload = self._compress(protected, unprotected, plaintext)", "plaintext instead of ciphertext into _compress")
R.seed("C11.a", F_OS, "                outer_code = POST\n", "                outer_code = message.code\n", "the inner code leaks as outer code")
R.seed("C11.a", F_OS, "outer_message.set_request_uri(outer_uri)", "outer_message.set_request_uri(proxy_uri)", "path and query of the Proxy-Uri leak to the outer message")
R.seed("C11.a", F_OS, "                uri_host=None,\n                uri_port=None,", "                uri_port=None,", "Uri-Host stays in the inner message")
R.seed("C11.a", F_OS, "CodeStyle.POST_CHANGED = CodeStyle(POST, CHANGED)", "CodeStyle.POST_CHANGED = CodeStyle(POST, CONTENT)", "wrong outer response code")
R.seed("C11.a", F_OS, "        outer_message.direction = Direction.OUTGOING\n", "        outer_message.direction = Direction.OUTGOING\n        outer_message.opt.max_age = message.opt.max_age\n", "a further inner option stored on the outer message")
R.seed("C11.b", F_OS, "            request_id.kid,\n            request_id.partial_iv,\n            class_i_options,", "            request_id.kid,\n            class_i_options,", "request partial IV dropped from the AAD")
R.seed("C11.b", F_OS, "            partial_iv_generated_by = request_id.kid\n", "            partial_iv_generated_by = self.recipient_id\n", "response nonce not bound to the request's kid")
R.seed("C11.b", F_OS, "            self.can_reuse_nonce = False\n            return", "            return", "nonce can be reused more than once")
R.seed("C11.b", F_OS, "            unprotected[COSE_PIV] = partial_iv_short\n", "            pass\n", "fresh partial IV not sent")
R.seed("C11.b", F_OS, "plaintext = alg_symmetric.decrypt(ciphertext, aad, key, nonce)", "plaintext = alg_symmetric.decrypt(ciphertext, aad, key, self.common_iv)", "nonce not derived from the identifiers")
R.seed("C11.c", F_OS, "alg.iv_bytes - 6 - len(piv_generator_id)", "alg.iv_bytes - 5 - len(piv_generator_id)", "ID padding off by one")
R.seed("C11.c", F_OS, "components = s + pad_id + piv_generator_id + pad_piv + partial_iv_short", "components = s + pad_id + partial_iv_short + pad_piv + piv_generator_id", "ID and PIV swapped in the nonce")
R.seed("C11.c", F_OS, 'partial_iv = seqno.to_bytes(5, "big")', 'partial_iv = seqno.to_bytes(5, "little")', "little-endian partial IV")
R.seed("C11.c", F_OS, "self.common_iv[: len(components)]", "self.common_iv[-len(components) :]", "wrong end of the common IV")
R.seed("C11.d", F_OS, '        if firstbyte & COMPRESSION_BITS_RESERVED:\n            raise DecodeError("Protected data uses reserved fields")\n\n', "", "reserved bits accepted")
R.seed("C11.d", F_OS, "option = bytes([firstbyte]) + piv + s_kid_context + kid_data", "option = bytes([firstbyte]) + piv + kid_data + s_kid_context", "writer emits kid before the kid context")
R.seed("C11.d", F_OS, "            tail = tail[1:]\n            unprotected[COSE_KID_CONTEXT]", "            unprotected[COSE_KID_CONTEXT]", "reader does not skip the context length byte")
R.seed("C11.d", F_OS, "            unprotected[COSE_KID_CONTEXT] = tail[:s]\n            tail = tail[s:]", "            unprotected[COSE_KID_CONTEXT] = tail[:s]\n            tail = tail[s + 1 :]", "reader skips one byte too many")
R.seed("C11.d", F_OS, "if len(piv) > COMPRESSION_BITS_N:", "if len(piv) > COMPRESSION_BITS_N + 1:", "8-byte partial IV overflows into the k bit")
R.seed("C11.d", F_OS, "            firstbyte |= COMPRESSION_BIT_H\n            kid_context", "            firstbyte |= COMPRESSION_BIT_GROUP\n            kid_context", "wrong flag bit for the kid context")
R.seed("C11.e", F_OS, 'raise ProtectionInvalid("The protected field is not empty")', 'raise ValueError("The protected field is not empty")', "plain ValueError before authentication")
R.seed("C11.e", F_OS, 'raise NotAProtectedMessage("No Object-Security option present", message)', 'raise KeyError("No Object-Security option present")')
R.seed("C11.e", F_OS, '                raise DecodeError("Partial IV announced but not present")', '                raise IndexError("Partial IV announced but not present")')
R.seed("C11.f", F_OS, '            raise ProtectionInvalid("Sender ID does not match")', '            _alglog.debug("Sender ID does not match")', "KID comparison without effect")
R.seed("C11.f", F_OS, "unprotected.pop(COSE_KID_CONTEXT, self.id_context) != self.id_context", "unprotected.pop(COSE_KID_CONTEXT, None) is None", "ID context no longer compared")
R.seed("C11.f", F_OS, '            _alglog.debug("Unprotecting failed")\n            raise e\n', '            _alglog.debug("Unprotecting failed")\n            plaintext = b"\\x45"\n', "decrypt failure swallowed")
R.seed("C11.f", F_OS, "len(ciphertext) < self.alg_aead.tag_bytes + 1", "len(ciphertext) < self.alg_aead.tag_bytes", "length check off by one")
R.seed("C11.g", F_OS, '            return aead.AESGCM(key).decrypt(iv, ciphertext_and_tag, aad)\n        except cryptography.exceptions.InvalidTag:\n            raise ProtectionInvalid("Tag invalid")',
       '            return aead.AESGCM(key).decrypt(iv, ciphertext_and_tag, aad)\n        except cryptography.exceptions.InvalidTag:\n            return b""', "invalid tag yields an empty plaintext")
R.seed("C11.g", F_OS, '            return aead.ChaCha20Poly1305(key).decrypt(iv, ciphertext_and_tag, aad)\n        except cryptography.exceptions.InvalidTag:\n            raise ProtectionInvalid("Tag invalid")',
       '            return aead.ChaCha20Poly1305(key).decrypt(iv, ciphertext_and_tag, aad)\n        except cryptography.exceptions.InvalidTag:\n            raise', "InvalidTag escapes unconverted")
R.seed("C11.g", F_OS, 'raise ProtectionInvalid("Padding is inconsistent")', 'raise ValueError("Padding is inconsistent")')

R.seed("C11.h", F_OS, "        self.partial_iv = partial_iv\n        self.can_reuse_nonce", "        self.partial_iv = partial_iv.lstrip(b\"\\0\") or b\"\\0\"\n        self.can_reuse_nonce", "canonicalised PIV: a zero-extended PIV in the option still verifies")
R.seed("C11.h", F_OS, "            if len(tail) < pivsz:\n", "            if not tail:\n", "flipped length bits announcing more PIV bytes than present go unnoticed")
