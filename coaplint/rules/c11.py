"""C11 OSCORE protection: structural clauses decided on the syntax tree of oscore.py, and (C11.i) of the users of protect / unprotect;
C11.j executes the option codec on concrete representatives of the admissible range, C11.k decides the key derivation."""

import ast

from ..rulekit import *
from ..norm import Normalizer, Poly
from ..exc import EscapeAnalysis
from . import _kit_c11 as kit

R = Rules(
    "C11",
    explanation=(
        "Structural clauses of OSCORE (RFC 8613) protection decided on the syntax trees of aiocoap/oscore.py "
        "(the module cannot be imported here: cbor2/cryptography are absent).  Two mechanisms local to this module are used besides the "
        "engine: reaching definitions / source tracing (`Flow`, path-sensitive where the function is loop-free) and a path-wise symbolic "
        "executor (`_kit_c11.Runner`: every local is replaced by its value over the entry state along each feasible path, one decision per "
        "normalised condition; maps of COSE header fields and the bytes of the OSCORE option are modelled as finite-domain objects).  "
        "C11.a: reaching definitions of "
        "every value stored into the outer message (constructor keywords in _split_message, later attribute "
        "stores and mutating calls in _split_message/protect) are enumerated and compared with an allow-list of "
        "sources (fixed outer codes, Uri-Host, Observe, the origin of the Proxy-Uri, _compress output whose "
        "third argument is the result of alg_symmetric.encrypt, the encrypted signature, direction and transport "
        "tuning); nothing derived from the plaintext or from other parts of the inner message reaches an outer "
        "store except through encrypt; the outer code is POST / FETCH / the request's response style on exactly the paths RFC 8613 says; "
        "CodeStyle.from_request is evaluated once per Code member (kit.ConcreteRunner) and must return, for code c, only a style whose request code is c.  "
        "C11.b: the external AAD array carries request_id.kid/partial_iv, on every path of unprotect that reaches decrypt the "
        "nonce inputs are the message's own when it carries a partial IV and the request's otherwise (queries on the map of header fields are "
        "values of the moment they are evaluated at, so a named flag survives a later pop); on every returning path of protect the encryption "
        "whose result leaves the function uses a nonce rebuilt from the two components of one single request_id.get_reusable_kid_and_piv() call or "
        "the nonce of one _build_new_nonce() call, an AAD over the caller's request identifiers or -- on a path decided to be a request -- "
        "RequestIdentifiers(own sender ID, the partial IV that went into that very nonce), and with a fresh nonce the map compressed into the "
        "option holds the partial IV of the same _build_new_nonce() call; get_reusable_kid_and_piv clears the reuse flag on every path that "
        "hands out a pair.  C11.c: the nonce value returned by "
        "_construct_nonce equals RFC 8613 section 5.2; a fresh partial IV is the 5-byte big-endian sequence number, sent without leading zeros.  "
        "C11.d: on every path of _compress the option emitted equals the RFC 8613 section 6.1 encoding of exactly the fields present, on "
        "every returning path of _uncompress the fields returned are exactly the windows of the option the flag bits announce (local helpers of the reader -- a nested def "
        "advancing a cursor through nonlocal, a lambda, a functools.partial -- are executed where they are called; a field that is a content-dependent rewrite "
        "of option bytes such as a strip is not the window); reserved bits are refused.  C11.e: the "
        "exception-escape set of _extract_encrypted0/_uncompress and of the raising sites of unprotect before "
        "decryption is inside ProtectionInvalid + NotAProtectedMessage; whether a single byte read of the option can raise IndexError is decided by the symbolic "
        "reader (the read is a decision of the path: in bounds by the facts known when it is evaluated, or an IndexError that must meet a handler).  C11.f: on every feasible path to decrypt a present KID / KID context was compared "
        "equal and the length of what is decrypted was checked, decrypt failures always propagate, every return is dominated by "
        "decrypt.  C11.g: for every concrete algorithm class the decrypt function it resolves to (own, inherited, pulled up with a per-class cipher hook) maps the "
        "library's InvalidTag to ProtectionInvalid, wherever the protecting try statement sits.  C11.h: request identifiers keep kid / partial IV verbatim; every "
        "bounded field cut out of the option is preceded by a check that the option is long enough.  C11.i (decided on the modules as written, "
        "kit.FlowRunner: local helpers -- nested defs, lambdas, functools.partial, methods through self -- are executed with Python's binding rules, a default "
        "argument holding the value of the definition time): on every path of every user of protect / unprotect (the OSCORE transport, the site wrapper) a "
        "response or notification is unprotected with the identifiers returned by the very protect call whose outer message was sent to obtain it, and a "
        "response is protected with the identifiers obtained by unprotecting the request of the pipe it is added to.  C11.j: _compress and _uncompress are "
        "*executed* on concrete representatives of every admissible combination of option fields (kit.ConcreteOptionWriter / ConcreteOptionReader: partial IV of "
        "1..5 bytes, kid of 0..7 bytes, kid context of 0..255 bytes, group flag): the writer must return, the reader must accept what the writer emitted (and the "
        "RFC 8613 encoding) and decode it to the same fields -- no raising path may be taken for admissible input, however its limit is spelled; on the paths of "
        "unprotect that reach the decryption the comparisons over the length / numeric value of the message's partial IV must leave every admissible length and "
        "sequence number (up to 2^40-2) admitted, for requests and for responses.  C11.k: every value the key derivation (_kdf, _kdf_for_keystreams, _kdf_lowlevel) "
        "returns is the HKDF output of that activation over hash = self.hashfun, the salt and secret given and info = [id, self.id_context, algorithm, type, L] with L "
        "the derived length, or is read from a keyed store whose key names every input of the computation (for a store shared between contexts also what is read "
        "from self, transitively through methods called on self; a read inside try/except KeyError is a hit-or-miss decision of the path); derive_keys stores "
        "sender key / recipient key / common IV derived for (sender ID, Key), (recipient ID, Key), (b'', IV).  Not decided: cryptographic "
        "strength, value-level equality of the round trip, implicit flows through branch conditions, callees of "
        "unprotect other than _extract_encrypted0 (their escape sets are listed as notes only), the "
        "deterministic-request override of _get_sender_key.  Assumed by the map model: the values of COSE header maps are never None."
    ),
    rule_text="reaching definitions / source allow-lists on per-function CFGs, path-wise symbolic execution with finite-domain models of the option bytes "
              "and the COSE header maps, dominance and must-not-reach-exit rules, exception-escape sets, polynomial normal forms compared with RFC 8613 "
              "reference encodings, class-hierarchy facts",
)

CP = "oscore.CanProtect."
CU = "oscore.CanUnprotect."
BS = "oscore.BaseSecurityContext."
PI = "aiocoap.oscore.ProtectionInvalid"
NAPM = "aiocoap.oscore.NotAProtectedMessage"
MSGCLS = "aiocoap.message.Message"


# ---------------------------------------------------------------------------
# E7 (local to this module): reaching definitions over the engine's CFG and
# source tracing.  A *leaf* is (root, path, primary):
#   root    ('param', name) | ('self',) | ('const', repr) | ('global', qualified name) | ('exc',) | ('opaque', text)
#   path    attribute / call / index suffixes applied to the root, e.g. '.copy().remote.uri_base'
#   primary True when the leaf denotes (a part of) the value itself, False when it is an ingredient that went
#           through a call as an argument or was stored into the object (weak update).
# Branch conditions are not sources (implicit flows are not decided).


class Def:
    __slots__ = ("name", "nid", "stmt", "value", "index", "kind")

    def __init__(self, name, nid, stmt, value, index, kind):
        self.name, self.nid, self.stmt, self.value, self.index, self.kind = name, nid, stmt, value, index, kind

    def key(self):
        return (self.name, id(self.stmt), self.index)


class Flow:
    def __init__(self, prog, fi, sanitisers=(), opaque_self_calls=(), path_sensitive=False):
        """path_sensitive: a definition reaches a use only along a *feasible* normal-flow path (kit.Runner: one decision per
        normalised condition over the entry state, constant conditions folded), i.e. `x = None` under `if p is None` does not
        reach a use under `if p is not None`.  Only for loop-free functions; statements that are on no enumerated path
        (exception handlers) keep the plain data-flow answer."""
        self.prog = prog
        self.fi = fi
        self.cfg = cfg_of(fi)
        self.rpaths = None
        if path_sensitive and not any(n.kind == "for" or (n.kind == "join" and n.label == "while") for n in self.cfg.nodes):
            self.rpaths = [q.nodes for q in kit.Runner(fi, prog, fork_values=False).paths()]
        self.sanitisers = set(sanitisers)
        self.opaque_self_calls = set(opaque_self_calls)
        self.defs = []
        self.at = {}
        self._feasible = {}
        self.stores = []  # (rootname, path, value or call, nid, stmt, kind)
        a = fi.node.args
        self.params_all = [x.arg for x in a.posonlyargs + a.args + a.kwonlyargs]
        if a.vararg:
            self.params_all.append(a.vararg.arg)
        if a.kwarg:
            self.params_all.append(a.kwarg.arg)
        deco = [ast.unparse(d) for d in getattr(fi.node, "decorator_list", [])]
        self.selfname = None
        if fi.cls is not None and "staticmethod" not in deco and self.params_all:
            self.selfname = self.params_all[0]
        self._collect()
        self._solve()

    # -- definitions ------------------------------------------------------
    def _add(self, name, nid, stmt, value, index, kind):
        self.defs.append(Def(name, nid, stmt, value, index, kind))
        self.at.setdefault(nid, []).append(len(self.defs) - 1)

    def _bind(self, tgt, value, nid, stmt, idx, kind):
        if isinstance(tgt, ast.Name):
            self._add(tgt.id, nid, stmt, value, idx if idx else None, ("unpack" if idx and kind == "assign" else kind))
        elif isinstance(tgt, (ast.Tuple, ast.List)):
            for i, el in enumerate(tgt.elts):
                if isinstance(el, ast.Starred):
                    self._bind(el.value, value, nid, stmt, idx + ("*",), "other")
                else:
                    self._bind(el, value, nid, stmt, idx + (i,), kind)
        elif isinstance(tgt, (ast.Attribute, ast.Subscript)):
            root, path = _root_path(tgt)
            if root is not None:
                self.stores.append((root, path, value, nid, stmt, "store"))

    def _collect(self):
        cfg = self.cfg
        for p in self.params_all:
            self._add(p, cfg.entry, None, None, None, "param")
        for n in cfg.nodes:
            st = n.ast
            if st is None:
                continue
            if n.kind == "stmt":
                if isinstance(st, ast.Assign):
                    for t in st.targets:
                        self._bind(t, st.value, n.id, st, (), "assign")
                elif isinstance(st, ast.AugAssign):
                    if isinstance(st.target, ast.Name):
                        self._add(st.target.id, n.id, st, st.value, None, "aug")
                    else:
                        self._bind(st.target, st.value, n.id, st, (), "assign")
                elif isinstance(st, ast.AnnAssign) and st.value is not None:
                    self._bind(st.target, st.value, n.id, st, (), "assign")
                elif isinstance(st, (ast.FunctionDef, ast.AsyncFunctionDef, ast.ClassDef)):
                    self._add(st.name, n.id, st, None, None, "other")
                elif isinstance(st, ast.Expr) and isinstance(st.value, ast.Call) and isinstance(st.value.func, ast.Attribute):
                    root, path = _root_path(st.value.func)
                    if root is not None:
                        self.stores.append((root, path + "()", st.value, n.id, st, "call"))
            elif n.kind == "for":
                self._bind(st.target, st.iter, n.id, st, (), "for")
            elif n.kind == "with":
                for it in st.items:
                    if it.optional_vars is not None:
                        self._bind(it.optional_vars, it.context_expr, n.id, st, (), "with")
            elif n.kind == "handler":
                if st.name:
                    self._add(st.name, n.id, st, None, None, "handler")
            if n.kind in ("stmt", "test", "return", "raise"):
                for x in walk_no_nested(st):
                    if isinstance(x, ast.NamedExpr) and isinstance(x.target, ast.Name):
                        self._add(x.target.id, n.id, x, x.value, None, "assign")

    def _solve(self):
        cfg = self.cfg
        ids = [n.id for n in cfg.nodes]
        self.IN = {i: frozenset() for i in ids}
        self.OUT = {i: frozenset() for i in ids}
        names_at = {i: {self.defs[d].name for d in self.at.get(i, [])} for i in ids}
        work = list(ids)
        while work:
            n = work.pop(0)
            acc = set()
            for p, lab in cfg.pred[n]:
                acc |= self.OUT[p]
                if lab == "exc":
                    acc |= self.IN[p]
            inn = frozenset(acc)
            gen = self.at.get(n, [])
            out = frozenset(set(gen) | {d for d in inn if self.defs[d].name not in names_at[n]})
            if inn != self.IN[n] or out != self.OUT[n]:
                self.IN[n], self.OUT[n] = inn, out
                for s, _ in cfg.succ[n]:
                    if s not in work:
                        work.append(s)

    def reaching(self, name, nid):
        defs = [self.defs[d] for d in sorted(self.IN[nid]) if self.defs[d].name == name]
        if self.rpaths is None or len(defs) < 2:
            return defs
        key = (name, nid)
        if key not in self._feasible:
            allowed, seen = set(), False
            for nodes in self.rpaths:
                for i, m in enumerate(nodes):
                    if m != nid:
                        continue
                    seen = True
                    for j in range(i - 1, -1, -1):
                        if any(self.defs[d].name == name for d in self.at.get(nodes[j], ())):
                            allowed.add(nodes[j])
                            break
            self._feasible[key] = allowed if seen else None
        allowed = self._feasible[key]
        if allowed is None:
            return defs
        return [d for d in defs if d.nid in allowed]

    def node_of(self, astnode):
        return self.cfg.loc1(astnode)

    # -- sources ------------------------------------------------------------
    @staticmethod
    def _ext(leaf, suffix):
        return (leaf[0], leaf[1] + suffix, True) if leaf[2] else leaf

    @staticmethod
    def _demote(leaves):
        return {(l[0], l[1], False) for l in leaves}

    def src(self, e, nid=None):
        if nid is None:
            nid = self.node_of(e)
        return frozenset(self._src(e, nid, ()))

    def _src(self, e, nid, stack):
        if e is None:
            return set()
        if isinstance(e, ast.Constant):
            return {(("const", repr(e.value)), "", True)}
        if isinstance(e, ast.Name):
            return self._src_name(e.id, nid, stack)
        if isinstance(e, ast.Attribute):
            return {self._ext(l, "." + e.attr) for l in self._src(e.value, nid, stack)}
        if isinstance(e, ast.Subscript):
            if isinstance(e.slice, ast.Constant):
                return {self._ext(l, "[%r]" % (e.slice.value,)) for l in self._src(e.value, nid, stack)}
            out = {self._ext(l, "[]") for l in self._src(e.value, nid, stack)}
            return out | self._demote(self._src(e.slice, nid, stack))
        if isinstance(e, ast.Slice):
            out = set()
            for x in (e.lower, e.upper, e.step):
                out |= self._src(x, nid, stack)
            return out
        if isinstance(e, ast.IfExp):
            return self._src(e.body, nid, stack) | self._src(e.orelse, nid, stack)
        if isinstance(e, ast.Call):
            return self._src_call(e, nid, stack)
        if isinstance(e, ast.Starred):
            return self._src(e.value, nid, stack)
        if isinstance(e, ast.Dict):
            out = set()
            for k in e.keys:
                out |= self._demote(self._src(k, nid, stack))
            for v in e.values:
                out |= self._src(v, nid, stack)
            return out
        if isinstance(e, ast.Lambda):
            return {(("opaque", "lambda"), "", True)}
        if isinstance(e, (ast.ListComp, ast.SetComp, ast.GeneratorExp, ast.DictComp)):
            out = set()
            for g in e.generators:
                out |= self._demote(self._src(g.iter, nid, stack))
            for x in ([e.key, e.value] if isinstance(e, ast.DictComp) else [e.elt]):
                out |= self._src(x, nid, stack)
            return out
        out = set()
        for c in ast.iter_child_nodes(e):
            if isinstance(c, ast.expr):
                out |= self._src(c, nid, stack)
        return out

    def _src_name(self, name, nid, stack):
        if self.selfname is not None and name == self.selfname:
            return {(("self",), "", True)}
        defs = self.reaching(name, nid)
        if not defs:
            return {(("global", self.prog.resolve_in_module(self.fi.module, name)), "", True)}
        out = set()
        for d in defs:
            k = d.key()
            if k in stack:
                continue
            out |= self._src_def(d, stack + (k,))
        for root, path, val, snid, stmt, kind in self.stores:
            if root != name:
                continue
            k = ("store", id(stmt))
            if k in stack:
                continue
            st2 = stack + (k,)
            if kind == "call":
                for a in list(val.args) + [kw.value for kw in val.keywords]:
                    out |= self._demote(self._src(a, snid, st2))
            else:
                out |= self._demote(self._src(val, snid, st2))
        return out

    def _src_def(self, d, stack):
        if d.kind == "param":
            return {(("param", d.name), "", True)}
        if d.kind == "handler":
            return {(("exc",), "", True)}
        if d.kind == "other" or d.value is None:
            return {(("opaque", d.name), "", True)}
        if d.kind == "assign":
            return self._src(d.value, d.nid, stack)
        if d.kind == "unpack":
            v = d.value
            idx = list(d.index)
            while (idx and isinstance(v, (ast.Tuple, ast.List)) and isinstance(idx[0], int) and idx[0] < len(v.elts)
                   and not any(isinstance(x, ast.Starred) for x in v.elts)):
                v = v.elts[idx.pop(0)]
            suffix = "".join("[%r]" % (j,) for j in idx)
            return {self._ext(l, suffix) for l in self._src(v, d.nid, stack)}
        if d.kind == "aug":
            return self._src(d.value, d.nid, stack) | self._src_name(d.name, d.nid, stack)
        if d.kind == "for":
            return {self._ext(l, "[]") for l in self._src(d.value, d.nid, stack)}
        if d.kind == "with":
            return {self._ext(l, ".__enter__()") for l in self._src(d.value, d.nid, stack)}
        return {(("opaque", d.name), "", True)}

    def _src_call(self, e, nid, stack):
        f = e.func
        if isinstance(f, ast.Attribute):
            recv = self._src(f.value, nid, stack)
            res = {self._ext(l, "." + f.attr + "()") for l in recv}
            if f.attr in self.sanitisers:
                return {l for l in res if l[2]} or {(("opaque", "sanitised"), "", True)}
            if self.selfname is not None and chain(f.value) == self.selfname and f.attr in self.opaque_self_calls:
                return {l for l in res if l[2]}
        else:
            res = {self._ext(l, "()") for l in self._src(f, nid, stack)}
        argl = set()
        for a in list(e.args) + [kw.value for kw in e.keywords]:
            argl |= self._demote(self._src(a, nid, stack))
        return res | argl

    # -- terminals: follow plain copies and conditional expressions -------
    def terminals(self, e, nid=None, conds=None, stack=()):
        """[(expr or Def, nid, conds)] where conds are the branch outcomes under which that
        definition is the one flowing in (CFG guards of the defining statement, arms of IfExp)."""
        if nid is None:
            nid = self.node_of(e)
        if conds is None:
            conds = tuple(guard_exprs(self.cfg, nid))
        if isinstance(e, ast.IfExp):
            return (self.terminals(e.body, nid, conds + ((e.test, True),), stack)
                    + self.terminals(e.orelse, nid, conds + ((e.test, False),), stack))
        if isinstance(e, ast.Name) and e.id != self.selfname:
            defs = self.reaching(e.id, nid)
            if defs:
                out = []
                for d in defs:
                    if d.key() in stack:
                        continue
                    c2 = conds + tuple(guard_exprs(self.cfg, d.nid))
                    if d.kind == "assign":
                        out += self.terminals(d.value, d.nid, c2, stack + (d.key(),))
                    else:
                        out.append((d, d.nid, c2))
                return out
        return [(e, nid, conds)]


def _root_path(e):
    """('name', '.a.b[]') for an attribute / subscript chain rooted at a Name."""
    parts = []
    while True:
        if isinstance(e, ast.Attribute):
            parts.append("." + e.attr)
            e = e.value
        elif isinstance(e, ast.Subscript):
            parts.append("[]")
            e = e.value
        else:
            break
    if isinstance(e, ast.Name):
        return e.id, "".join(reversed(parts))
    return None, None


def _neg(e):
    if isinstance(e, ast.Compare) and len(e.ops) == 1:
        flip = {ast.Is: ast.IsNot, ast.IsNot: ast.Is, ast.Eq: ast.NotEq, ast.NotEq: ast.Eq, ast.In: ast.NotIn, ast.NotIn: ast.In,
                ast.Lt: ast.GtE, ast.GtE: ast.Lt, ast.Gt: ast.LtE, ast.LtE: ast.Gt}
        t = type(e.ops[0])
        if t in flip:
            return ast.Compare(left=e.left, ops=[flip[t]()], comparators=e.comparators)
    return None


def cond_has(fnode, conds, pattern, pol, bindings=None):
    """Does the condition list contain `pattern` with polarity `pol` (negated spellings and
    single-assignment locals used as tests are looked through)?"""
    for t, p in conds:
        for tt in (t, resolve_local(fnode, t)):
            while isinstance(tt, ast.UnaryOp) and isinstance(tt.op, ast.Not):
                tt, p = tt.operand, not p
            b = match(pattern, tt, bindings)
            if b is not None and p == pol:
                return b
            nt = _neg(tt)
            if nt is not None:
                b = match(pattern, nt, bindings)
                if b is not None and p == (not pol):
                    return b
    return None


def is_request_cond(fnode, conds, m):
    """True: conds say message `m` is a request; False: a response; None: unknown."""
    if cond_has(fnode, conds, "%s.code.is_request()" % m, True) is not None or cond_has(fnode, conds, "%s.code.is_response()" % m, False) is not None:
        return True
    if cond_has(fnode, conds, "%s.code.is_request()" % m, False) is not None or cond_has(fnode, conds, "%s.code.is_response()" % m, True) is not None:
        return False
    return None


def fmt_leaves(ls):
    def one(l):
        r = l[0]
        head = {"param": lambda: "<%s>" % r[1], "self": lambda: "self", "const": lambda: r[1], "global": lambda: r[1].replace("aiocoap.", ""),
                "exc": lambda: "<exc>", "opaque": lambda: "?" + r[1]}[r[0]]()
        return head + l[1] + ("" if l[2] else "~")
    return ", ".join(sorted(one(l) for l in ls))


def qn(prog, fi, e):
    c = chain(e)
    return prog.resolve_in_module(fi.module, c) if c else None


def self_calls(fi, name):
    """calls `self.<name>(...)` / `cls.<name>(...)` in the function, however the arguments are spelled"""
    return [c for c in walk_no_nested(fi.node) if isinstance(c, ast.Call) and chain(c.func) in ("self." + name, "cls." + name)]


def method_of(prog, short):
    """The function `module.Class.name` denotes: defined in the class itself or inherited (a method pulled up into a base class is
    the same callee for every caller)."""
    if prog.has_func(short):
        return prog.func(short)
    head, _, name = short.rpartition(".")
    cq = "aiocoap." + head
    if cq in prog.classes:
        m = prog.lookup_method(cq, name)
        if m is not None:
            return m
    return prog.func(short)  # AnchorError with the usual message


def bound_args(prog, call, callee_short):
    """The arguments of `call` as a list in the order of the callee's parameters (positional arguments first, then keywords
    matched by parameter name): `f(a, b, c)`, `f(a, b, c=c)` and `f(c=c, a=a, b=b)` are the same call.  None when the call uses
    * / ** or a keyword that is not a positional parameter of the callee (keyword-only arguments are returned separately)."""
    names = params(method_of(prog, callee_short))
    out = list(call.args)
    if any(isinstance(a, ast.Starred) for a in out) or any(k.arg is None for k in call.keywords) or len(out) > len(names):
        return None, {}
    kw = {k.arg: k.value for k in call.keywords}
    for n in names[len(out):]:
        if n not in kw:
            break
        out.append(kw.pop(n))
    if any(k in names for k in kw):
        return None, {}
    return out, kw


ALG_DECRYPT = "oscore.AES_CCM.decrypt"  # signature of SymmetricEncryptionAlgorithm.decrypt(ciphertext_and_tag, aad, key, iv)
ALG_ENCRYPT = "oscore.AES_CCM.encrypt"  # ... and encrypt(plaintext, aad, key, iv)


class _Consts(dict):
    """name -> value of the module-level integer constants; `.all` additionally holds the constant tuples / lists / strings (a
    limit may be looked up in a table: `_LIMITS[0]`)"""
    all = None


def module_int_consts(prog, modshort):
    env, everything = _Consts(), {}
    for st in prog.module(modshort).tree.body:
        if isinstance(st, (ast.Assign, ast.AnnAssign)) and (isinstance(st, ast.AnnAssign) or len(st.targets) == 1) and st.value is not None:
            tgt = st.target if isinstance(st, ast.AnnAssign) else st.targets[0]
            if not isinstance(tgt, ast.Name):
                continue
            try:
                v = kit.consteval_ext(st.value, everything)
            except (norm.NormError, TypeError, ValueError):
                everything.pop(tgt.id, None)
                env.pop(tgt.id, None)
                continue
            everything[tgt.id] = v
            if isinstance(v, int) and not isinstance(v, bool):
                env[tgt.id] = v
            else:
                env.pop(tgt.id, None)
    env.all = everything
    return env


def stmt_of(fi, node):
    return cfg_of(fi).nodes[cfg_of(fi).loc1(node)].ast


# ---------------------------------------------------------------------------
# C11.a

OUTER_KW = {
    # keyword of the outer Message(...) -> allowed sources (root kind, qualified/positional name, path)
    "code": {("global", "aiocoap.numbers.codes.POST", ""), ("global", "aiocoap.numbers.codes.FETCH", ""), ("param", 1, ".code_style.response")},
    "uri_host": {("const", "None", ""), ("param", 0, ".opt.uri_host")},
    "observe": {("const", "None", ""), ("param", 0, ".opt.observe")},
}
OUTER_STORES = {
    # attribute path stored on the outer message -> allowed primary sources
    ".direction": {("global", "aiocoap.message.Direction", ".OUTGOING")},
    ".transport_tuning": {("param", 0, ".transport_tuning")},
    ".opt.oscore": {("self", None, "._compress()[0]")},
    ".payload": {("self", None, "._compress()[1]"), ("global", "aiocoap.oscore._xor_bytes", "()")},
}
# parts of the plain message that are not message content (local configuration)
MESSAGE_UNTAINTED_PATHS = {".transport_tuning", ".direction"}
ENCRYPT_PATHS = {".alg_aead.encrypt()", ".alg_group_enc.encrypt()"}
REF_CODESTYLE = {"FETCH": "CONTENT", "POST": "CHANGED"}  # RFC 8613 section 4.2 / A.11


def _canon(leaf, pnames):
    """Leaf -> (kind, name-or-position, path) comparable with the allow-lists."""
    r, p, _ = leaf
    if r[0] == "param":
        return ("param", pnames.index(r[1]) if r[1] in pnames else r[1], p)
    if r[0] == "self":
        return ("self", None, p)
    return (r[0], r[1] if len(r) > 1 else None, p)


def _tainted(leaf, msg):
    r, p, _ = leaf
    if r == ("param", msg):
        return p not in MESSAGE_UNTAINTED_PATHS
    if r == ("self",) and p.startswith("._split_message()[1]"):
        return True
    return False


def _prim(ls):
    return {l for l in ls if l[2]}


def _outer_uses(fl, is_outer_leaf):
    """All attribute stores and calls through a name that denotes the outer message."""
    fi = fl.fi
    def is_outer(name, nid):
        pl = _prim(fl.src(ast.Name(id=name, ctx=ast.Load()), nid))
        return bool(pl) and all(is_outer_leaf(l) for l in pl)
    stores, calls, passed = [], [], []
    for root, path, val, nid, stmt, kind in fl.stores:
        if kind == "store" and is_outer(root, nid):
            stores.append((path, val, nid, stmt))
    for c in walk_no_nested(fi.node):
        if not isinstance(c, ast.Call):
            continue
        locs = fl.cfg.locate(c)
        if not locs:
            continue
        nid = locs[0]
        if isinstance(c.func, ast.Attribute):
            root, path = _root_path(c.func)
            if root is not None and root != fl.selfname and fl.reaching(root, nid) and is_outer(root, nid):
                calls.append((path + "()", c, nid))
                continue
        for i, a in enumerate(c.args):
            if isinstance(a, ast.Name) and fl.reaching(a.id, nid) and is_outer(a.id, nid):
                passed.append((c, i, nid))
        for kw in c.keywords:
            if isinstance(kw.value, ast.Name) and fl.reaching(kw.value.id, nid) and is_outer(kw.value.id, nid):
                passed.append((c, kw.arg, nid))
    return stores, calls, passed


def _check_store(ctx, fl, fi, pn, msg, path, val, nid, stmt):
    leaves = fl.src(val, nid)
    allow = OUTER_STORES.get(path)
    if allow is None:
        ctx.ob("only oscore option, payload, direction and transport tuning are stored on the outer message", False, fi, stmt,
               detail="store to <outer>%s from %s" % (path, fmt_leaves(leaves)))
        return
    bad = [l for l in _prim(leaves) if _canon(l, pn) not in allow]
    ctx.ob("value stored to <outer>%s comes from its allowed source" % path, not bad, fi, stmt, detail="sources: %s" % fmt_leaves(_prim(leaves)))
    t = [l for l in leaves if _tainted(l, msg)]
    ctx.ob("nothing derived from the plaintext or the inner message reaches <outer>%s except through encrypt" % path, not t, fi, stmt,
           detail=("tainted sources: %s" % fmt_leaves(t)) if t else None)


@R.clause("C11.a", "only ciphertext, routing data and fixed codes reach the outer message; the inner copy has the routing options cleared; CodeStyle table")
def a(ctx):
    prog = ctx.prog
    # ---- _split_message --------------------------------------------------
    fi = prog.func(CP + "_split_message")
    pn = params(fi)
    ctx.need(len(pn) == 2, "_split_message signature changed")
    msg, rid = pn
    fl = Flow(prog, fi, path_sensitive=True)
    cfg = fl.cfg
    ctors = [c for c in walk_no_nested(fi.node) if isinstance(c, ast.Call) and qn(prog, fi, c.func) == MSGCLS]
    ctx.floor("Message(...) constructions in _split_message", len(ctors), 1)
    def is_ctor_leaf(l):
        return l[0] == ("global", MSGCLS) and l[1] == "()"
    rets = [n for n in walk_no_nested(fi.node) if isinstance(n, ast.Return)]
    ctx.floor("return statements of _split_message", len(rets), 1)
    for r in rets:
        ok = isinstance(r.value, ast.Tuple) and len(r.value.elts) == 2
        ctx.need(ok, "_split_message does not return a pair")
        pl = _prim(fl.src(r.value.elts[0], fl.node_of(r)))
        ctx.ob("the first component returned by _split_message is the freshly constructed outer Message", bool(pl) and all(is_ctor_leaf(l) for l in pl), fi, r,
               detail="sources: %s" % fmt_leaves(pl))
        inner = fl.src(r.value.elts[1], fl.node_of(r))
        bad = [l for l in inner if not (l[0][0] in ("const", "global") or (l[0] == ("param", msg) and (l[1].startswith(".copy()") or l[1] == ".code"
                                                                                                    or (not l[2] and l[1] == ".opt.proxy_uri"))))]
        ctx.ob("the plaintext is built only from the cleared copy of the message", not bad and any(l[0] == ("param", msg) for l in inner), fi, r,
               detail="sources: %s" % fmt_leaves(inner))
    seen_codes = set()
    # A constructor keyword (`Message(uri_host=h)`) and a later store on the constructed message (`m.opt.uri_host = h`, `m.code = c`)
    # are the same fact: both are checked against the same allow-list of sources.
    KW_OF_PATH = {".code": "code", ".opt.uri_host": "uri_host", ".opt.observe": "observe"}

    def check_outer_field(name, value, nid, node, construct):
        leaves = fl.src(value, nid)
        bad = [l for l in leaves if _canon(l, pn) not in OUTER_KW[name]]
        ctx.ob("outer %s comes only from its allowed sources" % name, not bad, fi, node, detail="sources: %s" % fmt_leaves(leaves), construct=construct)

    for c in ctors:
        nid = fl.node_of(c)
        # direction / transport_tuning as constructor keywords are the stores protect() otherwise makes on the outer message
        STORE_KW = {"direction": ".direction", "transport_tuning": ".transport_tuning"}
        extra = [kw.arg or "**" for kw in c.keywords if kw.arg not in OUTER_KW and kw.arg not in STORE_KW]
        ctx.ob("the outer Message is constructed from code, uri_host and observe only", not c.args and not extra, fi, c,
               detail="extra arguments: %s" % ", ".join(extra + ["positional"] * len(c.args)))
        for kw in c.keywords:
            if kw.arg in OUTER_KW:
                check_outer_field(kw.arg, kw.value, nid, c, "Message(%s=%s)" % (kw.arg, stmt_text(kw.value, 80)))
            elif kw.arg in STORE_KW:
                _check_store(ctx, fl, fi, pn, msg, STORE_KW[kw.arg], kw.value, nid, c)
    stores, calls, passed = _outer_uses(fl, is_ctor_leaf)
    for path, val, nid, stmt in stores:
        if path in KW_OF_PATH:
            check_outer_field(KW_OF_PATH[path], val, nid, stmt, "Message(%s=%s)" % (KW_OF_PATH[path], stmt_text(val, 80)))
        else:
            _check_store(ctx, fl, fi, pn, msg, path, val, nid, stmt)
    # The outer code table is decided per feasible path (kit.Runner): the code the constructed outer message ends up with (constructor
    # keyword, or a later store to .code) against what the path decided about the message: request without Observe -> POST, request
    # with Observe -> FETCH, response -> the request's code style.  Default-then-overwrite, conditional expressions, swapped arms,
    # a named `is_request` are the same paths.
    bad_code = {"POST": [], "FETCH": [], "RESP": [], "other": []}
    for q in [q for q in kit.Runner(fi, prog).paths() if q.end == "return"]:
        v = q.value
        if not (isinstance(v, ast.Tuple) and len(v.elts) == 2):
            continue
        om = v.elts[0]
        if not (isinstance(om, ast.Call) and qn(prog, fi, om.func) == MSGCLS):
            continue  # reported by the obligation on the returned value above
        code = next((k.value for k in om.keywords if k.arg == "code"), None)
        for ev in q.events:
            if ev[0] == "store" and isinstance(ev[1], ast.Attribute) and ev[1].attr == "code" and ev[1].value is om:
                code = ev[2]
        isreq = obs_none = None
        for cnd, out, _ in q.conds:
            if match("%s.code.is_request()" % msg, cnd) is not None:
                isreq = out
            elif match("%s.code.is_response()" % msg, cnd) is not None and isreq is None:
                isreq = not out
            elif isinstance(cnd, ast.Compare) and len(cnd.ops) == 1 and isinstance(cnd.ops[0], (ast.Is, ast.IsNot, ast.Eq, ast.NotEq)):
                l, r = cnd.left, cnd.comparators[0]
                if (chain(l) == "%s.opt.observe" % msg and _is_none_const(r)) or (chain(r) == "%s.opt.observe" % msg and _is_none_const(l)):
                    obs_none = out == isinstance(cnd.ops[0], (ast.Is, ast.Eq))
        cq = qn(prog, fi, code) if code is not None and chain(code) else None
        kind = {"aiocoap.numbers.codes.POST": "POST", "aiocoap.numbers.codes.FETCH": "FETCH"}.get(cq) or ("RESP" if code is not None and chain(code) == "%s.code_style.response" % rid else "other")
        want = ("POST" if obs_none is True else "FETCH" if obs_none is False else "POST or FETCH by Observe, which is not decided") if isreq is True else ("RESP" if isreq is False else "undecided")
        seen_codes.add(kind)
        if kind != want:
            bad_code[kind].append((q, "outer code %s where %s is due [%s]" % (kit.txt(code)[:40] if code is not None else None, want, _describe(q))))
    for kind, text in (("POST", "outer code POST is chosen exactly for requests without Observe"), ("FETCH", "outer code FETCH is chosen exactly for requests with Observe"),
                       ("RESP", "the outer response code is the request's code style and is used only for responses"), ("other", "the outer code is POST, FETCH or the request's response style")):
        ctx.ob(text, not bad_code[kind], fi, (bad_code[kind][0][0].endnode if bad_code[kind] else ctors[0]), detail=_first(bad_code[kind]), construct="outer code table: %s" % kind)
    ctx.ob("outer codes POST, FETCH and the request's response style are all present", seen_codes == {"POST", "FETCH", "RESP"}, fi, ctors[0],
           detail="found %s" % sorted(seen_codes), construct="outer code table")
    for path, c, nid in calls:
        args = list(c.args) + [kw.value for kw in c.keywords]
        if not args:
            continue
        if path == ".set_request_uri()" and len(c.args) == 1 and not c.keywords:
            leaves = fl.src(c.args[0], nid)
            okp = _prim(leaves) and all(_canon(l, pn) == ("param", 0, ".copy().remote.uri_base") for l in _prim(leaves))
            oks = all(l[0][0] in ("const", "global") or _canon(l, pn) in (("param", 0, ".opt.proxy_uri"), ("param", 0, ".copy().remote.uri_base")) for l in leaves)
            ctx.ob("on the proxy arm the outer URI is the origin (uri_base) of the split Proxy-Uri and nothing else", bool(okp and oks), fi, c,
                   detail="sources: %s" % fmt_leaves(leaves))
        else:
            ctx.ob("no other mutating call is made on the outer message", False, fi, c, detail="<outer>%s with arguments" % path)
    for c, i, nid in passed:
        if c in ctors:
            continue
        ctx.ob("the outer message is not handed to other code inside _split_message", is_log_call(c), fi, c)
    # ---- the inner copy ---------------------------------------------------
    copies = [c for c in walk_no_nested(fi.node) if isinstance(c, ast.Call) and isinstance(c.func, ast.Attribute) and c.func.attr == "copy" and chain(c.func.value) == msg]
    ctx.floor("message.copy(...) sites in _split_message", len(copies), 2)
    nreq = 0
    for c in copies:
        req = is_request_cond(fi.node, tuple(guard_exprs(cfg, fl.node_of(c))), msg)
        if req is False:
            continue
        nreq += 1
        cleared = {kw.arg for kw in c.keywords if isinstance(kw.value, ast.Constant) and kw.value.value is None}
        # Message.copy(**kw) assigns every keyword to the copy's options after copying, so `copy(uri_host=None)` and
        # `x = copy(); x.opt.uri_host = None` (or `del x.opt.uri_host`) are the same fact, provided the store is on every
        # normal path from the copy to the exit (cfg.must_pass).
        cn = fl.node_of(c)
        holders = {d.name for d in fl.defs if d.value is c and d.kind == "assign"}
        for root, path, val, snid, stmt, kind in fl.stores:
            if kind == "store" and root in holders and path.startswith(".opt.") and path.count(".") == 2 and isinstance(val, ast.Constant) and val.value is None \
                    and isinstance(stmt, ast.Assign) and cfg.must_pass(cn, [snid]):
                cleared.add(path[len(".opt."):])
        for dl in walk_no_nested(fi.node):
            if isinstance(dl, ast.Delete):
                for t in dl.targets:
                    r0, p0 = _root_path(t)
                    if r0 in holders and p0 and p0.startswith(".opt.") and p0.count(".") == 2 and cfg.must_pass(cn, cfg.locate(dl)):
                        cleared.add(p0[len(".opt."):])
        want = {"uri_host", "uri_port", "proxy_uri", "proxy_scheme"}
        ctx.ob("the inner copy of a request has Uri-Host, Uri-Port, Proxy-Uri and Proxy-Scheme cleared", want <= cleared, fi, c,
               detail="cleared: %s" % sorted(cleared))
    ctx.floor("request-arm copies", nreq, 1)

    # ---- protect ------------------------------------------------------------
    fi = prog.func(CP + "protect")
    pn = params(fi)
    ctx.need(len(pn) >= 2, "protect signature changed")
    msg = pn[0]
    fl = Flow(prog, fi, sanitisers={"encrypt"}, opaque_self_calls={"_split_message"}, path_sensitive=True)
    def is_split0(l):
        return l[0] == ("self",) and l[1] == "._split_message()[0]"
    splits = self_calls(fi, "_split_message")
    ctx.floor("_split_message calls in protect", len(splits), 1)
    for c in splits:
        sa, _ = bound_args(prog, c, CP + "_split_message")
        ok = sa is not None and len(sa) == 2 and all(isinstance(x, ast.Name) for x in sa) and [x.id for x in sa] == pn[:2] and not writes_to_name(fi.node, pn[0])
        ctx.ob("protect splits the message it was given", ok, fi, c)
    stores, calls, passed = _outer_uses(fl, is_split0)
    # (the two stores that matter are demanded by name below; direction / transport tuning may equally be constructor keywords in _split_message)
    ctx.floor("stores to the outer message in protect", len(stores), 2)
    seen = set()
    for path, val, nid, stmt in stores:
        seen.add(path)
        _check_store(ctx, fl, fi, pn, msg, path, val, nid, stmt)
    ctx.ob("protect stores the OSCORE option and the payload on the outer message", {".opt.oscore", ".payload"} <= seen, fi, fi.node,
           construct="outer stores of protect", detail="stored: %s" % sorted(seen))
    for path, c, nid in calls:
        if list(c.args) or c.keywords:
            ctx.ob("no mutating call is made on the outer message in protect", False, fi, c, detail="<outer>%s with arguments" % path)
    for c, i, nid in passed:
        if is_log_call(c):
            continue
        tgt = None
        if isinstance(c.func, ast.Attribute) and chain(c.func.value) == fl.selfname:
            tgt = prog.lookup_method(fi.cls.qn, c.func.attr)
        elif qn(prog, fi, c.func) in prog.classes:
            m = prog.lookup_method(qn(prog, fi, c.func), "__init__")
            tgt = m
        if tgt is None:
            ctx.ob("the outer message is only handed to methods of the context that can be inspected", False, fi, c)
            continue
        tp = params(tgt)
        pname = tp[i] if isinstance(i, int) and i < len(tp) else (i if i in tp else None)
        ctx.need(pname is not None, "cannot bind the outer message to a parameter of %s" % tgt.short)
        tfl = Flow(prog, tgt)
        mod = [s for s in tfl.stores if s[0] == pname and (s[5] == "store" or list(s[2].args) or s[2].keywords)]
        ctx.ob("%s (default implementation) does not modify the outer message" % tgt.short, not mod, tgt, mod[0][4] if mod else tgt.node,
               construct=stmt_text(mod[0][4]) if mod else "%s(%s)" % (tgt.short, pname))
    comp = self_calls(fi, "_compress")
    ctx.floor("_compress calls in protect", len(comp), 1)
    n_enc = 0
    for c in comp:
        ca, _ = bound_args(prog, c, CP + "_compress")
        ctx.need(ca is not None and len(ca) == 3, "_compress call with unexpected arity")
        pl = _prim(fl.src(ca[2], fl.node_of(c)))
        ok = bool(pl) and all(l[0][0] == "const" or (l[0] == ("self",) and l[1] in ENCRYPT_PATHS) for l in pl)
        n_enc += any(l[0] == ("self",) and l[1] in ENCRYPT_PATHS for l in pl)
        ctx.ob("the body handed to _compress is the output of the context's encryption algorithm", ok, fi, c, detail="sources: %s" % fmt_leaves(pl))
    ctx.ob("some _compress call carries the ciphertext", n_enc >= 1, fi, comp[0], construct="ciphertext into _compress")
    for r in [n for n in walk_no_nested(fi.node) if isinstance(n, ast.Return)]:
        ok = isinstance(r.value, ast.Tuple) and len(r.value.elts) == 2
        pl = _prim(fl.src(r.value.elts[0], fl.node_of(r))) if ok else set()
        ctx.ob("protect returns the outer message it checked", bool(pl) and all(is_split0(l) for l in pl), fi, r)
    # _compress passes the ciphertext through unchanged and keeps it out of the option
    cf = prog.func(CP + "_compress")
    cp = params(cf)
    ctx.need(len(cp) == 3, "_compress signature changed")
    cfl = Flow(prog, cf)
    crets = [n for n in walk_no_nested(cf.node) if isinstance(n, ast.Return)]
    ctx.floor("return statements of _compress", len(crets), 1)
    for r in crets:
        ctx.need(isinstance(r.value, ast.Tuple) and len(r.value.elts) == 2, "_compress does not return a pair")
        l1 = cfl.src(r.value.elts[1], cfl.node_of(r))
        ctx.ob("_compress returns its ciphertext argument unchanged as the body", l1 == {(("param", cp[2]), "", True)}, cf, r, detail="sources: %s" % fmt_leaves(l1))
        l0 = cfl.src(r.value.elts[0], cfl.node_of(r))
        ctx.ob("the option value produced by _compress does not depend on the body", not any(l[0] == ("param", cp[2]) for l in l0), cf, r)

    # ---- CodeStyle table -------------------------------------------------------
    ci = prog.cls("oscore.CodeStyle")
    base = ci.node.bases[0] if ci.node.bases else None
    fields = None
    if isinstance(base, ast.Call) and chain(base.func) in ("namedtuple", "collections.namedtuple") and len(base.args) == 2:
        try:
            fields = tuple(norm.consteval(base.args[1]))
        except norm.NormError:
            fields = None
    if fields is None and any((chain(b) or "").split(".")[-1] == "NamedTuple" for b in ci.node.bases):
        # class CodeStyle(typing.NamedTuple): request: Code; response: Code -- the same tuple type, fields in declaration order
        fields = tuple(st.target.id for st in ci.node.body if isinstance(st, ast.AnnAssign) and isinstance(st.target, ast.Name)
                       and "ClassVar" not in ast.unparse(st.annotation))
    ctx.need(fields is not None, "CodeStyle is not a namedtuple with literal fields")
    ctx.ob("CodeStyle fields are (request, response)", fields == ("request", "response"), None, None, construct="CodeStyle fields", detail=repr(fields))
    mod = prog.module("oscore")
    CSQ = ci.qn
    # the Code members by value (two names of one value are one code)
    codes = {}
    for cname, cexpr in prog.cls("numbers.codes.Code").attrs.items():
        try:
            cv = norm.consteval(cexpr)
        except norm.NormError:
            continue
        if isinstance(cv, int) and not isinstance(cv, bool):
            codes[cname] = cv
    ctx.floor("integer members of numbers.codes.Code", len(codes), 10)
    by_value = {}
    for cname in sorted(codes):
        by_value.setdefault(codes[cname], cname)

    def code_name(e):
        """canonical member name when the expression names a Code member (`FETCH`, `Code.FETCH`, `codes.FETCH`, `aiocoap.FETCH`)"""
        c = chain(e)
        if not c:
            return None
        q = prog.resolve_in_module(mod, c)
        last = q.split(".")[-1]
        if last in codes and (q.startswith("aiocoap.numbers.") or q == "aiocoap." + last):
            return by_value[codes[last]]
        return None

    def is_codestyle(e):
        c = chain(e)
        return c is not None and prog.resolve_in_module(mod, c) == CSQ

    # CodeStyle.<NAME> = CodeStyle(rq, rs) / CodeStyle(request=rq, response=rs) / CodeStyle._make((rq, rs)) at module level; any other
    # value assigned to an attribute of the class there is a class-level constant (e.g. a lookup table) that from_request may read
    table, class_consts = {}, {}
    for st in mod.tree.body:
        pairs = []
        if isinstance(st, ast.Assign) and len(st.targets) == 1:
            t, v = st.targets[0], st.value
            if isinstance(t, ast.Attribute):
                pairs = [(t, v)]
            elif isinstance(t, (ast.Tuple, ast.List)) and isinstance(v, (ast.Tuple, ast.List)) and len(t.elts) == len(v.elts) \
                    and not any(isinstance(x, ast.Starred) for x in list(t.elts) + list(v.elts)):
                pairs = [(a, b) for a, b in zip(t.elts, v.elts) if isinstance(a, ast.Attribute)]
        for t, v in pairs:
            if not is_codestyle(t.value):
                continue
            args = None
            if isinstance(v, ast.Call) and is_codestyle(v.func) and not any(isinstance(a, ast.Starred) for a in v.args) and all(k.arg in fields for k in v.keywords):
                byname = dict(zip(fields, v.args))
                byname.update({k.arg: k.value for k in v.keywords})
                args = [byname.get(f) for f in fields] if len(v.args) + len(v.keywords) == len(fields) else None
            elif isinstance(v, ast.Call) and isinstance(v.func, ast.Attribute) and v.func.attr == "_make" and is_codestyle(v.func.value) and len(v.args) == 1 \
                    and isinstance(v.args[0], (ast.Tuple, ast.List)) and len(v.args[0].elts) == len(fields):
                args = list(v.args[0].elts)
            if args is not None and all(a is not None and code_name(a) is not None for a in args):
                table[t.attr] = tuple(code_name(a) for a in args)
            else:
                class_consts[t.attr] = v
    ctx.floor("CodeStyle constants", len(table), 2)
    for name, (rq, rs) in sorted(table.items()):
        ctx.ob("CodeStyle.%s pairs a request code with the response code of RFC 8613" % name, REF_CODESTYLE.get(rq) == rs, None, None,
               construct="CodeStyle.%s = CodeStyle(%s, %s)" % (name, rq, rs))
    ctx.ob("both RFC 8613 code styles exist", {v[0] for v in table.values()} == set(REF_CODESTYLE), None, None, construct="CodeStyle constants")
    ff = prog.func("oscore.CodeStyle.from_request")
    fp = params(ff)
    ctx.need(len(fp) >= 1, "CodeStyle.from_request signature changed")
    deco = [chain(d) for d in ff.node.decorator_list]
    ctx.need("classmethod" in deco or "staticmethod" in deco, "CodeStyle.from_request is neither a classmethod nor a staticmethod")
    clsname = ff.node.args.args[0].arg if "classmethod" in deco and ff.node.args.args and ff.node.args.args[0].arg not in fp else None
    OTHER = "any other code"

    def is_cls(e):
        return (isinstance(e, ast.Name) and e.id == clsname) or is_codestyle(e)

    def value_of(e):
        """('code', member) | ('style', constant name) | ('none',) for an evaluated expression, else None"""
        if kit.is_sym(e, "code:"):
            return ("code", e.id[len("‹code:"):-1])
        if isinstance(e, ast.Constant) and e.value is None:
            return ("none",)
        if isinstance(e, ast.Attribute) and e.attr in table and is_cls(e.value):
            return ("style", e.attr)
        if isinstance(e, ast.Attribute) and e.attr in fields:
            v = value_of(e.value)
            if v is not None and v[0] == "style":
                return ("code", table[v[1]][fields.index(e.attr)])
        if isinstance(e, ast.Subscript) and isinstance(e.slice, ast.Constant) and isinstance(e.slice.value, int) and not isinstance(e.slice.value, bool):
            v = value_of(e.value)
            if v is not None and v[0] == "style" and -len(fields) <= e.slice.value < len(fields):
                return ("code", table[v[1]][e.slice.value])
        cn = code_name(e)
        return ("code", cn) if cn is not None else None

    def global_value(name):
        # a module-level table (`_STYLES = {FETCH: ..}`); names of functions, classes and imports are not values to substitute
        if name in mod.imports or prog.resolve_in_module(mod, name) in prog.classes or prog.resolve_in_module(mod, name) in prog.funcs:
            return None
        try:
            v = prog.module_const("oscore", name)
        except AnchorError:
            return None
        return v if isinstance(v, (ast.Dict, ast.Tuple, ast.List, ast.Set, ast.DictComp, ast.ListComp, ast.SetComp)) else None

    def attr_value(e):
        return class_consts.get(e.attr) if e.attr in class_consts and is_cls(e.value) else None

    # The mapping request code -> style is obtained by *evaluating* from_request once per Code member and once for a code that is
    # none of them (kit.ConcreteRunner: comparisons, membership tests, table look-ups, loops and comprehensions over the known
    # styles are decided on the concrete argument).  Necessary condition: whatever is returned for code c is a CodeStyle constant
    # whose request code is c, and each constant's own request code does get it returned.  An if-chain, a match statement, a dict
    # / .get() table, a loop over the styles comparing `style.request`, `next(s for s in styles if ..)` are all the same function.
    mapping = {}    # (code, style name) -> return node
    returned = set()
    universe = sorted(set(by_value.values())) + [OTHER]
    for c in universe:
        E = kit.ConcreteRunner(ff, prog, {fp[0]: kit.sym("code:" + c)}, value_of, global_value, attr_value)
        for q in E.paths():
            if q.end not in ("return", "fall"):
                continue
            ctx.need(q.end == "return", "from_request can fall off its end")
            # a decision that had to be *chosen* means the path is not the evaluation of from_request(c): refuse instead of
            # reporting what an infeasible path returns
            ctx.need(not q.facts, "from_request branches on a condition the rule cannot evaluate for a concrete request code: %s" % _describe(q)[:120])
            v = value_of(q.value)
            ctx.need(v is not None and v[0] == "style", "from_request returns something that is not a CodeStyle constant: %s" % kit.txt(q.value)[:60])
            mapping.setdefault((c, v[1]), q.endnode)
            returned.add(c)
    for (c, name), node in sorted(mapping.items(), key=lambda kv: kv[0]):
        ctx.ob("from_request maps a request code to the style with that request code", c == table[name][0], ff, node, detail="code %s -> style %s %s" % (c, name, table[name]),
               construct="from_request: %s -> %s" % (table[name][0], name))
    for name in sorted(table):
        if not any(k == (table[name][0], name) for k in mapping):
            ctx.ob("from_request hands out every code style for its own request code", False, ff, ff.node, detail="from_request(%s) never returns CodeStyle.%s" % (table[name][0], name),
                   construct="from_request: %s -> %s" % (table[name][0], name))
    init = prog.func("oscore.RequestIdentifiers.__init__")
    ip = params(init)
    ctx.need(len(ip) >= 4, "RequestIdentifiers.__init__ signature changed")

    def is_from_request_of(e, pname):
        """CodeStyle.from_request(<pname>), the argument given by position or by keyword"""
        if not (isinstance(e, ast.Call) and isinstance(e.func, ast.Attribute) and e.func.attr == "from_request" and is_codestyle(e.func.value)):
            return False
        args, _ = bound_args(prog, e, "oscore.CodeStyle.from_request")
        return args is not None and len(args) == 1 and isinstance(args[0], ast.Name) and args[0].id == pname

    bad, node = [], init.node
    for q in [q for q in kit.Runner(init, prog).paths() if q.end in ("return", "fall")]:
        st = [ev for ev in q.events if ev[0] == "store" and chain(ev[1]) == "self.code_style"]
        if not st:
            bad.append("self.code_style is not stored on the path [%s]" % _describe(q))
        elif not is_from_request_of(st[-1][2], ip[3]):
            bad.append("stored value: %s" % kit.txt(st[-1][2])[:80])
            node = st[-1][3]
    ctx.ob("RequestIdentifiers derives its code style from the request code", not bad, init, node, detail=bad[0] if bad else None,
           construct="self.code_style = CodeStyle.from_request(request_code)")


# ---------------------------------------------------------------------------
# C11.b

def _is_none_const(e):
    return isinstance(e, ast.Constant) and e.value is None


def _cose_key(prog, fi, e):
    q = qn(prog, fi, e)
    return q.split(".")[-1] if q and q.startswith("aiocoap.oscore.COSE_") else None


class _UnprotectModel(kit.MapModel):
    """unprotect() executed path-wise up to the decryption: the map of unprotected header fields is the third component of
    what _extract_encrypted0 returned (whatever local it is unpacked or indexed into)."""

    def is_map(self, e):
        return (isinstance(e, ast.Subscript) and isinstance(e.slice, ast.Constant) and e.slice.value == 2 and isinstance(e.value, ast.Call)
                and isinstance(e.value.func, ast.Attribute) and e.value.func.attr == "_extract_encrypted0")


def _unprotect_results(ctx, prog):
    """Facts of CanUnprotect.unprotect decided on every feasible path from the entry to the decryption (kit.MapModel): which
    header fields the message carried (one decision per field, whichever way it is queried: `in`, pop with default, get,
    `is None` on the popped value), which comparisons were decided on the way, and the *values* of the arguments of decrypt
    written over the entry state.  "X is used exactly when the message carries a partial IV", "the comparison precedes
    decrypt" become statements about these paths; nesting, guard order, early raise, `and`-ed guards, named conditions and
    the way a default is supplied do not exist at that level."""
    if "unprotect" in _cache(prog):
        return _cache(prog)["unprotect"]
    fi = prog.func(CU + "unprotect")
    pn = params(fi)
    ctx.need(len(pn) == 2, "unprotect signature changed")
    msg, rid = pn
    cfg = cfg_of(fi)
    decs = _decrypt_calls(fi)
    ctx.floor("decrypt calls in unprotect", len(decs), 1)
    M = _UnprotectModel(fi, prog, lambda e: _cose_key(prog, fi, e), "unprotect", fork_values=True, stop_at={n for d in decs for n in cfg.locate(d)})
    paths = [q for q in M.paths() if q.end == "stop"]
    ctx.floor("feasible paths of unprotect that reach the decryption", len(paths), 8)
    res = {"fi": fi, "node": decs[0], "nonce": {0: [], 1: []}, "kinds": {0: set(), 1: set()}, "aad": [], "aad_fresh": [], "aad_kinds": set(), "cmp": {"COSE_KID": [], "COSE_KID_CONTEXT": []},
           "len": [], "n": len(paths), "piv_ranges": []}
    N = Normalizer()
    NC = Normalizer(penv={k: Poly.const(v) for k, v in module_int_consts(prog, "oscore").items()})

    def is_field(e, k):
        return isinstance(e, ast.Name) and e.id == kit.FIELD_PREFIX + k

    for q in paths:
        had = q.state["had"]
        dec = [x for x in ast.walk(q.value) if isinstance(x, ast.Call) and isinstance(x.func, ast.Attribute) and x.func.attr == "decrypt"] if q.value is not None else []
        ctx.need(len(dec) >= 1, "the decryption call is not part of the statement the path stops at")
        dargs, _ = bound_args(prog, dec[0], ALG_DECRYPT)
        ctx.need(dargs is not None and len(dargs) == 4, "decrypt call with unexpected arity")
        dec = dec[0]
        where = _describe(q)
        # ---- nonce inputs
        nonce = dargs[3]
        nargs = bound_args(prog, nonce, BS + "_construct_nonce")[0] if isinstance(nonce, ast.Call) and chain(nonce.func) == "self._construct_nonce" else None
        if nargs is not None and len(nargs) == 3:
            want = {True: "own", False: "request"}.get(had.get("COSE_PIV"), "undecided")
            for pos, own_ok, req_chain in ((0, lambda e: is_field(e, "COSE_PIV"), "%s.partial_iv" % rid), (1, lambda e: chain(e) == "self.recipient_id", "%s.kid" % rid)):
                a = nargs[pos]
                kind = "own" if own_ok(a) else ("request" if chain(a) == req_chain else "other: %s" % kit.txt(a)[:50])
                res["kinds"][pos].add(kind)
                if kind != want:
                    res["nonce"][pos].append((q, "partial IV in the message: %s, nonce input %d is %s [%s]" % (had.get("COSE_PIV", "never looked at"), pos, kind, where)))
        else:
            for pos in (0, 1):
                res["nonce"][pos].append((q, "the nonce is not a _construct_nonce(piv, id, alg) result: %s" % kit.txt(nonce)[:80]))
        # ---- request identifiers in the AAD
        aads = [x for x in ast.walk(dargs[1]) if isinstance(x, ast.Call) and isinstance(x.func, ast.Attribute) and x.func.attr == "_extract_external_aad"]
        if not aads:
            res["aad"].append((q, "the AAD does not come from _extract_external_aad: %s" % kit.txt(dargs[1])[:80]))
        for c in aads:
            xa = bound_args(prog, c, BS + "_extract_external_aad")[0]
            t = xa[1] if xa is not None and len(xa) >= 2 else None
            if isinstance(t, ast.Name) and t.id == rid:
                res["aad_kinds"].add("param")
            elif isinstance(t, ast.Call) and qn(prog, fi, t.func) == "aiocoap.oscore.RequestIdentifiers" and len(bound_args(prog, t, "oscore.RequestIdentifiers.__init__")[0] or ()) >= 2:
                ra = bound_args(prog, t, "oscore.RequestIdentifiers.__init__")[0]
                res["aad_kinds"].add("fresh")
                isreq = any((match("%s.code.is_request()" % msg, cnd) is not None and out) or (match("%s.code.is_response()" % msg, cnd) is not None and not out) for cnd, out, _ in q.conds)
                if not isreq:
                    res["aad"].append((q, "fresh request identifiers on a path that is not decided to be a request [%s]" % where))
                if not (chain(ra[0]) == "self.recipient_id" and is_field(ra[1], "COSE_PIV")):
                    res["aad_fresh"].append((q, "RequestIdentifiers(%s, %s, ...)" % (kit.txt(ra[0])[:40], kit.txt(ra[1])[:40])))
            else:
                res["aad"].append((q, "request identifiers in the AAD: %s" % (kit.txt(t)[:60] if t is not None else None)))
        # ---- KID / KID context comparisons
        for k, attr in (("COSE_KID", "self.recipient_id"), ("COSE_KID_CONTEXT", "self.id_context")):
            if had.get(k) is False:
                continue
            eq = False
            for cnd, out, _ in q.conds:
                if isinstance(cnd, ast.Compare) and len(cnd.ops) == 1 and isinstance(cnd.ops[0], (ast.Eq, ast.NotEq)):
                    l, r = cnd.left, cnd.comparators[0]
                    if (is_field(l, k) and chain(r) == attr) or (is_field(r, k) and chain(l) == attr):
                        eq = eq or (isinstance(cnd.ops[0], ast.Eq) == out)
            if not eq:
                res["cmp"][k].append((q, "%s is %s but decrypt is reached without %s == %s having been decided [%s]" % (k, "present" if k in had else "never looked at", k, attr, where)))
        # ---- what the path demands of the partial IV of the message (C11.j): comparisons over its length / its value as a number only
        if had.get("COSE_PIV") is True:
            by_atom = {}
            for cnd, out, _ in q.conds:
                if not isinstance(cnd, ast.Compare):
                    continue
                try:
                    nf = NC.cmp(cnd)
                except Exception:  # not a comparison of integers the normaliser knows: ignored (the range stays an over-approximation)
                    continue
                if nf[0] == "lt":
                    nf = nf if out else NC.negate(nf)
                elif nf[0] in ("eq", "ne") and (nf[0] == "eq") == out:
                    nf = ("eq", nf[1])
                else:
                    continue  # `!=` decided true excludes one value only: not tracked (the range stays an over-approximation)
                ats = nf[1].atoms()
                if len(ats) == 1:
                    by_atom.setdefault(next(iter(ats)), []).append(nf)
            rng = {}
            for at, conj in by_atom.items():
                kind = "len" if at == "len(%s%s)" % (kit.FIELD_PREFIX, "COSE_PIV") else ("int" if at.startswith("int.from_bytes(%s%s" % (kit.FIELD_PREFIX, "COSE_PIV")) and "big" in at else None)
                if kind is not None:
                    iv = norm.interval_of(conj, at)
                    if iv is not None:
                        rng[kind] = iv
            isreq = None
            for cnd, out, _ in q.conds:
                if match("%s.code.is_request()" % msg, cnd) is not None:
                    isreq = out
                elif match("%s.code.is_response()" % msg, cnd) is not None:
                    isreq = not out
            res["piv_ranges"].append((q, rng, isreq))
        # ---- minimum length of what is decrypted
        c0 = dargs[0]
        lencall = ast.Call(func=ast.Name(id="len", ctx=ast.Load()), args=[c0], keywords=[])
        want = N.negate(N.cmp(ast.Compare(left=lencall, ops=[ast.Lt()], comparators=[ast.parse("self.alg_aead.tag_bytes + 1", mode="eval").body])))
        facts = set()
        for cnd, out, _ in q.conds:
            if isinstance(cnd, ast.Compare) and len(cnd.ops) == 1 and isinstance(cnd.ops[0], (ast.Lt, ast.Gt, ast.LtE, ast.GtE)):
                try:
                    nf = N.cmp(cnd)
                except norm.NormError:
                    continue
                facts.add(nf if out else N.negate(nf))
        if want not in facts and not (want[0] == "lt" and kit.entails_lt0(facts, want[1])):
            res["len"].append((q, "decrypted value %s; comparisons decided on the path: %s" % (kit.txt(c0)[:60], sorted(map(repr, facts)))))
    _cache(prog)["unprotect"] = res
    return res


def _call_component(e):
    """(call, i) when the evaluated expression is component i of the result of a call (`f(..)[i]`, however it was unpacked), else None"""
    if isinstance(e, ast.Subscript) and isinstance(e.slice, ast.Constant) and isinstance(e.slice.value, int) and not isinstance(e.slice.value, bool) \
            and isinstance(e.value, ast.Call):
        return e.value, e.slice.value
    return None


def _is_self_call(e, name):
    return isinstance(e, ast.Call) and chain(e.func) == "self." + name


def _protect_results(ctx, prog):
    """Facts of CanProtect.protect decided on every feasible returning path (kit.Runner: every local replaced by its value over the
    entry state, the result of one call being one shared object, a dict display grown by item stores / update / setdefault being the
    longer display).  What the clause is about are the *arguments of the encryption whose result leaves the function* (it is found
    inside the values stored into the outer message / returned / handed to calls) and the map of unprotected fields handed to the
    _compress call that produces the option.  Which arm of which `if` creates the map, whether the pair of the request travels through a
    local, is unpacked at once or indexed, whether the new-nonce arm or the reuse arm comes first, whether the `None` pair of a request is an
    initialisation, an else arm or a conditional expression does not exist at that level:
      * nonce = self._construct_nonce(X[1], X[0], alg) with X one single call request_id.get_reusable_kid_and_piv() (two calls would
        hand out (None, None) the second time), or nonce = Y[0] with Y = self._build_new_nonce(alg); a pair known to be (None, None)
        folds the `is None` test, so it can never be seen feeding _construct_nonce unless the code really does that;
      * AAD contains self._extract_external_aad(_, T, ..) with T the caller's request_id, or RequestIdentifiers(self.sender_id, P, ..) on a
        path decided to be a request, P being the partial IV that went into the nonce of the same path (X[1] resp. Y[1]);
      * on a path with a fresh nonce the option is _compress(_, U, _)[0] with U[COSE_PIV] = Y[1] of the same Y."""
    if "protect" in _cache(prog):
        return _cache(prog)["protect"]
    fi = prog.func(CP + "protect")
    pn = params(fi)
    ctx.need(len(pn) >= 2, "protect signature changed")
    msg, rid = pn[0], pn[1]
    encs = [c for c in walk_no_nested(fi.node) if isinstance(c, ast.Call) and isinstance(c.func, ast.Attribute) and c.func.attr == "encrypt"]
    ctx.floor("encrypt calls in protect", len(encs), 1)
    paths = [q for q in kit.Runner(fi, prog, fork_values=True).paths() if q.end in ("return", "fall")]
    ctx.floor("returning paths of protect", len(paths), 8)
    res = {"fi": fi, "node": encs[0], "reuse": {0: [], 1: []}, "nonce": [], "aad_src": [], "plain": [], "aad": [], "aad_fresh": [], "aad_kinds": set(),
           "fresh_piv": [], "kinds": {}}

    def reusable_call(c):
        return (isinstance(c, ast.Call) and isinstance(c.func, ast.Attribute) and c.func.attr == "get_reusable_kid_and_piv" and not c.args and not c.keywords
                and isinstance(c.func.value, ast.Name) and c.func.value.id == rid)

    for q in paths:
        where = _describe(q)
        roots = [ev[2] for ev in q.events if ev[0] == "store"] + [ev[1] for ev in q.events if ev[0] in ("call", "del")] + ([q.value] if q.value is not None else [])
        seen, found, options = set(), [], []
        for r in roots:
            for x in ast.walk(r):
                if id(x) in seen:
                    continue
                seen.add(id(x))
                if isinstance(x, ast.Call) and isinstance(x.func, ast.Attribute) and x.func.attr == "encrypt":
                    found.append(x)
                c = _call_component(x)
                if c is not None and c[1] == 0 and _is_self_call(c[0], "_compress") and not any(c[0] is o for o in options):
                    options.append(c[0])
        ctx.need(len(found) >= 1, "a returning path of protect on which no encryption result reaches the outer message [%s]" % where)
        for enc in found:
            ea, _ = bound_args(prog, enc, ALG_ENCRYPT)
            ctx.need(ea is not None and len(ea) == 4, "encrypt call with unexpected arity")
            # ---- nonce
            nonce, kind, piv, Y = ea[3], None, None, None
            nc = _call_component(nonce)
            if _is_self_call(nonce, "_construct_nonce"):
                na, _ = bound_args(prog, nonce, BS + "_construct_nonce")
                ctx.need(na is not None and len(na) == 3, "_construct_nonce call with unexpected arity")
                kind, piv = "reused", na[0]
                comps = [_call_component(na[0]), _call_component(na[1])]
                for pos, idx in ((0, 1), (1, 0)):
                    c = comps[pos]
                    okc = c is not None and reusable_call(c[0]) and c[1] == idx and comps[0] is not None and comps[1] is not None and comps[0][0] is comps[1][0]
                    if not okc:
                        res["reuse"][pos].append((q, "input %d is %s%s [%s]" % (pos, kit.txt(na[pos])[:70],
                                                                               " (kid and partial IV come from two different calls)" if c is not None and reusable_call(c[0]) and c[1] == idx else "", where)))
            elif nc is not None and nc[1] == 0 and _is_self_call(nc[0], "_build_new_nonce"):
                kind, Y = "fresh", nc[0]
                piv = ast.Subscript(value=Y, slice=ast.Constant(value=1), ctx=ast.Load())
            else:
                res["nonce"].append((q, "nonce: %s [%s]" % (kit.txt(nonce)[:80], where)))
            if kind is not None:
                res["kinds"][kind] = res["kinds"].get(kind, 0) + 1
            # ---- plaintext
            pc = _call_component(ea[0])
            if not (pc is not None and pc[1] == 1 and _is_self_call(pc[0], "_split_message")):
                res["plain"].append((q, "encrypted: %s [%s]" % (kit.txt(ea[0])[:80], where)))
            # ---- request identifiers in the AAD
            aads = [x for x in ast.walk(ea[1]) if _is_self_call(x, "_extract_external_aad")]
            if not aads:
                res["aad_src"].append((q, "aad: %s [%s]" % (kit.txt(ea[1])[:80], where)))
            for c in aads:
                xa = bound_args(prog, c, BS + "_extract_external_aad")[0]
                ctx.need(xa is not None and len(xa) >= 2, "_extract_external_aad call with unexpected arity")
                t = xa[1]
                if isinstance(t, ast.Name) and t.id == rid:
                    res["aad_kinds"].add("param")
                elif isinstance(t, ast.Call) and qn(prog, fi, t.func) == "aiocoap.oscore.RequestIdentifiers" and len(bound_args(prog, t, "oscore.RequestIdentifiers.__init__")[0] or ()) >= 2:
                    ra = bound_args(prog, t, "oscore.RequestIdentifiers.__init__")[0]
                    res["aad_kinds"].add("fresh")
                    isreq = any((match("%s.code.is_request()" % msg, cnd) is not None and out) or (match("%s.code.is_response()" % msg, cnd) is not None and not out) for cnd, out, _ in q.conds)
                    if not isreq:
                        res["aad_fresh"].append((q, "fresh request identifiers on a path that is not decided to be a request [%s]" % where))
                    if not (chain(ra[0]) == "self.sender_id" and piv is not None and kit.same_val(ra[1], piv)):
                        res["aad_fresh"].append((q, "RequestIdentifiers(%s, %s, ...) while the nonce is built from the partial IV %s [%s]" % (
                            kit.txt(ra[0])[:40], kit.txt(ra[1])[:60], kit.txt(piv)[:60] if piv is not None else None, where)))
                else:
                    res["aad"].append((q, "request identifiers in the AAD: %s [%s]" % (kit.txt(t)[:60], where)))
            # ---- a fresh partial IV travels in the option
            if kind == "fresh":
                ctx.need(len(options) >= 1, "a returning path of protect on which no self._compress(..)[0] reaches the outer message [%s]" % where)
                for oc in options:
                    oa, _ = bound_args(prog, oc, CP + "_compress")
                    ctx.need(oa is not None and len(oa) == 3, "_compress call with unexpected arity")
                    U = oa[1]
                    ctx.need(isinstance(U, ast.Dict) and all(k is not None for k in U.keys),
                             "the map of unprotected fields given to _compress is not a value the rule can enumerate: %s" % kit.txt(U)[:80])
                    vals = [v for k, v in zip(U.keys, U.values) if _cose_key(prog, fi, k) == "COSE_PIV"]
                    if not (vals and kit.same_val(vals[-1], piv)):
                        res["fresh_piv"].append((q, "fresh nonce, but the option is compressed from %s [%s]" % (kit.txt(U)[:120], where)))
    _cache(prog)["protect"] = res
    return res


@R.clause("C11.b", "request binding: the AAD carries the request's kid and partial IV, a response without PIV derives its nonce from them, nonce reuse is one-shot")
def b(ctx):
    prog = ctx.prog
    # ---- external AAD array ---------------------------------------------------
    fi = prog.func(BS + "_extract_external_aad")
    pn = params(fi)
    ctx.need(len(pn) >= 2, "_extract_external_aad signature changed")
    rid = pn[1]
    # The function is executed path-wise (kit.Runner); a list built by a display and then grown by append / extend / `+=` / `[*a, *b]`
    # is the same value as one longer display, and an element replaced or removed afterwards shows up in that value (or makes it
    # opaque -> refusal), so "positions 2 and 3 of what is serialised" is decided on the array actually handed to cbor.dumps.
    rets = [q for q in kit.Runner(fi, prog, fork_values=False).paths() if q.end in ("return", "fall")]
    ctx.floor("returning paths of _extract_external_aad", len(rets), 1)
    for q in rets:
        t = q.value
        ok = q.end == "return" and isinstance(t, ast.Call) and qn(prog, fi, t.func) == "cbor2.dumps" and len(t.args) == 1 and not t.keywords
        ctx.need(ok, "_extract_external_aad does not return cbor.dumps(<array>)")
        arr = t.args[0]
        ctx.need(isinstance(arr, (ast.List, ast.Tuple)) and not any(isinstance(x, ast.Starred) for x in arr.elts[:4]),
                 "the external AAD is not an array whose first elements the rule can enumerate: %s" % kit.txt(arr)[:80])
        okk = len(arr.elts) >= 5 and chain(arr.elts[2]) == "%s.kid" % rid and chain(arr.elts[3]) == "%s.partial_iv" % rid
        ctx.ob("external_aad = [version, algorithms, request_kid, request_piv, options]: positions 2 and 3 are the request's kid and partial IV", okk, fi, q.endnode,
               detail="array: %s" % kit.txt(arr)[:160], construct="external_aad[2:4] = request_id.kid, request_id.partial_iv")

    # ---- unprotect -----------------------------------------------------------------
    fi = prog.func(CU + "unprotect")
    pn = params(fi)
    ctx.need(len(pn) == 2, "unprotect signature changed")
    msg, rid = pn
    fl = Flow(prog, fi)
    decs = _decrypt_calls(fi)
    ctx.floor("decrypt calls in unprotect", len(decs), 1)
    for d in decs:
        dn = fl.node_of(d)
        da, _ = bound_args(prog, d, ALG_DECRYPT)
        ctx.need(da is not None and len(da) == 4, "decrypt call with unexpected arity")
        aadl = fl.src(da[1], dn)
        ctx.ob("the AAD given to decrypt is derived from _extract_external_aad", any(l[0] == ("self",) and l[1] == "._extract_external_aad()" for l in aadl), fi, d)
        nl = _prim(fl.src(da[3], dn))
        ctx.ob("the nonce given to decrypt is the result of _construct_nonce", bool(nl) and all(l[0] == ("self",) and l[1] == "._construct_nonce()" for l in nl), fi, d,
               detail="sources: %s" % fmt_leaves(nl))
    UP = _unprotect_results(ctx, prog)
    for pos, what in ((0, "partial IV"), (1, "sender")):
        bad = UP["nonce"][pos]
        ctx.ob("nonce input %d: the message's own %s is used exactly when the message carries a partial IV, the request's otherwise" % (pos, what), not bad, fi,
               (bad[0][0].endnode if bad else UP["node"]), detail=_first(bad), construct="nonce input %d of unprotect vs presence of COSE_PIV" % pos)
        ctx.ob("both nonce sources (request identifiers / own partial IV) exist for input %d" % pos, UP["kinds"][pos] == {"request", "own"}, fi, UP["node"],
               construct="nonce input %d of unprotect" % pos, detail="found %s" % sorted(UP["kinds"][pos]))
    ctx.ob("the request identifiers in the AAD are the caller's, or freshly built ones while unprotecting a request", not UP["aad"], fi,
           (UP["aad"][0][0].endnode if UP["aad"] else UP["node"]), detail=_first(UP["aad"]), construct="aad request_id <- parameter | RequestIdentifiers(...) for requests")
    ctx.ob("a request's identifiers are (recipient ID, partial IV of the message)", not UP["aad_fresh"], fi, (UP["aad_fresh"][0][0].endnode if UP["aad_fresh"] else UP["node"]),
           detail=_first(UP["aad_fresh"]), construct="RequestIdentifiers(kid, piv) in unprotect")
    ctx.ob("both kinds of request identifiers (caller's for responses, fresh for requests) reach the AAD", UP["aad_kinds"] == {"param", "fresh"}, fi, UP["node"],
           detail="found %s" % sorted(UP["aad_kinds"]), construct="aad request_id kinds")

    # ---- protect -----------------------------------------------------------------------
    PR = _protect_results(ctx, prog)
    fi, anchor = PR["fi"], PR["node"]
    for pos in (0, 1):
        bad = PR["reuse"][pos]
        ctx.ob("a reused nonce is built from the pair handed out by request_id.get_reusable_kid_and_piv()", not bad, fi, anchor,
               detail=_first(bad), construct="reused nonce input %d" % pos)
    ctx.ob("the nonce given to encrypt is a reused or a freshly built one", not PR["nonce"], fi, anchor, detail=_first(PR["nonce"]),
           construct="nonce given to encrypt in protect")
    ctx.ob("the AAD given to encrypt is derived from _extract_external_aad", not PR["aad_src"], fi, anchor, detail=_first(PR["aad_src"]),
           construct="aad given to encrypt in protect")
    ctx.ob("what is encrypted is the plaintext produced by _split_message", not PR["plain"], fi, anchor, detail=_first(PR["plain"]),
           construct="plaintext given to encrypt in protect")
    ctx.ob("the request identifiers in the AAD are the caller's or freshly built ones", not PR["aad"], fi, anchor, detail=_first(PR["aad"]),
           construct="aad request_id <- parameter | RequestIdentifiers(...) in protect")
    ctx.ob("a request's AAD identifiers are (own sender ID, partial IV of this message), built only for requests", not PR["aad_fresh"], fi, anchor,
           detail=_first(PR["aad_fresh"]), construct="RequestIdentifiers(kid, piv) in protect")
    ctx.ob("both kinds of request identifiers (caller's for responses, fresh for requests) reach the AAD of protect", PR["aad_kinds"] == {"param", "fresh"}, fi, anchor,
           detail="found %s" % sorted(PR["aad_kinds"]), construct="aad request_id kinds in protect")
    ctx.ob("a freshly generated partial IV is always placed into the OSCORE option", not PR["fresh_piv"], fi, anchor, detail=_first(PR["fresh_piv"]),
           construct="unprotected[COSE_PIV] <- _build_new_nonce()[1]")
    ctx.floor("paths of protect that encrypt with a freshly built nonce", PR["kinds"].get("fresh", 0), 1)
    ctx.floor("paths of protect that encrypt with the request's nonce", PR["kinds"].get("reused", 0), 1)

    # ---- one-shot reuse -------------------------------------------------------------------
    # decided per path (kit.Runner): whenever a pair other than (None, None) is returned, the flag was read as true on that path and a
    # false constant has been stored to it before the return.  Guard clause or if/else, the flag hoisted into a local before
    # it is cleared, the pair built before or after the clearing are the same facts.
    fi = prog.func("oscore.RequestIdentifiers.get_reusable_kid_and_piv")
    rets = [q for q in kit.Runner(fi, prog).paths() if q.end in ("return", "fall")]
    ctx.floor("returning paths of get_reusable_kid_and_piv", len(rets), 2)
    nonnull = 0
    for q in rets:
        v = q.value
        ctx.need(q.end == "return" and isinstance(v, ast.Tuple) and len(v.elts) == 2, "get_reusable_kid_and_piv does not return a pair")
        if all(_is_none_const(x) for x in v.elts):
            continue
        nonnull += 1
        r = q.endnode
        ctx.ob("the reusable pair is (kid, partial_iv) of the request", chain(v.elts[0]) == "self.kid" and chain(v.elts[1]) == "self.partial_iv", fi, r,
               detail="returned %s" % kit.txt(v)[:80], construct="return (self.kid, self.partial_iv)")
        was_set = False
        for cnd, out, _ in q.conds:
            tv = kit.truth_view(cnd, out)
            if tv is not None and chain(tv[0]) == "self.can_reuse_nonce" and tv[1] and not kit._is_len(cnd):
                was_set = True
            if match("self.can_reuse_nonce is True", cnd) is not None and out:
                was_set = True
        ctx.ob("the pair is handed out only while can_reuse_nonce is set", was_set, fi, r, detail="path: %s" % _describe(q), construct="pair returned only if self.can_reuse_nonce")
        st = [ev for ev in q.events if ev[0] == "store" and chain(ev[1]) == "self.can_reuse_nonce"]
        cleared = bool(st) and isinstance(st[-1][2], ast.Constant) and not st[-1][2].value
        ctx.ob("handing out the pair clears can_reuse_nonce first (a nonce is reused at most once)", cleared, fi, r,
               detail="stores on the path: %s" % [kit.txt(ev[2])[:30] for ev in st], construct="self.can_reuse_nonce = False before the pair is returned")
    ctx.floor("non-empty returns of get_reusable_kid_and_piv", nonnull, 1)


def _decrypt_calls(fi):
    return [c for c in walk_no_nested(fi.node) if isinstance(c, ast.Call) and isinstance(c.func, ast.Attribute) and c.func.attr == "decrypt"]


# ---------------------------------------------------------------------------
# C11.c

# RFC 8613 section 5.2: nonce = (len(ID_PIV) as one byte | zeros to N-6-len(ID_PIV) | ID_PIV | zeros to 5-len(PIV) | PIV) XOR Common IV
REF_NONCE = [("lenbyte", "ID"), ("zeros", "N - 6 - len(ID)"), ("field", "ID"), ("zeros", "5 - len(PIV)"), ("field", "PIV")]
PIV_BYTES = 5


def _single_byte_of(e):
    """X for bytes([X]) / bytes((X,)), else None."""
    if isinstance(e, ast.Call) and chain(e.func) == "bytes" and len(e.args) == 1 and not e.keywords:
        a = e.args[0]
        if isinstance(a, (ast.List, ast.Tuple)) and len(a.elts) == 1:
            return a.elts[0]
    return None


def _zeros_count(e):
    """N for b"\\0" * N / N * b"\\0" / bytes(N), else None."""
    if isinstance(e, ast.BinOp) and isinstance(e.op, ast.Mult):
        for z, n in ((e.left, e.right), (e.right, e.left)):
            if isinstance(z, ast.Constant) and z.value == b"\0":
                return n
    if isinstance(e, ast.Call) and chain(e.func) == "bytes" and len(e.args) == 1 and not e.keywords and not isinstance(e.args[0], (ast.List, ast.Tuple, ast.Constant)):
        return e.args[0]
    return None


def _layout(ops, N):
    out = []

    def zeros(p):
        if out and out[-1][0] == "zeros":
            out[-1] = ("zeros", out[-1][1] + p)
        else:
            out.append(("zeros", p))

    for o in ops:
        sb = _single_byte_of(o)
        z = _zeros_count(o)
        if sb is None and isinstance(o, ast.Call) and isinstance(o.func, ast.Attribute) and o.func.attr == "to_bytes" and o.args and isinstance(o.args[0], ast.Constant) and o.args[0].value == 1:
            sb = o.func.value  # x.to_bytes(1, <any order>) is bytes([x])
        rj = match("$x.rjust($n, b'\\x00')", o)
        if sb is not None:
            p = N.poly(sb)
            lens = [a for a in p.atoms() if a.startswith("len(")]
            if p == Poly.atom(lens[0]) if len(lens) == 1 else False:
                out.append(("lenbyte", lens[0][4:-1]))
            else:
                out.append(("byte", repr(p)))
        elif z is not None:
            zeros(N.poly(z))
        elif rj is not None:
            # x.rjust(n, b"\0") == b"\0" * (n - len(x)) + x  (for len(x) <= n; a longer x is left alone, exactly like a negative repeat count)
            zeros(N.poly(rj["n"]) - N.poly(ast.Call(func=ast.Name(id="len", ctx=ast.Load()), args=[rj["x"]], keywords=[])))
            out.append(("field", repr(N.poly(rj["x"]))))
        elif isinstance(o, ast.Constant) and o.value == b"":
            continue
        else:
            out.append(("field", repr(N.poly(o))))
    return out


def _concat_operands(e):
    """Operands of a byte-string concatenation written with `+`, b"".join([...]) or a mixture."""
    if isinstance(e, ast.BinOp) and isinstance(e.op, ast.Add):
        return _concat_operands(e.left) + _concat_operands(e.right)
    if isinstance(e, ast.Call) and isinstance(e.func, ast.Attribute) and e.func.attr == "join" and isinstance(e.func.value, ast.Constant) and e.func.value.value == b"" \
            and len(e.args) == 1 and isinstance(e.args[0], (ast.List, ast.Tuple)) and not any(isinstance(x, ast.Starred) for x in e.args[0].elts):
        return [y for x in e.args[0].elts for y in _concat_operands(x)]
    return [e]


def _to_bytes_view(e):
    """(n, length, byteorder) for n.to_bytes(length, byteorder) / int.to_bytes(n, length, byteorder), positional or keyword; else None."""
    if not (isinstance(e, ast.Call) and isinstance(e.func, ast.Attribute) and e.func.attr == "to_bytes"):
        return None
    args = list(e.args)
    n = e.func.value
    if chain(n) == "int" and args:
        n, args = args[0], args[1:]
    kw = {k.arg: k.value for k in e.keywords}
    length = args[0] if args else kw.get("length")
    order = args[1] if len(args) > 1 else kw.get("byteorder")
    lv = length.value if isinstance(length, ast.Constant) else None
    ov = order.value if isinstance(order, ast.Constant) else None
    return n, lv, ov


def _bytewise_xor(v, a, b):
    """Is the evaluated expression v the byte-wise XOR of the byte strings named a and b?  Accepted spellings:
    bytes(x ^ y for x, y in zip(a, b)) with a generator or list comprehension, bytes(map(operator.xor, a, b)),
    bytes(map(lambda x, y: x ^ y, a, b)), bytes(a[i] ^ b[i] for i in range(len(a)))."""
    if not (isinstance(v, ast.Call) and chain(v.func) == "bytes" and len(v.args) == 1 and not v.keywords):
        return False
    g = v.args[0]
    pair = {a, b}
    if isinstance(g, (ast.GeneratorExp, ast.ListComp)) and len(g.generators) == 1 and not g.generators[0].ifs:
        gen = g.generators[0]
        elt = g.elt
        if not (isinstance(elt, ast.BinOp) and isinstance(elt.op, ast.BitXor)):
            return False
        it = gen.iter
        if isinstance(it, ast.Call) and chain(it.func) == "zip" and len(it.args) == 2 and {chain(x) for x in it.args} == pair and not it.keywords \
                and isinstance(gen.target, ast.Tuple) and len(gen.target.elts) == 2 and all(isinstance(t, ast.Name) for t in gen.target.elts):
            return {chain(elt.left), chain(elt.right)} == {t.id for t in gen.target.elts} and gen.target.elts[0].id != gen.target.elts[1].id
        if isinstance(it, ast.Call) and chain(it.func) == "range" and len(it.args) == 1 and isinstance(gen.target, ast.Name) \
                and isinstance(it.args[0], ast.Call) and chain(it.args[0].func) == "len" and len(it.args[0].args) == 1 and chain(it.args[0].args[0]) in pair:
            i = gen.target.id
            subs = [x for x in (elt.left, elt.right) if isinstance(x, ast.Subscript) and chain(x.slice) == i]
            return len(subs) == 2 and {chain(x.value) for x in subs} == pair
        return False
    if isinstance(g, ast.Call) and chain(g.func) == "map" and len(g.args) == 3 and not g.keywords and {chain(x) for x in g.args[1:]} == pair:
        f = g.args[0]
        if chain(f) in ("operator.xor", "xor", "operator.__xor__", "int.__xor__"):
            return True
        if isinstance(f, ast.Lambda) and len(f.args.args) == 2 and isinstance(f.body, ast.BinOp) and isinstance(f.body.op, ast.BitXor):
            return {chain(f.body.left), chain(f.body.right)} == {x.arg for x in f.args.args}
    return False


@R.clause("C11.c", "nonce layout equals RFC 8613 section 5.2 and is XORed with the common IV; fresh partial IVs are 5-byte big-endian sequence numbers")
def c(ctx):
    """All three functions are executed path-wise (kit.Runner): what is compared is the *value* returned on each path, written
    over the parameters -- named temporaries, their order, aliases of self.common_iv, `x or y` against `if not x: x = y`, tuple
    or parenthesised returns do not exist at that level."""
    prog = ctx.prog
    fi = prog.func(BS + "_construct_nonce")
    pn = params(fi)
    ctx.need(len(pn) == 3, "_construct_nonce signature changed")
    piv, pid, alg = pn
    rename = {piv: "PIV", pid: "ID", "%s.iv_bytes" % alg: "N"}
    N = Normalizer(rename=rename)
    rets = [q for q in kit.Runner(fi, prog).paths() if q.end == "return"]
    ctx.floor("returning paths of _construct_nonce", len(rets), 1)
    want = []
    for k, v in REF_NONCE:
        want.append((k, Normalizer().poly(ast.parse(v, mode="eval").body)) if k == "zeros" else (k, v))
    for q in rets:
        v, r = q.value, q.endnode
        ok = isinstance(v, ast.Call) and qn(prog, fi, v.func) == "aiocoap.oscore._xor_bytes" and len(v.args) == 2 and not v.keywords
        if not ok:
            ctx.ob("the nonce is the XOR of the padded components with the context's common IV", False, fi, r, detail="returned value: %s" % kit.txt(v)[:80],
                   construct="nonce = _xor_bytes(common IV, components)")
            continue
        sides = list(v.args)
        civ = [i for i, s in enumerate(sides) if chain(s.value if isinstance(s, ast.Subscript) else s) == "self.common_iv"]
        ctx.ob("the nonce is the XOR of the padded components with the context's common IV", len(civ) == 1, fi, r, construct="nonce = _xor_bytes(common IV, components)")
        if len(civ) != 1:
            continue
        comp = sides[1 - civ[0]]
        s = sides[civ[0]]
        if isinstance(s, ast.Subscript):
            sl = s.slice
            okp = isinstance(sl, ast.Slice) and sl.lower is None and sl.step is None and sl.upper is not None
            if okp:
                # the cut length is len(components) -- or the nonce length N itself, which is what the RFC layout adds up to
                up = sl.upper
                okp = (kit._is_len(up) and kit.same_val(up.args[0], comp)) or N.poly(up) == Poly.atom("N")
            ctx.ob("the common IV is cut to the length of the components from its start", bool(okp), fi, r, detail="common IV operand: %s" % kit.txt(s)[:80],
                   construct="self.common_iv[:len(components)]")
        got = _layout(_concat_operands(comp), N)
        ctx.ob("nonce components = len(ID) | 0-pad to N-6-len(ID) | ID | 0-pad to 5-len(PIV) | PIV (RFC 8613 section 5.2)", got == want, fi, r,
               detail="layout: %r" % (got,), construct="nonce components")
    xf = prog.func("oscore._xor_bytes")
    xp = params(xf, skip_self=False)
    xr = [q for q in kit.Runner(xf, prog).paths() if q.end in ("return", "fall")]
    okx = len(xp) == 2 and bool(xr) and all(q.end == "return" and _bytewise_xor(q.value, xp[0], xp[1]) for q in xr)
    ctx.ob("_xor_bytes is the byte-wise XOR of its two arguments", okx, xf, xr[0].endnode if xr and xr[0].endnode is not None else xf.node, construct="_xor_bytes(a, b)")
    # fresh partial IV
    bf = prog.func(CP + "_build_new_nonce")
    bp = params(bf)
    cparams = params(fi)
    brets = [q for q in kit.Runner(bf, prog).paths() if q.end in ("return", "fall")]
    ctx.floor("returning paths of _build_new_nonce", len(brets), 1)
    kinds = set()
    for q in brets:
        v, r = q.value, q.endnode
        ctx.need(q.end == "return" and isinstance(v, ast.Tuple) and len(v.elts) == 2, "_build_new_nonce does not return a pair")
        call = v.elts[0]
        ok = isinstance(call, ast.Call) and isinstance(call.func, ast.Attribute) and call.func.attr == "_construct_nonce" and chain(call.func.value) == "self"
        ctx.need(ok, "_build_new_nonce does not return a _construct_nonce(...) result first")
        bound = dict(zip(cparams, call.args))
        bound.update({k.arg: k.value for k in call.keywords if k.arg})
        ctx.need(set(bound) == set(cparams) and len(call.args) <= 3, "_construct_nonce call with unexpected arguments")
        full, ident, algo = (bound[x] for x in cparams)
        tb = _to_bytes_view(full)
        okb = tb is not None and tb[1] == PIV_BYTES and tb[2] == "big" and match("self.new_sequence_number()", tb[0]) is not None
        ctx.ob("a fresh partial IV is the new sequence number as %d big-endian bytes" % PIV_BYTES, okb, bf, r,
               detail="partial IV handed to _construct_nonce: %s" % kit.txt(full)[:80], construct="partial_iv = new_sequence_number().to_bytes(5, 'big')")
        ctx.ob("a fresh nonce is built for the own sender ID and the given algorithm", chain(ident) == "self.sender_id" and isinstance(algo, ast.Name) and algo.id == bp[0], bf, r,
               detail="arguments: %s, %s" % (kit.txt(ident)[:40], kit.txt(algo)[:40]), construct="_construct_nonce(partial_iv, self.sender_id, alg)")
        short = v.elts[1]

        def stripped(e):
            return isinstance(e, ast.Call) and isinstance(e.func, ast.Attribute) and e.func.attr == "lstrip" and len(e.args) == 1 and not e.keywords \
                and isinstance(e.args[0], ast.Constant) and e.args[0].value == b"\0" and kit.same_val(e.func.value, full)

        def decided(truthy):
            for cnd, out, _ in q.conds:
                tv = kit.truth_view(cnd, out)
                if tv is not None and stripped(tv[0]) and tv[1] == truthy:
                    return True
            return False

        if stripped(short):
            # returned as is: either unconditionally (then the `zero` case below is missing) or on the path on which it is non-empty
            okk = decided(True) or not any(stripped(kit.truth_view(cnd, out)[0]) for cnd, out, _ in q.conds if kit.truth_view(cnd, out) is not None)
            kinds.add("stripped")
        elif isinstance(short, ast.Constant) and short.value == b"\0":
            okk = decided(False)
            kinds.add("zero")
        else:
            recognisable = isinstance(short, ast.Constant) or kit.same_val(short, full) or (
                isinstance(short, ast.Call) and isinstance(short.func, ast.Attribute) and kit.same_val(short.func.value, full))
            ctx.need(recognisable, "_build_new_nonce: the short partial IV is computed in a way the rule cannot interpret: %s" % kit.txt(short)[:80])
            okk = False
        ctx.ob("the partial IV sent is the same value without leading zero bytes (one zero byte for 0)", okk, bf, r,
               detail="second result %s on the path [%s]" % (kit.txt(short)[:60], _describe(q)), construct="partial_iv.lstrip(b'\\0') or b'\\0'")
    ctx.ob("the partial IV sent is the same value without leading zero bytes (one zero byte for 0)", kinds == {"stripped", "zero"}, bf, bf.node,
           detail="cases found: %s" % sorted(kinds), construct="short partial IV: stripped / single zero byte")


# ---------------------------------------------------------------------------
# C11.d

# RFC 8613 section 6.1 (A.11): flag byte bits 0-2 n, bit 3 k, bit 4 h, bits 5-7 reserved (bit 5: group flag of the groupcomm draft);
# value = flag | PIV (n bytes) | [s (1 byte) | kid context (s bytes)] if h | [kid (rest)] if k; empty when the flag byte is zero.
REF_FLAGS = {"COMPRESSION_BITS_N": 0b111, "COMPRESSION_BIT_K": 0b1000, "COMPRESSION_BIT_H": 0b10000, "COMPRESSION_BITS_RESERVED": 0b11000000}
REF_GROUP_BIT = ("COMPRESSION_BIT_GROUP", 0b100000)
MAX_CONTEXT = 255
K_PIV, K_KID, K_CTX, K_GRP = "COSE_PIV", "COSE_KID", "COSE_KID_CONTEXT", "COSE_COUNTERSIGNATURE0"
OPTION_KEYS = (K_PIV, K_KID, K_CTX, K_GRP)


def _describe(path):
    return "; ".join("%s%s" % ("" if o else "not ", kit.txt(c)[:60]) for c, o, _ in path.conds if not isinstance(c, ast.Constant)) or "<unconditional>"


def _cache(prog):
    """per-Program memo (kept on the Program object itself: an id()-keyed module dict could hand the results of a collected
    Program to a new one that happens to get the same address, e.g. between seeds of the self-test)"""
    c = getattr(prog, "_c11_cache", None)
    if c is None:
        c = {}
        setattr(prog, "_c11_cache", c)
    return c


def _writer_results(ctx, prog, consts):
    """Run _compress symbolically (kit.OptionWriter): on every path the set of fields present in the unprotected map is
    decided, and the option value returned is compared with the RFC 8613 section 6.1 encoding of exactly those fields.
    The comparison is on values (flag byte = (len(PIV), or-ed bits), sequence of byte-string parts), so the order of the
    statements, the way presence is tested (`in`, pop with default, try/except KeyError, get), how the flag is accumulated
    (`|=`, `= .. | ..`, `+`) and where the option is put together (one expression, named segments, early return) are immaterial."""
    if "writer" in _cache(prog):
        return _cache(prog)["writer"]
    wf = prog.func(CP + "_compress")
    pn = params(wf)
    ctx.need(len(pn) == 3, "_compress signature changed")
    U = pn[1]
    W = kit.OptionWriter(wf, prog, consts, U, lambda e: _cose_key(prog, wf, e))
    paths = W.paths()
    rets = [p for p in paths if p.end == "return"]
    ctx.need(bool(rets) and not [p for p in paths if p.end in ("fall", "cut")], "_compress has paths that do not end in return or raise")
    nmask = REF_FLAGS["COMPRESSION_BITS_N"]
    bit = {K_KID: REF_FLAGS["COMPRESSION_BIT_K"], K_CTX: REF_FLAGS["COMPRESSION_BIT_H"], K_GRP: REF_GROUP_BIT[1]}
    res = {"fi": wf, "layout": [], "undecided": [], "piv_limit": [], "ctx_limit": [], "covered": set(), "n": len(rets), "node": rets[0].endnode}
    for p in rets:
        st = p.state
        v = p.value
        ctx.need(isinstance(v, ast.Tuple) and len(v.elts) == 2, "_compress does not return a pair")
        had = st["had"]
        und = [k for k in OPTION_KEYS if k not in had]
        if und:
            res["undecided"].append((p, "presence of %s is never looked at on the path [%s]" % (", ".join(und), _describe(p))))
            continue
        res["covered"].add(tuple(had[k] for k in OPTION_KEYS))
        lenpiv = Poly.atom("len(%s%s)" % (kit.FIELD_PREFIX, K_PIV))
        lenctx = Poly.atom("len(%s%s)" % (kit.FIELD_PREFIX, K_CTX))
        base = lenpiv if had[K_PIV] else Poly.const(0)
        mask = sum(b for k, b in bit.items() if had[k])
        facts = st["nf"]
        zero = False
        if mask == 0:
            if not had[K_PIV] or kit.nf_lt(base - Poly.const(1)) in facts:
                zero = True
            elif kit.nf_lt(-base) not in facts:
                res["layout"].append((p, "the option is not left empty when the flag byte is zero (an empty partial IV is the only field): [%s]" % _describe(p)))
                continue
        want = []
        if not zero:
            want.append(("byte", (base, mask)))
            if had[K_PIV]:
                want.append(("field", K_PIV))
            if had[K_CTX]:
                want += [("byte", (lenctx, 0)), ("field", K_CTX)]
            if had[K_KID]:
                want.append(("field", K_KID))
        got = kit.byte_parts(v.elts[0])
        ctx.need(got is not None, "_compress: the option value is not a concatenation the rule can interpret: %s" % kit.txt(v.elts[0])[:100])
        shown = []
        for g in got:
            if g[0] == "byte":
                fv = W.flagval(g[1])
                shown.append(("byte", fv if fv is not None else kit.txt(g[1])))
            else:
                shown.append(g)
        if shown != want:
            res["layout"].append((p, "fields present: %s; emitted %r, RFC 8613 wants %r" % ([k for k in OPTION_KEYS if had[k]], shown, want)))
        if had[K_PIV] and not zero and not kit.entails_lt0(facts, lenpiv - Poly.const(nmask + 1)):
            res["piv_limit"].append((p, "known on the path: %s" % sorted(map(repr, facts))))
        if had[K_CTX] and not kit.entails_lt0(facts, lenctx - Poly.const(MAX_CONTEXT + 1)):
            res["ctx_limit"].append((p, "known on the path: %s" % sorted(map(repr, facts))))
    _cache(prog)["writer"] = res
    return res


def _reader_results(ctx, prog, consts):
    """Run _uncompress symbolically (kit.OptionReader): every slice of the option is a window (lo, hi) of its bytes, every
    flag test a decision on `B[0] & mask`.  On every returning path the map of fields returned is compared with the RFC 8613
    section 6.1 decoding under the flag bits decided on that path: PIV = bytes 1..1+n, [s = next byte, kid context = the s
    bytes after it] if h, [kid = the rest] if k.  Whether a cursor local is advanced or absolute offsets are used, whether
    fields are cut before or after the cursor moves, tuple assignments, named flag tests and merged checks are immaterial."""
    if "reader" in _cache(prog):
        return _cache(prog)["reader"]
    rf = prog.func(CU + "_uncompress")
    pn = params(rf)
    ctx.need(len(pn) == 2, "_uncompress signature changed")
    P, payload = pn
    Rd = kit.OptionReader(rf, prog, consts, P)
    paths = Rd.paths()
    rets = [p for p in paths if p.end == "return"]
    ctx.need(bool(rets) and not [p for p in paths if p.end in ("fall", "cut")], "_uncompress has paths that do not end in return or raise")
    resv = REF_FLAGS["COMPRESSION_BITS_RESERVED"]
    res = {"fi": rf, "layout": [], "reserved_ret": [], "reserved_raise": [], "n_reserved_raise": 0, "shape": [], "bounds": [], "bounded_fields": set(), "n": len(rets),
           "node": rets[0].endnode, "reads": {}}

    def flag(st, m):
        if st["empty"] is True:
            return False
        a = Poly.atom("B[0]&%d" % m)
        # (implied by a decided fact, not only literally decided: after `n > 4` was decided true, `if n:` is no decision any more)
        if kit.nf_lt(-a) in st["int_facts"] or kit.entails_lt0(st["int_facts"], -a):
            return True
        if kit.nf_lt(a - Poly.const(1)) in st["int_facts"] or kit.entails_lt0(st["int_facts"], a - Poly.const(1)):
            return False
        return None

    # every single-byte read of the option that is evaluated on some path (also on paths that end in a raise): site -> [node, in
    # bounds on every path, first counter-example]
    for p in paths:
        for site, ok, why in p.state["reads"]:
            res["reads"].setdefault(id(site), [site, True, None])
        # an out-of-bounds read that no handler of the function caught: the path leaves with the IndexError of that read
        bad = [r for r in p.state["reads"] if not r[1]]
        if p.end == "raise" and p.exc == "IndexError" and bad and not isinstance(p.endnode, ast.Raise):
            rec = res["reads"][id(bad[-1][0])]
            if rec[1]:
                rec[1], rec[2] = False, "%s [%s]" % (bad[-1][2], _describe(p))
    for p in paths:
        if p.end == "raise" and flag(p.state, resv) is True:
            res["n_reserved_raise"] += 1
            rz = p.endnode
            cls = qn(prog, rf, rz.exc.func if isinstance(rz.exc, ast.Call) else rz.exc) if isinstance(rz, ast.Raise) and rz.exc is not None else None
            if not (cls is not None and cls in prog.classes and prog.is_subclass(cls, "aiocoap.oscore.DecodeError")):
                res["reserved_raise"].append((p, "class %s" % cls))
    for p in rets:
        st = p.state
        Rd.state = st
        v = p.value
        ctx.need(isinstance(v, ast.Tuple) and len(v.elts) == 4, "_uncompress does not return a 4-tuple")
        e0, e1, dd, e3 = v.elts
        if not (isinstance(e0, ast.Constant) and e0.value == b"" and isinstance(e1, ast.Dict) and not e1.keys and isinstance(e3, ast.Name) and e3.id == payload):
            res["shape"].append((p, kit.txt(v)[:100]))
        ctx.need(isinstance(dd, ast.Dict) and all(k is not None for k in dd.keys), "_uncompress: the map of unprotected fields is not built by stores the rule can follow: %s" % kit.txt(dd)[:80])
        if flag(st, resv) is not False:
            res["reserved_ret"].append((p, _describe(p)))
            continue
        fl = {m: flag(st, m) for m in (REF_FLAGS["COMPRESSION_BITS_N"], REF_FLAGS["COMPRESSION_BIT_H"], REF_FLAGS["COMPRESSION_BIT_K"], REF_GROUP_BIT[1])}
        und = [bin(m) for m, t in fl.items() if t is None]
        if und:
            res["layout"].append((p, "flag bits %s are not looked at on the path [%s]" % (", ".join(und), _describe(p))))
            continue
        exp = {}
        off = Poly.const(1)
        if fl[REF_FLAGS["COMPRESSION_BITS_N"]]:
            n = Poly.atom("B[0]&%d" % REF_FLAGS["COMPRESSION_BITS_N"])
            exp[K_PIV] = (off, off + n)
            off = off + n
        if fl[REF_FLAGS["COMPRESSION_BIT_H"]]:
            s = Poly.atom("B[%r]" % (off,))
            exp[K_CTX] = (off + Poly.const(1), off + Poly.const(1) + s)
            off = off + Poly.const(1) + s
        if fl[REF_FLAGS["COMPRESSION_BIT_K"]]:
            exp[K_KID] = (off, None)
        if fl[REF_GROUP_BIT[1]]:
            exp[K_GRP] = "present"
        got = {}
        for k, val in zip(dd.keys, dd.values):
            name = _cose_key(prog, rf, k)
            ctx.need(name is not None, "_uncompress: a key of the unprotected map is not a COSE_* constant: %s" % kit.txt(k))
            if name == K_GRP:
                got[name] = "present"
                continue
            w = Rd.window(val)
            rw = Rd.rewrite_of(val) if w is None else None
            if rw is not None:
                # A content-dependent rewrite of a slice of the option (strip family with an absent / non-empty constant argument,
                # removeprefix / removesuffix, replace, case mapping): for some option contents the result is not the slice, so
                # the field handed on (into the AAD, the nonce, the request identifiers) is not the literal field of the option
                # and distinct options decode alike.  Decided on the value, whatever local or helper it travelled through.
                got[name] = "a rewrite (.%s) of option bytes, not the literal bytes of the option: %s" % (rw[0], kit.txt(val)[:60])
                base = rw[1]
                while Rd.rewrite_of(base) is not None:
                    base = Rd.rewrite_of(base)[1]
                bw = Rd.window(base)
                if bw is not None and bw[1] is not None:
                    # the slice that was rewritten is still a field cut out of the option: it needs its bounds check (C11.h)
                    res["bounded_fields"].add(name)
                    if not kit.entails_ge0(st["int_facts"], Rd.LEN - bw[1]):
                        res["bounds"].append((p, "%s is derived from option[%r:%r] without a check that the option has %r bytes; known: %s" % (
                            name, bw[0], bw[1], bw[1], sorted(map(repr, st["int_facts"])))))
                continue
            if w is None:
                # a value produced by code the executor could not follow (a call that was not expanded) is a refusal, not a verdict
                opaque = [x for x in ast.walk(val) if isinstance(x, ast.Call) and not kit._is_len(x)]
                ctx.need(not opaque, "_uncompress: the value stored for %s is computed by a call the rule cannot follow: %s" % (name, kit.txt(val)[:80]))
            got[name] = w if w is not None else "not a slice of the option: %s" % kit.txt(val)[:60]
            if w is not None and w[1] is not None:
                res["bounded_fields"].add(name)
                if not kit.entails_ge0(st["int_facts"], Rd.LEN - w[1]):
                    res["bounds"].append((p, "%s = option[%r:%r] without a check that the option has %r bytes; known: %s" % (name, w[0], w[1], w[1], sorted(map(repr, st["int_facts"])))))
        if got != exp:
            res["layout"].append((p, "flags %s: returned %r, RFC 8613 wants %r" % ({bin(m): t for m, t in fl.items()}, got, exp)))
    _cache(prog)["reader"] = res
    return res


def _first(lst):
    return lst[0][1] if lst else None


@R.clause("C11.d", "OSCORE option compression: flag constants, the encoding computed by _compress and the decoding computed by _uncompress both equal RFC 8613 section 6.1 on every path; reserved bits refused")
def d(ctx):
    prog = ctx.prog
    consts = module_int_consts(prog, "oscore")
    for name, val in sorted(REF_FLAGS.items()) + [REF_GROUP_BIT]:
        ctx.ob("%s == %s" % (name, bin(val)), consts.get(name) == val, None, None, construct="%s = %s" % (name, bin(consts[name]) if name in consts else "?"))
    allbits = [consts.get(n, 0) for n in list(REF_FLAGS) + [REF_GROUP_BIT[0]]]
    ctx.ob("the flag fields are disjoint and cover the byte", sum(allbits) == 0xFF and all(a & b == 0 for i, a in enumerate(allbits) for b in allbits[i + 1:]), None, None,
           construct="COMPRESSION_* constants")
    nmask = REF_FLAGS["COMPRESSION_BITS_N"]

    # ---- writer ------------------------------------------------------------------
    W = _writer_results(ctx, prog, consts)
    wf = W["fi"]
    ctx.floor("returning paths of _compress", W["n"], 16)
    ctx.ob("every field of the unprotected map is looked at before the option is emitted (none can be dropped silently)", not W["undecided"], wf, W["node"],
           detail=_first(W["undecided"]), construct="fields considered by _compress")
    ctx.ob("every combination of partial IV, kid, kid context and group flag can be encoded", len(W["covered"]) == 16 or bool(W["undecided"]), wf, W["node"],
           detail="%d of 16 combinations reach a return" % len(W["covered"]), construct="field combinations of _compress")
    ctx.ob("writer layout = flag | PIV | [s | kid context] | [kid], flag = len(PIV) | k | h | group for exactly the fields present, empty when the flag byte is zero (RFC 8613 section 6.1)",
           not W["layout"], wf, (W["layout"][0][0].endnode if W["layout"] else W["node"]), detail=_first(W["layout"]), construct="option layout of _compress")
    ctx.ob("a partial IV longer than %d bytes is refused by the writer" % nmask, not W["piv_limit"], wf, W["node"], detail=_first(W["piv_limit"]),
           construct="len(piv) <= COMPRESSION_BITS_N")
    ctx.ob("a length-prefixed segment longer than %d bytes is refused by the writer" % MAX_CONTEXT, not W["ctx_limit"], wf, W["node"], detail=_first(W["ctx_limit"]),
           construct="len(%s) <= %d" % (K_CTX, MAX_CONTEXT))

    # ---- reader -------------------------------------------------------------------
    Rr = _reader_results(ctx, prog, consts)
    rf = Rr["fi"]
    ctx.floor("returning paths of _uncompress", Rr["n"], 16)
    ctx.ob("reader layout = flag | PIV | [s | kid context] | [kid] (RFC 8613 section 6.1): the fields returned are exactly the windows of the option announced by the flag bits",
           not Rr["layout"], rf, (Rr["layout"][0][0].endnode if Rr["layout"] else rf.node), detail=_first(Rr["layout"]), construct="option layout of _uncompress")
    ctx.ob("writer and reader agree on the order and framing of the option fields", not Rr["layout"] and not W["layout"] and not W["undecided"], rf, rf.node,
           detail=_first(Rr["layout"]) or _first(W["layout"]) or _first(W["undecided"]), construct="_compress vs _uncompress")
    ctx.ob("_uncompress returns only when no reserved flag bit is set", not Rr["reserved_ret"], rf, (Rr["reserved_ret"][0][0].endnode if Rr["reserved_ret"] else rf.node),
           detail=_first(Rr["reserved_ret"]), construct="returns of _uncompress vs reserved bits")
    ctx.ob("reserved flag bits are refused with a DecodeError", not Rr["reserved_raise"], rf, (Rr["reserved_raise"][0][0].endnode if Rr["reserved_raise"] else rf.node),
           detail=_first(Rr["reserved_raise"]), construct="exception for reserved bits")
    ctx.ob("there is a refusal of reserved flag bits", Rr["n_reserved_raise"] >= 1, rf, rf.node, construct="reserved bits test of _uncompress")
    ctx.ob("_uncompress yields an empty protected map and hands the payload through as the ciphertext", not Rr["shape"], rf, (Rr["shape"][0][0].endnode if Rr["shape"] else rf.node),
           detail=_first(Rr["shape"]), construct="return shape of _uncompress")


# ---------------------------------------------------------------------------
# C11.e

def _allowed_exc(prog, cls):
    return cls in prog.classes and (prog.is_subclass(cls, PI) or prog.is_subclass(cls, NAPM))


def _origin_nodes(ofi, esc):
    """AST nodes of the origin function whose normalised text is the escape's origin text."""
    out = []
    for n in walk_no_nested(ofi.node):
        if isinstance(n, (ast.Raise, ast.Subscript, ast.Call, ast.Assign, ast.Attribute)) and esc.text in (stmt_text(n, 100), stmt_text(n, 80), stmt_text(n, 60)):
            out.append(n)
    return out


@R.clause("C11.e", "pre-authentication failures are protection errors: escape sets of _extract_encrypted0/_uncompress and of unprotect's own raising sites before decrypt")
def e(ctx):
    prog = ctx.prog
    for cls, base in (("oscore.DecodeError", PI), ("oscore.ReplayError", PI), ("oscore.ProtectionInvalid", "aiocoap.error.Error"), ("oscore.NotAProtectedMessage", "aiocoap.error.Error")):
        ci = prog.cls(cls)
        ctx.ob("%s derives from %s" % (cls, base), prog.is_subclass(ci.qn, base), None, None, construct="class %s" % cls)
    EA = EscapeAnalysis(prog)
    # IndexError of a single-byte read `W[i]` of the option in _uncompress.  The engine decides such a site by looking for a
    # dominating len()/truthiness test *of the same local*; a read through another local that holds a window of the same bytes
    # (`s, tail = tail[:1], tail[1:]` ... `s[0]`, a cursor, an absolute offset guarded by one merged length check) is the same
    # fact in a different spelling.  For these sites the verdict is therefore taken from the symbolic reader (kit.OptionReader,
    # the executor C11.d/C11.h use): on every path, when the read is evaluated, the integer facts of the path must imply
    # 0 <= offset < len(option) (and < the window's end).  A site proven on every path on which it is evaluated cannot raise
    # IndexError (EA.dead_nodes); a site refuted on some path is reported here, whatever the engine's syntactic test says.
    # Sites the reader never evaluates keep the engine's verdict.
    rf = prog.func(CU + "_uncompress")
    reads, reader_refusal = {}, None
    try:
        reads = _reader_results(ctx, prog, module_int_consts(prog, "oscore"))["reads"]
    except AnalysisError as err:
        reader_refusal = err
    for site, ok, why in reads.values():
        EA.dead_nodes.add(id(site))
        if not ok:
            ctx.ob("decoding the OSCORE option of an unauthenticated message fails only with ProtectionInvalid (or NotAProtectedMessage)", False, rf,
                   stmt_of(rf, site) if cfg_of(rf).locate(site) else site, detail="IndexError can escape from `%s`: %s" % (stmt_text(site, 80), why))
    seen = set()
    n_allowed = 0
    for short in (CU + "_uncompress", CU + "_extract_encrypted0"):
        fi = prog.func(short)
        escs = EA.escapes(fi)
        if reader_refusal is not None and any(x.cls == "IndexError" and x.func == rf.short for x in escs):
            # the engine's same-local test found no guard and the semantic decision is not available: refuse rather than guess
            raise reader_refusal
        ctx.floor("escapes of %s" % short, len(escs), 1)
        for esc in sorted(escs, key=repr):
            if esc.key() in seen:
                continue
            seen.add(esc.key())
            ofi = prog.func(esc.func) if prog.has_func(esc.func) else fi
            nodes = _origin_nodes(ofi, esc)
            node = nodes[0] if nodes else ofi.node
            ok = _allowed_exc(prog, esc.cls)
            n_allowed += ok
            stmt = stmt_of(ofi, node) if nodes and cfg_of(ofi).locate(node) else node
            ctx.ob("decoding the OSCORE option of an unauthenticated message fails only with ProtectionInvalid (or NotAProtectedMessage)", ok, ofi, stmt,
                   detail="%s can escape from `%s`%s" % (esc.cls, esc.text, (" via " + " > ".join(esc.via)) if esc.via else ""))
    ctx.floor("protection-error origins in option decoding", n_allowed, 2)
    unres = [u for u in EA.unresolved if u[0] in (CU + "_uncompress", CU + "_extract_encrypted0")]
    ctx.need(not unres, "unresolved calls inside the option decoding region: %s" % unres)
    # unprotect: raising sites located in unprotect itself and not dominated by decrypt
    fi = prog.func(CU + "unprotect")
    cfg = cfg_of(fi)
    decs = [cfg.loc1(d) for d in _decrypt_calls(fi)]
    ctx.floor("decrypt calls in unprotect", len(decs), 1)
    escs = EA.escapes(fi)
    own = 0
    for esc in sorted(escs, key=repr):
        if esc.func != fi.short:
            continue
        nodes = [n for n in _origin_nodes(fi, esc) if cfg.locate(n)]
        ctx.need(nodes, "cannot locate the origin `%s` in unprotect" % esc.text)
        pre = [n for n in nodes if not any(cfg.dominates(dn, cfg.loc1(n)) for dn in decs)]
        if not pre:
            continue
        own += 1
        ctx.ob("before decryption unprotect itself fails only with ProtectionInvalid", _allowed_exc(prog, esc.cls), fi, stmt_of(fi, pre[0]),
               detail="%s can escape from `%s`" % (esc.cls, esc.text))
    # anti-vacuity: every `raise` statement of unprotect that lies before the decryption and outside any try body cannot be
    # caught inside the function, so it must be among the origins enumerated above (merging or splitting checks moves both numbers)
    def in_try_body(n):
        while n is not None and n is not fi.node:
            par = cfg.parent.get(id(n))
            if isinstance(par, ast.Try) and any(n is x for x in par.body):
                return True
            n = par
        return False
    uncatchable = [n for n in walk_no_nested(fi.node) if isinstance(n, ast.Raise) and cfg.locate(n) and cfg.is_reachable(cfg.loc1(n))
                   and not any(cfg.dominates(dn, cfg.loc1(n)) for dn in decs) and not in_try_body(n)]
    ctx.floor("raising sites of unprotect before decrypt", own, max(3, len(uncatchable)))
    other = sorted({"%s from %s" % (x.cls.split(".")[-1], x.func) for x in escs if x.func != fi.short and not _allowed_exc(prog, x.cls)})
    if other:
        ctx.note("not decided: callees of unprotect other than _extract_encrypted0 can raise %s" % "; ".join(other))
    ctx.extra["C11.e implicit_sites"] = sorted(set(map(str, EA.implicit_sites)))
    ctx.extra["C11.e unresolved (outside the decided region)"] = sorted(set(map(str, EA.unresolved)))


# ---------------------------------------------------------------------------
# C11.f

@R.clause("C11.f", "KID / KID-context comparison and the length check dominate decrypt; decrypt failures propagate; every return is dominated by decrypt")
def f(ctx):
    prog = ctx.prog
    fi = prog.func(CU + "unprotect")
    fl = Flow(prog, fi)
    cfg = fl.cfg
    decs = _decrypt_calls(fi)
    ctx.floor("decrypt calls in unprotect", len(decs), 1)
    ctx.ob("there is exactly one decryption site", len(decs) == 1, fi, decs[-1], detail="%d sites" % len(decs))
    UP = _unprotect_results(ctx, prog)
    for key, attr, what in (("COSE_KID_CONTEXT", "self.id_context", "ID context"), ("COSE_KID", "self.recipient_id", "key ID")):
        bad = UP["cmp"][key]
        ctx.ob("decrypt is reached only when the %s of the OSCORE option equals the context's (mismatch raises)" % what, not bad, fi,
               (bad[0][0].endnode if bad else decs[0]), detail=_first(bad), construct="%s comparison dominates decrypt" % what)
    ctx.ob("the ciphertext handed to decrypt is at least tag length + 1 (checked on the value that is decrypted)", not UP["len"], fi,
           (UP["len"][0][0].endnode if UP["len"] else decs[0]), detail=_first(UP["len"]), construct="minimum length check dominates decrypt")
    for d in decs:
        dn = cfg.loc1(d)
        # failures propagate
        p = cfg.parent.get(id(stmt_of(fi, d)))
        tries = []
        node = stmt_of(fi, d)
        while node is not None and node is not fi.node:
            par = cfg.parent.get(id(node))
            if isinstance(par, ast.Try) and any(node is s for s in par.body):
                tries.append(par)
            node = par
        for tr in tries:
            for h in tr.handlers:
                hn = cfg.loc1(h)
                ctx.ob("a failing decrypt never leads to a normal return (the handler re-raises on all paths)", cfg.exit not in cfg.reach({hn}), fi, h,
                       construct="except %s around decrypt" % (ast.unparse(h.type) if h.type is not None else ""))
        rets = [n for n in walk_no_nested(fi.node) if isinstance(n, ast.Return)]
        ctx.floor("returns of unprotect", len(rets), 1)
        for r in rets:
            rn = cfg.loc1(r)
            ctx.ob("every return of unprotect is dominated by the decryption", cfg.dominates(dn, rn), fi, r)
            if isinstance(r.value, ast.Tuple) and r.value.elts:
                ls = fl.src(r.value.elts[0], rn)
                ctx.ob("the message returned is built from the decrypted plaintext", any(l[1].endswith(".decrypt()") or ".decrypt()[" in l[1] for l in ls), fi, r)
        ctx.ob("falling off the end of unprotect is dominated by the decryption", all(cfg.dominates(dn, p0) for p0, lab in cfg.pred[cfg.exit]), fi, d,
               construct="normal exit of unprotect")


# ---------------------------------------------------------------------------
# C11.g

AEAD_WRAPPERS = ("oscore.AES_CCM", "oscore.AES_GCM", "oscore.ChaCha20Poly1305")
LIB_AEAD = "cryptography.hazmat.primitives.ciphers.aead."


def _raise_class(prog, fi, rz):
    if rz.exc is None:
        return None
    return qn(prog, fi, rz.exc.func if isinstance(rz.exc, ast.Call) else rz.exc)


def _protecting_handlers(ctx, prog, fi, node, depth=0):
    """[(function, ExceptHandler)] innermost first: the handlers an exception raised at `node` meets before it leaves `fi`.
    A try statement protects what is (at any depth) inside its body; a `with` block whose context manager is a generator
    function of the package decorated with contextlib.contextmanager protects its body with the handlers around the generator's
    `yield`; any other context manager around the site, and a generator with several yields, is outside the rule's vocabulary."""
    cfg = cfg_of(fi)
    out = []
    child, par = node, cfg.parent.get(id(node))
    while par is not None and child is not fi.node:
        if isinstance(par, ast.Try) and any(child is x for x in par.body):
            out += [(fi, h) for h in par.handlers]
        elif isinstance(par, (ast.With, ast.AsyncWith)) and any(child is x for x in par.body):
            for it in reversed(par.items):
                cm = it.context_expr
                target = None
                if isinstance(cm, ast.Call):
                    q = qn(prog, fi, cm.func)
                    if q in prog.funcs:
                        target = prog.funcs[q]
                    elif isinstance(cm.func, ast.Attribute) and chain(cm.func.value) in ("self", "cls") and fi.cls is not None:
                        target = prog.lookup_method(fi.cls.qn, cm.func.attr)
                ctx.need(target is not None and depth < 3, "the library decryption in %s sits in a `with %s` block whose context manager the rule cannot interpret" % (fi.short, stmt_text(cm, 60)))
                decos = [prog.resolve_in_module(target.module, chain(d) or "?") for d in target.node.decorator_list]
                ys = [y for y in walk_no_nested(target.node) if isinstance(y, (ast.Yield, ast.YieldFrom))]
                ctx.need(any(d.split(".")[-1] == "contextmanager" for d in decos) and len(ys) == 1 and isinstance(ys[0], ast.Yield),
                         "%s used as a context manager around the library decryption is not a single-yield contextlib.contextmanager generator" % target.short)
                out += _protecting_handlers(ctx, prog, target, ys[0], depth + 1)
        child, par = par, cfg.parent.get(id(par))
    return out


def _catches_invalid_tag(prog, hfi, h):
    if h.type is None:
        return True
    names = list(h.type.elts) if isinstance(h.type, ast.Tuple) else [h.type]
    qs = [prog.resolve_in_module(hfi.module, chain(x) or "?") for x in names]
    return any(q.split(".")[-1] in ("InvalidTag", "Exception", "BaseException") for q in qs)


@R.clause("C11.g", "every AEAD wrapper maps InvalidTag to ProtectionInvalid; AES_CBC.decrypt raises only ProtectionInvalid; all algorithms use a checked wrapper")
def g(ctx):
    """Decided per *concrete* algorithm class A (a subclass of SymmetricEncryptionAlgorithm that has a COSE `value`): the function
    A.decrypt resolves to along the MRO -- defined in A, in its family class, or pulled up into a common base with a per-class hook
    that builds the library cipher -- must be a checked wrapper: every call `X.decrypt(..)` on a cipher object of the cryptography
    library (constructed in place, named first, passed through an expanded helper, or produced by a hook method `cls.h(..)` which for
    A returns such a constructor) is protected by a handler that catches InvalidTag, no handler on the way can complete normally
    (a swallowed tag failure would yield a plaintext or None), every raise reachable from these handlers is a ProtectionInvalid, and
    the wrapper returns what the library returned.  Where the try statement sits (around the call, around a block containing it,
    in a context manager) and whether the three families share the code is immaterial."""
    prog = ctx.prog
    cbc = prog.func("oscore.AES_CBC.decrypt")
    concrete = []
    for sub in sorted(prog.subclasses("aiocoap.oscore.SymmetricEncryptionAlgorithm")):
        if "value" in prog.classes[sub].attrs:  # others are abstract family classes
            concrete.append(sub)
    ctx.floor("concrete symmetric algorithms", len(concrete), 12)
    wrappers = {}   # decrypt function -> [concrete classes using it]
    for sub in concrete:
        m = prog.lookup_method(sub, "decrypt")
        abstract = m is not None and any((chain(d) or "").split(".")[-1] == "abstractmethod" for d in m.node.decorator_list)
        ctx.ob("algorithm %s decrypts through a checked wrapper" % sub.split(".")[-1], m is not None and not abstract, None, None,
               construct="%s.decrypt -> %s" % (sub.split(".")[-1], m.short if m else None))
        if m is not None and not abstract and m.qn != cbc.qn:
            wrappers.setdefault(m.qn, (m, []))[1].append(sub)
    ctx.floor("distinct AEAD decrypt wrappers", len(wrappers), 1)
    n_lib = 0
    for _, (fi, users) in sorted(wrappers.items()):
        name = fi.short[:-len(".decrypt")] if fi.short.endswith(".decrypt") else fi.short
        extra = [chain(d) or ast.unparse(d) for d in fi.node.decorator_list if (chain(d) or "").split(".")[-1] not in ("classmethod", "staticmethod")]
        ctx.need(not extra, "%s is wrapped by a decorator the rule cannot interpret: %s" % (fi.short, extra))

        def lib_ctor(e, where):
            e = resolve_local(where.node, e)
            return isinstance(e, ast.Call) and (qn(prog, where, e.func) or "").startswith(LIB_AEAD)

        def hook_of(e):
            e = resolve_local(fi.node, e)
            if isinstance(e, ast.Call) and isinstance(e.func, ast.Attribute) and chain(e.func.value) in ("self", "cls"):
                return e.func.attr
            return None

        lib = []
        for c in walk_no_nested(fi.node):
            if not (isinstance(c, ast.Call) and isinstance(c.func, ast.Attribute) and c.func.attr == "decrypt"):
                continue
            if lib_ctor(c.func.value, fi):
                lib.append(c)
                continue
            hk = hook_of(c.func.value)
            if hk is not None and all(prog.lookup_method(u, hk) is None and prog.class_attr(u, hk)[0] is not None for u in users):
                # `cls.LIB(key)` with a class attribute that names the library cipher class in every concrete class using the wrapper
                if all((prog.resolve_in_module(fi.module, chain(prog.class_attr(u, hk)[0]) or "?")).startswith(LIB_AEAD) for u in users):
                    lib.append(c)
                continue
            if hk is not None and all(prog.lookup_method(u, hk) is not None for u in users):
                # the cipher comes from a per-class hook: for every concrete class that uses this wrapper the hook must hand out a
                # library cipher on every return
                good = True
                for u in users:
                    hf = prog.lookup_method(u, hk)
                    rets = [r for r in walk_no_nested(hf.node) if isinstance(r, ast.Return)]
                    good = good and bool(rets) and all(r.value is not None and lib_ctor(r.value, hf) for r in rets)
                if good:
                    lib.append(c)
        ctx.floor("library decrypt calls in %s" % fi.short, len(lib), 1)
        n_lib += len(lib)
        for c in lib:
            handlers = _protecting_handlers(ctx, prog, fi, stmt_of(fi, c))
            catching = [(hfi, h) for hfi, h in handlers if _catches_invalid_tag(prog, hfi, h)]
            ctx.ob("the library's InvalidTag is caught around the decryption", bool(catching), fi, c, construct="%s.decrypt: handler for InvalidTag" % name)
            for hfi, h in handlers:
                hcfg = cfg_of(hfi)
                hn = hcfg.loc1(h)
                reach = hcfg.reach({hn}, include_src=True)
                ctx.ob("a failed tag check never yields a plaintext (the handler cannot reach a normal return)", hcfg.exit not in reach, hfi, h,
                       construct="%s.decrypt: except %s" % (name, ast.unparse(h.type) if h.type is not None else ""))
                rz = [hcfg.nodes[n].ast for n in reach if hcfg.nodes[n].kind == "raise"]
                bad = []
                for r in rz:
                    rc = _raise_class(prog, hfi, r)
                    if rc is None and r.exc is not None:
                        rc = _raise_class(prog, hfi, ast.Raise(exc=resolve_local(hfi.node, r.exc), cause=None))
                    if not (rc in prog.classes and prog.is_subclass(rc, PI)):
                        bad.append(r)
                ctx.ob("the handler raises ProtectionInvalid", bool(rz) and not bad, hfi, bad[0] if bad else h,
                       construct="%s.decrypt: %s" % (name, stmt_text(bad[0]) if bad else "raise ProtectionInvalid"))
        for r in [n for n in walk_no_nested(fi.node) if isinstance(n, ast.Return)]:
            v = resolve_local(fi.node, r.value) if r.value is not None else None
            ctx.ob("the wrapper returns what the library decrypted", any(v is c for c in lib), fi, r, construct="%s.decrypt: %s" % (name, stmt_text(r)))
    ctx.floor("library decrypt calls in the AEAD wrappers", n_lib, 1)
    EA = EscapeAnalysis(prog)
    fi = cbc
    escs = EA.escapes(fi)
    ctx.floor("raising sites of AES_CBC.decrypt", len(escs), 2)
    for esc in sorted(escs, key=repr):
        nodes = _origin_nodes(fi, esc) if esc.func == fi.short else []
        ctx.ob("AES_CBC.decrypt fails only with ProtectionInvalid", esc.cls in prog.classes and prog.is_subclass(esc.cls, PI), fi, stmt_of(fi, nodes[0]) if nodes else fi.node,
               detail="%s can escape from `%s`" % (esc.cls, esc.text))


@R.clause("C11.s", "sibling sweep: overrides of the protect/unprotect customisation hooks (reported, not decided)", tier="thorough")
def s(ctx):
    prog = ctx.prog
    for base, hook in (("aiocoap.oscore.CanProtect", "_get_sender_key"), ("aiocoap.oscore.CanUnprotect", "_get_recipient_key"), ("aiocoap.oscore.CanUnprotect", "_post_decrypt_checks"),
                       ("aiocoap.oscore.CanProtect", "protect"), ("aiocoap.oscore.CanUnprotect", "unprotect"), ("aiocoap.oscore.CanProtect", "_split_message")):
        over = [c for c in prog.subclasses(base) if c != base and hook in prog.classes[c].methods]
        for c in over:
            m = prog.classes[c].methods[hook]
            deleg = any(isinstance(x, ast.Call) and isinstance(x.func, ast.Attribute) and x.func.attr == hook and isinstance(x.func.value, ast.Call)
                        and chain(x.func.value.func) == "super" for x in walk_no_nested(m.node))
            ctx.note("SIBLING-NOTE %s.%s overrides the analysed implementation (%s); the clauses are decided for %s.%s only"
                     % (c.replace("aiocoap.", ""), hook, "wraps super().%s" % hook if deleg else "does not delegate", base.replace("aiocoap.", ""), hook))
    ctx.ob("sibling sweep of the customisation hooks completed", True, None, None, construct="overrides of protect/unprotect hooks")


# ---------------------------------------------------------------------------
# seeded faults (sensitivity self-test)
@R.clause("C11.h", "tampering with the partial IV or the length bits of the option is detected: the request identifiers keep the option's PIV bytes verbatim, and every field cut out of the option is preceded by a bounds check")
def h_fields(ctx):
    """Added after two independently written breaking changes: (1) RequestIdentifiers stored the partial IV in
    minimal-length form, so the external AAD no longer depended on the exact PIV bytes of the option and a
    zero-extended PIV still verified; (2) _uncompress checked `not tail` instead of `len(tail) < pivsz` before
    `tail[:pivsz]`, so (thanks to slice tolerance) a flipped length bit announcing more PIV bytes than present went
    unnoticed.  Necessary conditions decided here, both on symbolically executed paths: on every path through the
    constructor the value last stored to self.kid / self.partial_iv is the parameter itself; on every returning path of
    _uncompress each bounded window option[lo:hi] stored as a field is preceded by a decided comparison that implies
    len(option) >= hi (whatever cursor / offset arithmetic the code uses: kit.OptionReader reduces it to windows of the option)."""
    prog = ctx.prog
    ri = prog.func("oscore.RequestIdentifiers.__init__")
    p = params(ri)
    ctx.need(len(p) >= 2, "RequestIdentifiers.__init__ signature changed")
    # Every path through the constructor is executed symbolically: the last value stored to self.kid / self.partial_iv must be the
    # parameter itself (a plain assignment, a tuple assignment, an assignment through a renamed local are the same fact; a
    # rebound parameter shows up as the rebinding expression, any call or slice applied to it as that expression).
    rr = kit.Runner(ri, prog)
    done = [q for q in rr.paths() if q.end in ("return", "fall")]
    ctx.floor("normal paths through RequestIdentifiers.__init__", len(done), 1)
    for attr, par in (("kid", p[0]), ("partial_iv", p[1])):
        bad, node, n_st = [], ri.node, 0
        for q in done:
            st = [ev for ev in q.events if ev[0] == "store" and isinstance(ev[1], ast.Attribute) and ev[1].attr == attr and chain(ev[1]) == "self." + attr]
            n_st += len(st)
            if not st:
                bad.append("not stored on the path [%s]" % _describe(q))
            elif not (isinstance(st[-1][2], ast.Name) and st[-1][2].id == par):
                bad.append("stored value: %s" % kit.txt(st[-1][2])[:80])
                node = st[-1][3]
        ctx.ob("RequestIdentifiers keeps the %s exactly as given (it enters the external AAD and the nonce)" % attr, not bad, ri, node,
               detail=bad[0] if bad else None, construct="RequestIdentifiers.__init__: self.%s = <parameter>" % attr)
    consts = module_int_consts(prog, "oscore")
    Rr = _reader_results(ctx, prog, consts)
    un = Rr["fi"]
    ctx.ob("the field cut out of the option is known to be completely present (len check against the announced length)", not Rr["bounds"], un,
           (Rr["bounds"][0][0].endnode if Rr["bounds"] else un.node), detail=_first(Rr["bounds"]), construct="bounds of the fields cut out of the option")
    ctx.floor("length-prefixed fields in _uncompress", len(Rr["bounded_fields"]), 2)


# ---------------------------------------------------------------------------
# C11.j  the option survives the round trip over the whole admissible range

# what a sender can put into the option (property quantifier: all partial-IV lengths for sequence numbers up to 2^40-1, all ID
# lengths and ID contexts): the partial IV is the sequence number without leading zero bytes (one zero byte for 0), so 1..5 bytes
# with a non-zero first byte, or b"\0"
SAMPLE_PIVS = (None, b"\x00", b"\x01", b"\xff", b"\x01\x00", b"\x80\x00\x00", b"\x01\x02\x03\x04", b"\x01\x00\x00\x00\x00", b"\xff\xff\xff\xff\xfe")
SAMPLE_KIDS = (None, b"", b"\x00", b"\x01\x02", b"\x07" * 7)
SAMPLE_CTXS = (None, b"", b"\x2a", b"\x00\x01\x02", b"\xa5" * 255)


def _rfc_option(fields):
    """RFC 8613 section 6.1 encoding of a map {COSE key name: bytes}"""
    piv, kid, kctx = fields.get(K_PIV, b""), fields.get(K_KID), fields.get(K_CTX)
    flag = len(piv) | (REF_FLAGS["COMPRESSION_BIT_K"] if kid is not None else 0) | (REF_FLAGS["COMPRESSION_BIT_H"] if kctx is not None else 0) \
        | (REF_GROUP_BIT[1] if K_GRP in fields else 0)
    if not flag:
        return b""
    return bytes([flag]) + piv + (bytes([len(kctx)]) + kctx if kctx is not None else b"") + (kid or b"")


def _show_fields(fields):
    return "{%s}" % ", ".join("%s: %s" % (k, "<%d bytes: %s%s>" % (len(v), v[:6].hex(), ".." if len(v) > 6 else "")) for k, v in sorted(fields.items()))


@R.clause("C11.j", "the OSCORE option survives the round trip for every admissible combination of fields: what _compress emits for a partial IV of 1..5 bytes, "
                   "any kid, any kid context up to 255 bytes and the group flag is accepted by _uncompress and decodes to the same fields")
def j_roundtrip(ctx):
    """Added after an independently written breaking change: a 'hardening' guard in _uncompress refused the reserved partial IV
    lengths 6 and 7 through a constant that evaluates to 4, so it refused the legal 5-byte partial IVs (sequence numbers from
    2^32) as well, while the sender keeps producing them.  C11.d decides what the paths of reader and writer that *return* compute;
    nothing decided that the paths that *raise* are taken for malformed input only.

    Necessary condition (property: "unprotecting a protected message yields the original ... all partial-IV lengths (sequence numbers
    up to 2^40-1), all sender/recipient ID lengths and ID contexts"): for every map of fields a sender can produce, _compress returns
    an option and _uncompress, given that option, returns -- with the same fields.  Decided by *executing* both functions on concrete
    representatives of the whole range (kit.ConcreteOptionWriter / kit.ConcreteOptionReader: the interpretation of C11.d with
    numbers in place of symbols, so every condition over lengths, flag bits and bytes is decided by its value and exactly one path
    is run): each partial IV length 1..5 (and none), kid absent / empty / 1..7 bytes, kid context absent / empty / up to 255 bytes, group
    flag.  The reader is run on what the writer produced (the joint invariant of the two sites: whatever layout they agree on,
    the reader must take back what the writer hands out) and, independently, on the RFC 8613 section 6.1 encoding of the same
    fields.  How a limit is spelled (a constant, a derived constant, `in (6, 7)`, a table), where the test sits and which exception it
    raises is immaterial: a refusal of admissible input is a path that ends in a raise for one of the representatives."""
    prog = ctx.prog
    consts = module_int_consts(prog, "oscore")
    wf = prog.func(CP + "_compress")
    wp = params(wf, skip_self=False)
    ctx.need(len(wp) == 3, "_compress signature changed")
    rf = prog.func(CU + "_uncompress")
    rp = params(rf, skip_self=False)
    ctx.need(len(rp) == 2, "_uncompress signature changed")
    bad_w, bad_r, bad_rt, bad_rfc = [], [], [], []
    n_run = 0

    def read(option):
        Rd = kit.ConcreteOptionReader(rf, prog, consts, rp[0], option)
        paths = Rd.paths()
        ctx.need(len(paths) == 1 and not paths[0].facts,
                 "_uncompress branches on a condition the rule cannot evaluate for a concrete option: %s" % "; ".join(_describe(q)[:100] for q in paths[:2]))
        q = paths[0]
        if q.end != "return":
            what = kit.txt(q.value)[:80] if q.value is not None else (q.exc or "an exception")
            return q, None, "ends in %s: %s" % (q.end, what)
        Rd.state = q.state
        v = q.value
        ctx.need(isinstance(v, ast.Tuple) and len(v.elts) == 4 and isinstance(v.elts[2], ast.Dict) and all(k is not None for k in v.elts[2].keys),
                 "_uncompress does not return a 4-tuple whose third component is a map the rule can enumerate")
        got = {}
        for k, val in zip(v.elts[2].keys, v.elts[2].values):
            name = _cose_key(prog, rf, k)
            ctx.need(name is not None, "_uncompress: a key of the unprotected map is not a COSE_* constant: %s" % kit.txt(k))
            if name == K_GRP:
                got[name] = b""
                continue
            b = Rd.bytes_of(val)
            ctx.need(b is not None, "_uncompress: the value stored for %s is not a slice of the option: %s" % (name, kit.txt(val)[:80]))
            got[name] = b
        return q, got, None

    for piv in SAMPLE_PIVS:
        for kid in SAMPLE_KIDS:
            for kctx in SAMPLE_CTXS:
                # the long representatives are combined with the extremes of the other fields only (the runs are independent per field)
                if (kctx is not None and len(kctx) > 3 and kid not in (None, b"\x01\x02")) or (kid is not None and len(kid) > 2 and kctx not in (None, b"\x2a")):
                    continue
                for grp in (False, True):
                    if grp and (kid not in (None, b"\x01\x02") or kctx not in (None, b"\x2a")):
                        continue
                    fields = {}
                    if piv is not None:
                        fields[K_PIV] = piv
                    if kid is not None:
                        fields[K_KID] = kid
                    if kctx is not None:
                        fields[K_CTX] = kctx
                    if grp:
                        fields[K_GRP] = b""
                    n_run += 1
                    shown = _show_fields(fields)
                    # ---- writer
                    W = kit.ConcreteOptionWriter(wf, prog, consts, wp[1], lambda e: _cose_key(prog, wf, e), fields, empty_params=(wp[0],))
                    wpaths = W.paths()
                    ctx.need(len(wpaths) == 1 and not wpaths[0].facts,
                             "_compress branches on a condition the rule cannot evaluate for a concrete map of fields: %s" % "; ".join(_describe(q)[:100] for q in wpaths[:2]))
                    wq = wpaths[0]
                    option = None
                    if wq.end != "return":
                        bad_w.append((wq, "fields %s: _compress ends in %s: %s" % (shown, wq.end, kit.txt(wq.value)[:80] if wq.value is not None else wq.exc)))
                    else:
                        ctx.need(isinstance(wq.value, ast.Tuple) and len(wq.value.elts) == 2, "_compress does not return a pair")
                        W.state = wq.state
                        option = W.concrete_bytes(wq.value.elts[0])
                        ctx.need(option is not None, "_compress: the option value is not a concatenation of constant parts for a concrete map of fields: %s" % kit.txt(wq.value.elts[0])[:100])
                    # ---- reader on what the writer produced, and on the RFC encoding
                    want = {k: (b"" if k == K_GRP else v) for k, v in fields.items()}
                    for opt, sink, label in ((option, bad_rt, "the option _compress emits"), (_rfc_option(fields), bad_rfc, "the RFC 8613 encoding")):
                        if opt is None or (sink is bad_rfc and opt == option):
                            continue
                        q, got, err = read(opt)
                        if err is not None:
                            (bad_r if sink is bad_rt else sink).append((q, "fields %s, %s %s: _uncompress %s" % (shown, label, opt[:12].hex() + (".." if len(opt) > 12 else ""), err)))
                        elif got != want:
                            sink.append((q, "fields %s, %s %s: decoded as %s" % (shown, label, opt[:12].hex() + (".." if len(opt) > 12 else ""), _show_fields(got))))
    ctx.floor("concrete field combinations run through _compress / _uncompress", n_run, 100)
    # ---- unprotect: the decryption is reachable for every admissible partial IV ------------------------------
    # On the paths of unprotect that reach the decryption with a partial IV in the message (kit.MapModel, the paths of C11.b / C11.f),
    # the comparisons decided over len(<partial IV>) and over int.from_bytes(<partial IV>, 'big') alone are an interval each (everything
    # else -- the replay window, comparisons that involve other quantities -- is ignored, which can only widen what a path is taken
    # to admit).  Every admissible (length, value) representative must be admitted by some such path, for requests and for responses:
    # a guard that sends 5-byte partial IVs (or sequence numbers from 2^32) to a raise leaves none.
    UP = _unprotect_results(ctx, prog)
    ufi = UP["fi"]
    reps = ((1, 0), (1, 1), (1, 0xFF), (2, 0x100), (3, 0x10000), (4, 2 ** 32 - 1), (5, 2 ** 32), (5, 2 ** (8 * PIV_BYTES) - 2))
    ctx.floor("paths of unprotect that reach the decryption with a partial IV of the message", len(UP["piv_ranges"]), 2)
    lost = []
    for want_req, label in ((True, "request"), (False, "response")):
        cands = [(q, rng) for q, rng, isreq in UP["piv_ranges"] if isreq is None or isreq == want_req]
        for n, val in reps:
            def admits(rng):
                return all(lo <= x <= hi for x, (lo, hi) in ((n, rng.get("len", (-norm.INF, norm.INF))), (val, rng.get("int", (-norm.INF, norm.INF)))))
            if cands and not any(admits(rng) for _, rng in cands):
                lost.append("a %s with the %d-byte partial IV of sequence number %d reaches the decryption on no path; the paths demand %s" % (
                    label, n, val, sorted({"%s in [%s, %s]" % (k, lo, hi) for _, rng in cands for k, (lo, hi) in rng.items()})))
    ctx.ob("unprotect reaches the decryption for every admissible partial IV (1..5 bytes, sequence numbers up to 2^40-2), in requests and in responses", not lost, ufi, UP["node"],
           detail=lost[0] if lost else None, construct="partial IV lengths / sequence numbers admitted by unprotect")
    ctx.ob("_compress encodes every admissible combination of fields (partial IV of 1..5 bytes, any kid, kid context up to 255 bytes)", not bad_w, wf,
           (bad_w[0][0].endnode if bad_w and bad_w[0][0].endnode is not None else wf.node), detail=_first(bad_w), construct="_compress accepts every admissible map of fields")
    ctx.ob("_uncompress accepts every option _compress emits for an admissible combination of fields (no refusal of a legal partial IV / kid / kid context length)", not bad_r, rf,
           (bad_r[0][0].endnode if bad_r and bad_r[0][0].endnode is not None else rf.node), detail=_first(bad_r), construct="_uncompress accepts what _compress emits")
    ctx.ob("_uncompress decodes the option _compress emits to the same fields", not bad_rt, rf,
           (bad_rt[0][0].endnode if bad_rt and bad_rt[0][0].endnode is not None else rf.node), detail=_first(bad_rt), construct="_uncompress(_compress(fields)) == fields")
    ctx.ob("_uncompress accepts and decodes the RFC 8613 section 6.1 encoding of every admissible combination of fields", not bad_rfc, rf,
           (bad_rfc[0][0].endnode if bad_rfc and bad_rfc[0][0].endnode is not None else rf.node), detail=_first(bad_rfc), construct="_uncompress(RFC 8613 encoding of fields) == fields")


# ---------------------------------------------------------------------------
# C11.k  key derivation: every key is computed from this context's own inputs

SCU = "oscore.SecurityContextUtils."
HKDF_PARAMS = ("algorithm", "length", "salt", "info", "backend")  # cryptography's HKDF(algorithm, length, salt, info, backend=None)


def _subst_names(e, mapping):
    import copy

    class T(ast.NodeTransformer):
        def visit_Name(self, n):
            return mapping.get(n.id, n) if isinstance(n.ctx, ast.Load) else n

    return T().visit(copy.deepcopy(e))


def _hkdf_view(prog, fi, v, depth=0):
    """{'hash', 'length', 'salt', 'info', 'ikm'} when the evaluated value is the output of one HKDF run: `HKDF(algorithm=H,
    length=L, salt=S, info=cbor.dumps(I)).derive(K)` written in place, or a call through self of a method of the class that returns
    exactly that over its parameters (the view is then expressed over the caller's arguments); else None."""
    v = _apply_callable(prog, fi, v)
    if not isinstance(v, ast.Call) or depth > 3:
        return None
    f = v.func
    if isinstance(f, ast.Attribute) and f.attr in ("setdefault", "get", "pop") and len(v.args) == 2 and not v.keywords and kit.state_chain(f.value) is not None:
        return _hkdf_view(prog, fi, v.args[1], depth)  # C.setdefault(k, <fresh value>): what is computed (and stored) on a miss
    if isinstance(f, ast.Attribute) and f.attr == "derive" and isinstance(f.value, ast.Call) and len(v.args) == 1 and not v.keywords \
            and (qn(prog, fi, f.value.func) or "").split(".")[-1] == "HKDF":
        c = f.value
        if any(isinstance(a, ast.Starred) for a in c.args) or any(k.arg is None for k in c.keywords) or len(c.args) > len(HKDF_PARAMS):
            return None
        b = dict(zip(HKDF_PARAMS, c.args))
        b.update({k.arg: k.value for k in c.keywords})
        if not all(k in b for k in ("algorithm", "length", "salt", "info")):
            return None
        info = b["info"]
        if isinstance(info, ast.Call) and qn(prog, fi, info.func) in ("cbor2.dumps", "cbor.dumps") and len(info.args) == 1 and not info.keywords:
            info = info.args[0]
        else:
            return None
        return {"hash": b["algorithm"], "length": b["length"], "salt": b["salt"], "info": info, "ikm": v.args[0]}
    selfname = fi.node.args.args[0].arg if fi.cls is not None and fi.node.args.args else None
    if isinstance(f, ast.Attribute) and isinstance(f.value, ast.Name) and f.value.id == selfname and fi.cls is not None:
        callee = prog.lookup_method(fi.cls.qn, f.attr)
        if callee is None or callee.node is fi.node:
            return None
        rets = [q for q in kit.StateRunner(callee, prog, fork_values=False).paths() if q.end in ("return", "fall")]
        if not rets or any(q.end != "return" or q.value is None for q in rets):
            return None
        # paths of the callee that answer from a store are the callee's own obligation (it is analysed like its caller); what the
        # call computes is what its computing paths return, which must be one and the same HKDF run
        views = []
        for q in rets:
            x = _hkdf_view(prog, callee, q.value, depth + 1)
            if x is not None:
                views.append(x)
            elif kit.store_read(q.value) is None:
                return None
        if not views:
            return None
        inner = views[0]
        if any(not kit.same_val(x[k], inner[k]) for x in views[1:] for k in inner):
            return None
        args, kw = bound_args(prog, v, callee.short)
        names = params(callee)
        if args is None or kw or len(args) != len(names):
            return None
        cself = callee.node.args.args[0].arg
        mapping = dict(zip(names, args))
        mapping[cself] = ast.Name(id=selfname, ctx=ast.Load())
        return {k: _subst_names(x, mapping) for k, x in inner.items()}
    return None


def _apply_callable(prog, fi, v):
    """`functools.partial(f, a..)(b..)` is `f(a.., b..)`, `(lambda x..: body)(a..)` is body[x := a]: the call a named callable
    stands for, so that a derivation wrapped in a partial or a lambda is the same fact as the direct call."""
    for _ in range(4):
        if not isinstance(v, ast.Call):
            return v
        f = v.func
        if isinstance(f, ast.Call) and (qn(prog, fi, f.func) or "").split(".")[-1] == "partial" and f.args and not any(isinstance(a, ast.Starred) for a in f.args + v.args) \
                and not any(k.arg is None for k in f.keywords + v.keywords):
            kws = {k.arg: k for k in f.keywords}
            kws.update({k.arg: k for k in v.keywords})
            v = ast.copy_location(ast.Call(func=f.args[0], args=list(f.args[1:]) + list(v.args), keywords=list(kws.values())), v)
        elif isinstance(f, ast.Lambda) and not v.keywords and not any(isinstance(a, ast.Starred) for a in v.args) and not f.args.vararg and not f.args.kwarg and not f.args.kwonlyargs \
                and len(f.args.posonlyargs + f.args.args) == len(v.args):
            v = _subst_names(f.body, {a.arg: x for a, x in zip(f.args.posonlyargs + f.args.args, v.args)})
        else:
            return v
    return v


def _self_reads(prog, fi, depth=0, seen=None):
    """first-level attributes of self read anywhere in the function and, transitively, in the methods it calls through self"""
    seen = seen if seen is not None else set()
    if fi.qn in seen or depth > 3 or fi.cls is None or not fi.node.args.args:
        return set()
    seen.add(fi.qn)
    selfname = fi.node.args.args[0].arg
    out = set()
    for st in walk_no_nested(fi.node):
        if not isinstance(st, ast.stmt) or (isinstance(st, ast.Expr) and isinstance(st.value, ast.Call) and is_log_call(st.value)):
            continue
        for n in ast.iter_child_nodes(st):
            if not isinstance(n, ast.expr) or isinstance(n, (ast.Name, ast.Constant)) or isinstance(getattr(n, "ctx", None), (ast.Store, ast.Del)):
                continue
            atoms, calls = kit.input_atoms(n, selfname, ())
            out |= {a.replace(selfname + ".", "self.", 1) for a in atoms if a != selfname}
            for m, _ in calls:
                callee = prog.lookup_method(fi.cls.qn, m)
                if callee is not None:
                    out |= _self_reads(prog, callee, depth + 1, seen)
    return out


def _container_scope(ctx, prog, fi, cont):
    """'shared' (class-level / module-level: one store for all security contexts), 'instance' (one per context), or None when
    the expression is not a store that outlives the activation (a parameter, a local)."""
    c = kit.state_chain(cont)
    if c.startswith("type("):
        return "shared"  # an attribute of the class
    parts = c.split(".")
    a = fi.node.args
    pnames = [x.arg for x in a.posonlyargs + a.args + a.kwonlyargs]
    selfname = pnames[0] if fi.cls is not None and pnames else None
    deco = [(chain(d) or "").split(".")[-1] for d in fi.node.decorator_list]
    if parts[0] == selfname and len(parts) >= 2:
        if "classmethod" in deco:
            return "shared"
        attr = parts[1]
        class_level = any(attr in prog.classes[k].attrs for k in set(prog.mro(fi.cls.qn)) | set(prog.subclasses(fi.cls.qn)) if k in prog.classes)
        assigned = False
        for g in prog.funcs.values():
            if g.cls is None or not g.node.args.args:
                continue
            s0 = g.node.args.args[0].arg
            for n in walk_no_nested(g.node):
                tgts = n.targets if isinstance(n, ast.Assign) else ([n.target] if isinstance(n, (ast.AnnAssign, ast.AugAssign)) else [])
                for t in tgts:
                    for tt in (t.elts if isinstance(t, (ast.Tuple, ast.List)) else [t]):
                        if isinstance(tt, ast.Attribute) and tt.attr == attr and isinstance(tt.value, ast.Name) and tt.value.id == s0:
                            assigned = True
        if class_level and not assigned:
            return "shared"
        ctx.need(assigned, "cannot tell whether the store %s is per context or shared between contexts" % c)
        return "instance"
    if parts[0] in pnames:
        return None
    if any(isinstance(n, ast.Name) and n.id == parts[0] and isinstance(n.ctx, ast.Store) for n in walk_no_nested(fi.node)):
        return None
    return "shared"  # a module-level name or a class named directly


def _memo_verdict(ctx, prog, fi, q, sr, fresh, what):
    """A value handed out from a store instead of being computed in this activation.  It equals what a fresh computation would
    yield only if everything the computation reads is determined by the key of the store (and, for a store shared between
    security contexts, that includes what is read from self): inputs of the fresh computation (data: the names in the value the
    computing paths return; control: the conditions decided on them; transitively through methods called on self) minus the names in
    the key must be empty.  Returns True when the value was handled as a store read."""
    cont, key, node = sr
    scope = _container_scope(ctx, prog, fi, cont)
    if scope is None:
        return False
    a = fi.node.args
    pnames = [x.arg for x in a.posonlyargs + a.args + a.kwonlyargs]
    selfname = pnames[0] if fi.cls is not None and pnames else None
    plist = [p for p in pnames if p != selfname]
    cc = kit.state_chain(cont)

    def mentions_store(e):
        return any((kit.state_chain(x) or "") == cc or (kit.state_chain(x) or "").startswith(cc + ".") for x in ast.walk(e) if isinstance(x, (ast.Attribute, ast.Name)))

    inputs = set()
    todo = []
    for fq, fv in fresh:
        todo.append(fv)
        todo += [cnd for cnd, _, _ in fq.conds if not mentions_store(cnd)]
    if not fresh:
        # no computing path could be enumerated: everything the function reads, flow-insensitively
        inputs |= set(plist)
        inputs |= {x.replace("self.", (selfname or "self") + ".", 1) for x in _self_reads(prog, fi) if not ("self." + x.split(".", 1)[1]).startswith(cc.replace(selfname or "self", "self", 1))}
    for e in todo:
        atoms, calls = kit.input_atoms(e, selfname, plist)
        inputs |= atoms
        for m, _ in calls:
            callee = prog.lookup_method(fi.cls.qn, m) if fi.cls is not None else None
            if callee is not None:
                inputs |= {x.replace("self.", (selfname or "self") + ".", 1) for x in _self_reads(prog, callee)}
    katoms, _ = kit.input_atoms(key, selfname, plist)
    missing = set(inputs) - katoms - {selfname}
    if selfname in katoms or scope == "instance":
        missing = {m for m in missing if not (selfname and m.startswith(selfname + "."))}
    missing = {m for m in missing if m != cc and not m.startswith(cc + ".") and not cc.startswith(m + ".")}
    ctx.ob("%s is computed from this context's own inputs: a value answered from a store %s must be keyed by everything the derivation reads" % (
           what, "shared between security contexts" if scope == "shared" else "of the context"), not missing, fi, q.endnode if q.endnode is not None else fi.node,
           detail="answered from %s[%s]; the derivation also reads %s, which the key does not contain (two contexts that differ only there get the same value)" % (
               kit.txt(cont)[:40], kit.txt(key)[:80], ", ".join(sorted(missing))) if missing else None,
           construct="%s: value read from %s" % (fi.short, kit.txt(cont)[:60]))
    return True


@R.clause("C11.k", "key derivation (RFC 8613 section 3.2.1): every key / common IV is the HKDF output over this context's own inputs -- salt, secret, "
                   "info = [id, id_context, alg, type, L] -- computed when asked for, or answered from a store whose key covers every input")
def k_derivation(ctx):
    """Added after an independently written breaking change: _kdf memoised its results in a class-level dict keyed by its call
    arguments only, although the derivation also reads the ID context, the algorithms and the hash function from self; a second
    security context with the same secret, salt and IDs but another ID context got the first one's keys and common IV, so messages
    of one context verified under the other ("verification with another context's keys makes unprotection fail" no longer held).

    Necessary condition: the keys of a context are a function of *all* its inputs.  Decided path-wise (kit.StateRunner: a keyed read
    of a store inside try/except KeyError is a decision -- hit or miss -- like `k in C` / `C.get(k)` are): every value _kdf /
    _kdf_for_keystreams / _kdf_lowlevel can return is (1) the HKDF output of this activation, with hash = self.hashfun, the salt and
    secret given, info = [role id given, self.id_context, an algorithm identifier of this context / the key algorithm given, type
    given, L] and L the requested length -- however the info array is put together and whether the HKDF call is in place or in a
    method called through self; or (2) read from a keyed store, and then every input of the fresh computation (parameters and
    attributes of self, also those read in methods called through self; for a per-context store only the parameters) occurs in the
    key.  derive_keys stores sender key, recipient key and common IV derived for (sender ID, 'Key'), (recipient ID, 'Key'),
    (b'', 'IV') from the salt and secret given."""
    prog = ctx.prog
    n_fresh = 0
    for short, layout in ((SCU + "_kdf", "kdf"), (SCU + "_kdf_for_keystreams", "keystream"), (SCU + "_kdf_lowlevel", "lowlevel")):
        fi = method_of(prog, short)
        pn = params(fi)
        selfname = fi.node.args.args[0].arg
        # (fork_values: `x or y`, conditional expressions and named alternatives are decided per path, so the value a path returns is one
        # concrete display, not an expression with alternatives in it)
        paths = [q for q in kit.StateRunner(fi, prog, fork_values=True).paths() if q.end in ("return", "fall")]
        ctx.floor("returning paths of %s" % fi.short, len(paths), 1)
        fresh, stored = [], []
        for q in paths:
            ctx.need(q.end == "return" and q.value is not None, "%s can fall off its end" % fi.short)
            view = _hkdf_view(prog, fi, q.value)
            sr = kit.store_read(q.value)
            if view is not None:
                # (`C.setdefault(k, <fresh>)` is both: the value computed on a miss, and a read of the store on a hit)
                fresh.append((q, sr[2].args[1] if sr is not None else q.value, view))
            ctx.need(view is not None or sr is not None, "%s returns a value that is neither an HKDF output of this call nor read from a keyed store: %s" % (fi.short, kit.txt(q.value)[:100]))
            if sr is not None:
                stored.append((q, sr))
        for q, sr in stored:
            ok = _memo_verdict(ctx, prog, fi, q, sr, [(fq, fv) for fq, fv, _ in fresh], "a derived key / IV")
            ctx.need(ok, "%s returns a value that is neither an HKDF output of this call nor read from a store: %s" % (fi.short, kit.txt(q.value)[:100]))
        n_fresh += len(fresh)
        for q, v, view in fresh:
            node = q.endnode
            where = _describe(q)
            ctx.ob("the KDF runs with the context's hash function", chain(view["hash"]) == "%s.hashfun" % selfname, fi, node, detail="algorithm=%s" % kit.txt(view["hash"])[:60],
                   construct="%s: HKDF(algorithm=self.hashfun)" % fi.short)
            if layout == "lowlevel":
                ctx.need(len(pn) == 4, "_kdf_lowlevel signature changed")
                ok = all(isinstance(view[k], ast.Name) and view[k].id == p for k, p in (("salt", pn[0]), ("ikm", pn[1]), ("info", pn[2]), ("length", pn[3])))
                ctx.ob("HKDF is run over the salt, secret, info and length given", ok, fi, node,
                       detail="salt=%s, ikm=%s, info=%s, length=%s" % tuple(kit.txt(view[k])[:30] for k in ("salt", "ikm", "info", "length")), construct="%s: HKDF(salt, info, length).derive(ikm)" % fi.short)
                continue
            if layout == "kdf":
                ctx.need(len(pn) >= 4, "_kdf signature changed")
                p_salt, p_ikm, p_id, p_type = pn[0], pn[1], pn[2], pn[3]
                n_info, i_type = 5, 3
            else:
                ctx.need(len(pn) == 5, "_kdf_for_keystreams signature changed")
                p_id, p_salt, p_ikm, p_type = pn[0], pn[1], pn[2], pn[4]
                n_info, i_type = 4, 2
            ok = isinstance(view["salt"], ast.Name) and view["salt"].id == p_salt and isinstance(view["ikm"], ast.Name) and view["ikm"].id == p_ikm
            ctx.ob("the key is derived from the salt and the secret given", ok, fi, node, detail="salt=%s, ikm=%s" % (kit.txt(view["salt"])[:40], kit.txt(view["ikm"])[:40]),
                   construct="%s: HKDF(salt=salt).derive(ikm)" % fi.short)
            info = view["info"]
            ctx.need(isinstance(info, (ast.List, ast.Tuple)) and not any(isinstance(x, ast.Starred) for x in info.elts),
                     "%s: the info array is not a display the rule can enumerate: %s" % (fi.short, kit.txt(info)[:80]))
            el = info.elts
            shape = len(el) == n_info
            ok_id = shape and isinstance(el[0], ast.Name) and el[0].id == p_id
            ok_ctx = shape and chain(el[1]) == "%s.id_context" % selfname
            ok_type = shape and isinstance(el[i_type], ast.Name) and el[i_type].id == p_type
            ok_len = shape and kit.same_val(el[-1], view["length"])
            shown = "info = %s, length = %s [%s]" % (kit.txt(info)[:160], kit.txt(view["length"])[:40], where)
            ctx.ob("info[0] is the role ID the key is derived for", bool(ok_id), fi, node, detail=shown, construct="%s: info[0] = id" % fi.short)
            ctx.ob("info[1] is this context's ID context (contexts that differ in it get different keys)", bool(ok_ctx), fi, node, detail=shown, construct="%s: info[1] = self.id_context" % fi.short)
            ctx.ob("info carries the output type given", bool(ok_type), fi, node, detail=shown, construct="%s: info[type] = out_type" % fi.short)
            ctx.ob("the last element of info is the length that is derived", bool(ok_len), fi, node, detail=shown, construct="%s: info[-1] = L = HKDF length" % fi.short)
            if layout == "kdf":
                # decided as a dependency, not as a shape: whatever expression yields the identifier (`x.value`, getattr, a named
                # alternative), it is computed from the algorithms of this context / the key algorithm given and from nothing else
                allowed = {"%s.alg_aead" % selfname, "%s.alg_group_enc" % selfname} | ({pn[4]} if len(pn) > 4 else set())
                deps = kit.input_atoms(el[2], selfname, pn)[0] if shape else set()
                ctx.ob("info[2] is computed from an algorithm of this context (or the key algorithm given) and nothing else", bool(deps) and deps <= allowed, fi, node,
                       detail="depends on %s; %s" % (sorted(deps), shown), construct="%s: info[2] = algorithm identifier" % fi.short)
    ctx.floor("paths of the key derivation functions that run the HKDF", n_fresh, 5)

    # ---- derive_keys -------------------------------------------------------------------------------------
    fi = method_of(prog, SCU + "derive_keys")
    pn = params(fi)
    ctx.need(len(pn) == 2, "derive_keys signature changed")
    selfname = fi.node.args.args[0].arg
    kd = method_of(prog, SCU + "_kdf")
    want = {"sender_key": ("%s.sender_id" % selfname, "Key"), "recipient_key": ("%s.recipient_id" % selfname, "Key"), "common_iv": (b"", "IV")}
    paths = [q for q in kit.StateRunner(fi, prog, fork_values=True).paths() if q.end in ("return", "fall")]
    ctx.floor("normal paths through derive_keys", len(paths), 1)
    for q in paths:
        for attr, (role, typ) in sorted(want.items()):
            # (a store is `self.a = v`, a component of a tuple assignment, or setattr(self, 'a', v) -- e.g. in a loop over a literal table)
            st = []
            opaque = []
            for ev in q.events:
                if ev[0] == "store" and chain(ev[1]) == "%s.%s" % (selfname, attr):
                    st.append((ev[2], ev[3]))
                elif ev[0] == "call" and isinstance(ev[1], ast.Call) and not is_log_call(ev[1]):
                    c = ev[1]
                    if chain(c.func) == "setattr" and len(c.args) == 3 and not c.keywords and isinstance(c.args[0], ast.Name) and c.args[0].id == selfname:
                        if isinstance(c.args[1], ast.Constant):
                            if c.args[1].value == attr:
                                st.append((c.args[2], ev[2]))
                        else:
                            opaque.append(c)
                    elif any(isinstance(x, ast.Name) and x.id == selfname for a in list(c.args) + [k.value for k in c.keywords] for x in [a]) \
                            or (isinstance(c.func, ast.Attribute) and isinstance(c.func.value, ast.Name) and c.func.value.id == selfname):
                        opaque.append(c)  # self handed to / a method called on self that was not expanded: it may store the attribute
            construct = "derive_keys: self.%s = self._kdf(master_salt, master_secret, %s, %r)" % (attr, role if isinstance(role, str) else repr(role), typ)
            if not st:
                ctx.need(not opaque, "derive_keys: %s may be stored by a call the rule cannot follow: %s" % (attr, kit.txt(opaque[0])[:80] if opaque else ""))
                ctx.ob("derive_keys populates %s on every path" % attr, False, fi, fi.node, detail="not stored on the path [%s]" % _describe(q), construct=construct)
                continue
            v, node = st[-1]
            v = _apply_callable(prog, fi, v)
            if not (_is_self_call(v, kd.node.name) if selfname == "self" else (isinstance(v, ast.Call) and chain(v.func) == "%s.%s" % (selfname, kd.node.name))):
                sr = kit.store_read(v)
                handled = sr is not None and _memo_verdict(ctx, prog, fi, q, sr, [], "self.%s" % attr)
                ctx.need(handled, "derive_keys stores a %s that is neither a self._kdf(...) result nor read from a store: %s" % (attr, kit.txt(v)[:80]))
                continue
            args, kw = bound_args(prog, v, kd.short)
            ctx.need(args is not None and not kw and len(args) >= 4, "cannot bind the arguments of the _kdf call in derive_keys: %s" % kit.txt(v)[:80])
            try:
                tv = norm.consteval(args[3])
            except norm.NormError:
                tv = None
            if isinstance(role, str):
                ok_role = chain(args[2]) == role
            else:
                ok_role = isinstance(args[2], ast.Constant) and args[2].value == role
            ok = isinstance(args[0], ast.Name) and args[0].id == pn[0] and isinstance(args[1], ast.Name) and args[1].id == pn[1] and ok_role and tv == typ
            if typ == "Key":
                ok = ok and len(args) >= 5 and chain(args[4]) == "%s.alg_aead" % selfname
            ctx.ob("%s is derived from the master salt and secret for %s and type %r (RFC 8613 section 3.2.1)" % (attr, "the empty ID" if not isinstance(role, str) else role, typ), ok, fi, node,
                   detail="stored: %s" % kit.txt(v)[:140], construct=construct)


# ---------------------------------------------------------------------------
# C11.i  request/response binding at the users of protect / unprotect

PAIRING = ("protect", "unprotect")


def _is_method_call(v, names):
    return isinstance(v, ast.Call) and isinstance(v.func, ast.Attribute) and v.func.attr in names


def _is_super_recv(call):
    r = call.func.value
    return isinstance(r, ast.Call) and isinstance(r.func, ast.Name) and r.func.id == "super"


def _touches(rm, fnode, memo, stack=()):
    """Does the function (with everything nested in it, and the helpers of its module it calls by name or through self)
    call `.protect(...)` / `.unprotect(...)` on a security context (anything but super())?"""
    k = id(fnode)
    if k in memo:
        return memo[k]
    if k in stack:
        return False
    out = False
    for n in ast.walk(fnode):
        if not isinstance(n, ast.Call):
            continue
        if _is_method_call(n, PAIRING) and not _is_super_recv(n):
            out = True
            break
        callee = None
        if isinstance(n.func, ast.Name) and n.func.id in rm.funcs:
            callee = rm.funcs[n.func.id]
        elif isinstance(n.func, ast.Attribute) and isinstance(n.func.value, ast.Name) and n.func.value.id in ("self", "cls"):
            callee = next((ms[n.func.attr] for _, ms, _ in rm.classes.values() if n.func.attr in ms), None)
        if callee is not None and callee.node is not fnode and _touches(rm, callee.node, memo, stack + (k,)):
            out = True
            break
    memo[k] = out
    return out


def _ev_arg(call, names, i):
    """The i-th parameter (receiver not counted) of an evaluated method call, given positionally or by keyword; None when absent."""
    if any(isinstance(a, ast.Starred) for a in call.args) or any(kw.arg is None for kw in call.keywords):
        raise AnalysisError("C11.i: cannot bind the arguments of `%s` (* / **)" % kit.txt(call)[-80:])
    if i < len(call.args):
        return call.args[i]
    return next((kw.value for kw in call.keywords if kw.arg == names[i]), None)


def _root_name(v):
    while True:
        if isinstance(v, (ast.Await, ast.Starred)):
            v = v.value
        elif isinstance(v, (ast.Attribute, ast.Subscript)):
            v = v.value
        elif isinstance(v, ast.Call) and isinstance(v.func, ast.Attribute):
            v = v.func.value
        elif isinstance(v, ast.Name):
            return v.id
        else:
            return None


def _component(v, i):
    """K when v is component i of the pair returned by the call K (protect / unprotect return (message, identifiers))."""
    while isinstance(v, ast.Await):
        v = v.value
    if isinstance(v, ast.Subscript) and isinstance(v.slice, ast.Constant) and v.slice.value == i:
        k = v.value
        while isinstance(k, ast.Await):
            k = k.value
        if _is_method_call(k, PAIRING):
            return k
    return None


def _message_of(v):
    """K when v is the message returned by the call K, possibly behind attribute reads / method calls on it (`m.copy(...)`)."""
    while True:
        k = _component(v, 0)
        if k is not None:
            return k
        if isinstance(v, ast.Await):
            v = v.value
        elif isinstance(v, ast.Attribute):
            v = v.value
        elif isinstance(v, ast.Call) and isinstance(v.func, ast.Attribute):
            v = v.func.value
        else:
            return None


def _request_behind(v):
    """The protect call whose outer message was handed to the call that produced the object `v` is read from: `v` is peeled
    (await, attribute reads, element / iteration reads, method calls on it such as __aiter__ / __anext__, aiter(x) / anext(x)) down to
    a call one of whose arguments is the message component of a protect call.  (None, root name) when there is no such call."""
    while True:
        if isinstance(v, (ast.Await, ast.Starred)):
            v = v.value
        elif isinstance(v, (ast.Attribute, ast.Subscript)):
            v = v.value
        elif isinstance(v, ast.Call):
            for a in list(v.args) + [kw.value for kw in v.keywords]:
                k = _message_of(a)
                if k is not None and k.func.attr == "protect":
                    return k, None
            if isinstance(v.func, ast.Attribute):
                v = v.func.value
            elif isinstance(v.func, ast.Name) and v.func.id in ("aiter", "anext", "iter", "next") and v.args:
                v = v.args[0]
            else:
                return None, None
        elif isinstance(v, ast.Name):
            return None, v.id
        else:
            return None, None


def _short(v, n=70):
    t = kit.txt(v)
    return t if len(t) <= n else "..." + t[-n:]


def _raw_call(fi, call):
    """The call as written (the evaluated call carries the position of its source)."""
    pos = (getattr(call, "lineno", None), getattr(call, "col_offset", None))
    top = fi
    while top.parent is not None:
        top = top.parent
    for n in ast.walk(top.node):
        if isinstance(n, ast.Call) and (n.lineno, n.col_offset) == pos:
            return n
    return None


@R.clause("C11.i", "every response / notification is unprotected with the identifiers of the request it was received for, every response is protected with "
                   "the identifiers of the request it answers (users of protect / unprotect: the OSCORE transport and the site wrapper)")
def i_binding(ctx):
    """Added after an independently written breaking change hidden in a clean-up: the client transport's three copies of "unprotect
    the response" were folded into a local helper that took the request identifiers as a *default argument*, which Python evaluates
    when the `def` is executed -- before the Echo retry (RFC 8613 B.1.2) protects and sends the request again.  Everything received
    for the second request was then verified against the first request's identifiers, so no valid response verifies any more.

    Necessary condition (property: "a protected response verifies only together with the identifiers of the request it answers"): the
    two ends must hand protect / unprotect the identifiers of *that* request.  protect returns (outer message, identifiers) and
    unprotect returns (inner message, identifiers); on every path of every function of the package that calls them on a context:
      (client) a call X.unprotect(R, I) with identifiers: I is the identifiers component of a protect call K, and R was read from
               (awaited from / iterated out of) the object returned by a call that was handed K's outer message -- the same K;
      (server) a call X.protect(M, I) with identifiers: I is the identifiers component of an unprotect call U made without
               identifiers (a request), and when the result is handed to Q.add_response, U's message is Q.request; a message that
               goes to add_response after a request was unprotected on the path is never protected without identifiers.
    Identifiers that come in through a parameter / the object's state in a function that neither protects nor unprotects a request
    itself are that function's callers' obligation (noted, not decided).
    Decided on the modules *as written* by kit.FlowRunner: values are expressions over the entry state with shared call results, so
    "the same protect call" is object identity; local helpers (nested def, lambda, functools.partial, methods through self,
    module functions) are executed with Python's binding rules -- a default argument holds the value of the *definition* time, a
    closure variable the value at the time of the call, a partial's argument the value at the time the partial is made, a
    parameter the value at the call.  Spelling (helpers or inline, tuple returns, named temporaries, guard order) is immaterial."""
    prog = ctx.prog
    W = kit.RawWorld(prog)
    un_names = params(method_of(prog, CU + "unprotect"))
    pr_names = params(method_of(prog, CP + "protect"))
    ctx.need(len(un_names) >= 2 and len(pr_names) >= 2, "protect / unprotect signature changed")
    sites = {}      # (function, line, col) -> dict(fi, call, kind, bad [], ok count, notes set)
    refusals = []
    n_entries = {"client": 0, "server": 0}
    retry_paths = 0

    def site(kind, fi, call):
        key = (kind, fi.short, getattr(call, "lineno", 0), getattr(call, "col_offset", 0))
        if key not in sites:
            sites[key] = {"fi": fi, "call": call, "kind": kind, "bad": [], "ok": 0, "notes": set()}
        return sites[key]

    for mname in sorted(prog.modules):
        if "protect" not in prog.modules[mname].src:
            continue
        rm = W.module(mname)
        memo = {}
        touching = [fi for fi in rm.all_functions() if _touches(rm, fi.node, memo)]
        # a touching function that another touching function of the module calls (by name / through self) is executed as part of its caller
        called = set()
        for fi in touching:
            for n in ast.walk(fi.node):
                if isinstance(n, ast.Call):
                    if isinstance(n.func, ast.Name) and n.func.id in rm.funcs:
                        called.add(id(rm.funcs[n.func.id].node))
                    elif isinstance(n.func, ast.Attribute) and isinstance(n.func.value, ast.Name) and n.func.value.id == kit._selfname(fi) and fi.rawcls:
                        m = rm.method(fi.rawcls, n.func.attr)
                        if m is not None and m.node is not fi.node:
                            called.add(id(m.node))
        executed = set()
        # (a function that is called only from places no enumerated path reaches -- an exception handler -- is analysed on its own afterwards)
        for fi in [f for f in touching if id(f.node) not in called] + [f for f in touching if id(f.node) in called]:
            if id(fi.node) in called and id(fi.node) in executed:
                continue
            pnames = set(kit.local_names_of(fi.node)[0]) & {a.arg for a in ast.walk(fi.node.args) if isinstance(a, ast.arg)}
            runner = kit.FlowRunner(fi, prog, W, interesting=lambda fn, rm=rm, memo=memo: _touches(rm, fn, memo), for_iters=2)
            roles = set()
            for q in runner.paths():
                calls = [(ev[1], ev[2]) for ev in q.events if ev[0] == "ecall"]
                req_protects, req_unprotects = [], []
                for idx, (c, cfi) in enumerate(calls):
                    if not _is_method_call(c, PAIRING) or _is_super_recv(c):
                        continue
                    names = un_names if c.func.attr == "unprotect" else pr_names
                    msg, ids = _ev_arg(c, names, 0), _ev_arg(c, names, 1)
                    if msg is None:
                        refusals.append("%s: `%s` without a message argument" % (cfi.short, _short(c)))
                        continue
                    no_ids = ids is None or _is_none_const(ids)
                    if no_ids and c.func.attr == "protect":
                        # a request is protected -- unless this function unprotected a request before and hands the result out as its response
                        sent_as_response = [c2 for c2, _ in calls[idx + 1:] if _is_method_call(c2, ("add_response",))
                                            and any(_message_of(a) is c for a in list(c2.args) + [kw.value for kw in c2.keywords])]
                        if req_unprotects and sent_as_response:
                            roles.add("server")
                            site("server", cfi, c)["bad"].append("a response is protected without the identifiers of the request it answers")
                        else:
                            req_protects.append(c)
                        continue
                    if no_ids:
                        req_unprotects.append(c)
                        continue
                    k = _component(ids, 1)
                    if c.func.attr == "unprotect":
                        s = site("client", cfi, c)
                        behind, rroot = _request_behind(msg)
                        if k is not None and k.func.attr != "protect":
                            roles.add("client")
                            s["bad"].append("the identifiers given to unprotect are those returned by `%s`, not those of the request that was protected and sent" % _short(k, 50))
                            continue
                        if k is None:
                            if _root_name(ids) in pnames and not req_protects:
                                s["notes"].add("identifiers come in through `%s`: the pairing is decided where they are produced" % _short(ids, 40))
                            else:
                                refusals.append("%s: cannot trace the identifiers `%s` given to unprotect to a protect call" % (cfi.short, _short(ids)))
                            continue
                        roles.add("client")
                        if behind is None:
                            refusals.append("%s: cannot trace the message `%s` given to unprotect to the request it was received for" % (cfi.short, _short(msg)))
                            continue
                        if len(req_protects) >= 2 and behind is req_protects[-1]:
                            retry_paths += 1
                        if behind is k:
                            s["ok"] += 1
                        else:
                            def nth(x):
                                return ("protect call #%d of the path (line %d)" % (req_protects.index(x) + 1, x.lineno)) if x in req_protects else "`%s`" % _short(x, 50)
                            s["bad"].append("the message was received for the request protected by %s, the identifiers are those returned by %s (%d request(s) protected on the path)"
                                            % (nth(behind), nth(k), len(req_protects)))
                    else:
                        s = site("server", cfi, c)
                        if k is not None and k.func.attr != "unprotect":
                            roles.add("server")
                            s["bad"].append("the identifiers given to protect are those returned by `%s`, not those obtained by unprotecting the request" % _short(k, 50))
                            continue
                        if k is None:
                            if _root_name(ids) in pnames and not req_unprotects:
                                s["notes"].add("identifiers come in through `%s`: the pairing is decided where they are produced" % _short(ids, 40))
                            else:
                                refusals.append("%s: cannot trace the identifiers `%s` given to protect to the unprotection of a request" % (cfi.short, _short(ids)))
                            continue
                        roles.add("server")
                        u_ids = _ev_arg(k, un_names, 1)
                        if not (u_ids is None or _is_none_const(u_ids)):
                            s["bad"].append("the identifiers given to protect come from unprotecting a response, not the request being answered")
                            continue
                        u_msg = _ev_arg(k, un_names, 0)
                        wrong = None
                        for c2, _ in calls[idx + 1:]:
                            if _is_method_call(c2, ("add_response",)) and any(_message_of(a) is c for a in list(c2.args) + [kw.value for kw in c2.keywords]):
                                q_req = ast.Attribute(value=c2.func.value, attr="request", ctx=ast.Load())
                                if u_msg is not None and chain(u_msg) and chain(q_req) and chain(u_msg) != chain(q_req):
                                    wrong = "the response handed to `%s.add_response` is protected with the identifiers of `%s`, not of `%s`" % (
                                        _short(c2.func.value, 30), _short(u_msg, 40), _short(q_req, 40))
                        if wrong:
                            s["bad"].append(wrong)
                        else:
                            s["ok"] += 1
            executed |= runner.executed
            for r in roles:
                n_entries[r] += 1
    for key in sorted(sites):
        s = sites[key]
        fi, call = s["fi"], s["call"]
        raw = _raw_call(fi, call)
        text = stmt_text(raw) if raw is not None else "%s(...)" % call.func.attr
        for nt in sorted(s["notes"]):
            ctx.note("%s `%s`: %s" % (fi.short, text, nt))
        if not s["bad"] and not s["ok"]:
            continue
        if s["kind"] == "client":
            ctx.ob("a response / notification is unprotected with the identifiers of the request it was received for", not s["bad"], fi, raw if raw is not None else fi.node,
                   detail=s["bad"][0] if s["bad"] else None, construct=text)
        else:
            ctx.ob("a response is protected with the identifiers obtained by unprotecting the request it answers", not s["bad"], fi, raw if raw is not None else fi.node,
                   detail=s["bad"][0] if s["bad"] else None, construct=text)
    ctx.need(not refusals, "; ".join(sorted(set(refusals))[:3]))
    ctx.floor("functions that unprotect responses with the identifiers of their own requests", n_entries["client"], 1)
    ctx.floor("functions that protect responses with the identifiers of the request they unprotected", n_entries["server"], 1)
    ctx.floor("paths on which a response to a request that was protected again (Echo retry) is unprotected", retry_paths, 1)


F_OS = "aiocoap/oscore.py"
R.seed("C11.a", F_OS, "            uri_host=outer_host,\n", "            uri_host=outer_host,\n            uri_path=message.opt.uri_path,\n", "a Class E option copied to the outer message")
R.seed("C11.a", F_OS, "        outer_message.payload = payload\n", "        outer_message.payload = plaintext\n", "plaintext sent as the outer payload")
R.seed("C11.a", F_OS, "_, payload = self._compress(protected, unprotected, ciphertext)", "_, payload = self._compress(protected, unprotected, plaintext)", "plaintext instead of ciphertext into _compress")
R.seed("C11.a", F_OS, "                outer_code = POST\n", "                outer_code = message.code\n", "the inner code leaks as outer code")
R.seed("C11.a", F_OS, "outer_message.set_request_uri(outer_uri)", "outer_message.set_request_uri(proxy_uri)", "path and query of the Proxy-Uri leak to the outer message")
R.seed("C11.a", F_OS, "                uri_host=None,\n                uri_port=None,", "                uri_port=None,", "Uri-Host stays in the inner message")
R.seed("C11.a", F_OS, "CodeStyle.POST_CHANGED = CodeStyle(POST, CHANGED)", "CodeStyle.POST_CHANGED = CodeStyle(POST, CONTENT)", "wrong outer response code")
R.seed("C11.a", F_OS, "        outer_message.direction = Direction.OUTGOING\n", "        outer_message.direction = Direction.OUTGOING\n        outer_message.opt.max_age = message.opt.max_age\n", "a further inner option stored on the outer message")
R.seed("C11.b", F_OS, "            request_id.kid,\n            request_id.partial_iv,\n            class_i_options,", "            request_id.kid,\n            class_i_options,", "request partial IV dropped from the AAD")
R.seed("C11.b", F_OS, "            partial_iv_generated_by = request_id.kid\n", "            partial_iv_generated_by = self.recipient_id\n", "response nonce not bound to the request's kid")
R.seed("C11.b", F_OS, "            self.can_reuse_nonce = False\n            return", "            return", "nonce can be reused more than once")
R.seed("C11.b", F_OS, "            unprotected[COSE_PIV] = partial_iv_short\n", "            pass\n", "fresh partial IV not sent")
R.seed("C11.b", F_OS, "plaintext = alg_symmetric.decrypt(ciphertext, aad, key, nonce)", "plaintext = alg_symmetric.decrypt(ciphertext, aad, key, self.common_iv)", "nonce not derived from the identifiers")
R.seed("C11.b", F_OS, "            nonce = self._construct_nonce(\n                partial_iv_short, partial_iv_generated_by, alg_symmetric\n            )\n\n        if message.code.is_request():",
       "            nonce = self._construct_nonce(\n                partial_iv_generated_by, partial_iv_short, alg_symmetric\n            )\n\n        if message.code.is_request():",
       "protect: kid and partial IV of the request swapped when its nonce is rebuilt")
R.seed("C11.b", F_OS, "            partial_iv_generated_by, partial_iv_short = (\n                request_id.get_reusable_kid_and_piv()\n            )\n",
       "            partial_iv_generated_by = request_id.get_reusable_kid_and_piv()[0]\n            partial_iv_short = request_id.get_reusable_kid_and_piv()[1]\n",
       "protect: the one-shot pair is asked for twice; the second call hands out (None, None)")
R.seed("C11.b", F_OS, "                self.sender_id,\n                partial_iv_short,\n                can_reuse_nonce=None,", "                self.recipient_id,\n                partial_iv_short,\n                can_reuse_nonce=None,",
       "protect: a request's identifiers carry the recipient ID instead of the sender ID")
R.seed("C11.b", F_OS, "        if message.code.is_request():\n            unprotected[COSE_KID] = self.sender_id\n\n            request_id = RequestIdentifiers(",
       "        if message.code.is_request() or self.responses_send_kid:\n            unprotected[COSE_KID] = self.sender_id\n\n            request_id = RequestIdentifiers(",
       "protect: merging the two KID stores makes a response that sends its KID bind to identifiers of its own instead of the request's")
R.seed("C11.b", F_OS, "            nonce, partial_iv_short = self._build_new_nonce(alg_symmetric)\n            partial_iv_generated_by = self.sender_id\n",
       "            nonce, partial_iv_short = self._build_new_nonce(alg_symmetric)\n            _, partial_iv_short = self._build_new_nonce(alg_symmetric)\n            partial_iv_generated_by = self.sender_id\n",
       "protect: the partial IV sent and bound in the AAD comes from another sequence number than the nonce")
R.seed("C11.c", F_OS, "alg.iv_bytes - 6 - len(piv_generator_id)", "alg.iv_bytes - 5 - len(piv_generator_id)", "ID padding off by one")
R.seed("C11.c", F_OS, "components = s + pad_id + piv_generator_id + pad_piv + partial_iv_short", "components = s + pad_id + partial_iv_short + pad_piv + piv_generator_id", "ID and PIV swapped in the nonce")
R.seed("C11.c", F_OS, 'partial_iv = seqno.to_bytes(5, "big")', 'partial_iv = seqno.to_bytes(5, "little")', "little-endian partial IV")
R.seed("C11.c", F_OS, "self.common_iv[: len(components)]", "self.common_iv[-len(components) :]", "wrong end of the common IV")
R.seed("C11.d", F_OS, '        if firstbyte & COMPRESSION_BITS_RESERVED:\n            raise DecodeError("Protected data uses reserved fields")\n\n', "", "reserved bits accepted")
R.seed("C11.d", F_OS, "option = bytes([firstbyte]) + piv + s_kid_context + kid_data", "option = bytes([firstbyte]) + piv + kid_data + s_kid_context", "writer emits kid before the kid context")
R.seed("C11.d", F_OS, "            tail = tail[1:]\n            unprotected[COSE_KID_CONTEXT]", "            unprotected[COSE_KID_CONTEXT]", "reader does not skip the context length byte")
R.seed("C11.d", F_OS, "            unprotected[COSE_KID_CONTEXT] = tail[:s]\n            tail = tail[s:]", "            unprotected[COSE_KID_CONTEXT] = tail[:s]\n            tail = tail[s + 1 :]", "reader skips one byte too many")
R.seed("C11.d", F_OS, "if len(piv) > COMPRESSION_BITS_N:", "if len(piv) > COMPRESSION_BITS_N + 1:", "8-byte partial IV overflows into the k bit")
R.seed("C11.d", F_OS, "            firstbyte |= COMPRESSION_BIT_H\n            kid_context", "            firstbyte |= COMPRESSION_BIT_GROUP\n            kid_context", "wrong flag bit for the kid context")
R.seed("C11.e", F_OS, 'raise ProtectionInvalid("The protected field is not empty")', 'raise ValueError("The protected field is not empty")', "plain ValueError before authentication")
R.seed("C11.e", F_OS, 'raise NotAProtectedMessage("No Object-Security option present", message)', 'raise KeyError("No Object-Security option present")')
R.seed("C11.e", F_OS, '                raise DecodeError("Partial IV announced but not present")', '                raise IndexError("Partial IV announced but not present")')
R.seed("C11.f", F_OS, '            raise ProtectionInvalid("Sender ID does not match")', '            _alglog.debug("Sender ID does not match")', "KID comparison without effect")
R.seed("C11.f", F_OS, "unprotected.pop(COSE_KID_CONTEXT, self.id_context) != self.id_context", "unprotected.pop(COSE_KID_CONTEXT, None) is None", "ID context no longer compared")
R.seed("C11.f", F_OS, '            _alglog.debug("Unprotecting failed")\n            raise e\n', '            _alglog.debug("Unprotecting failed")\n            plaintext = b"\\x45"\n', "decrypt failure swallowed")
R.seed("C11.f", F_OS, "len(ciphertext) < self.alg_aead.tag_bytes + 1", "len(ciphertext) < self.alg_aead.tag_bytes", "length check off by one")
R.seed("C11.g", F_OS, '            return aead.AESGCM(key).decrypt(iv, ciphertext_and_tag, aad)\n        except cryptography.exceptions.InvalidTag:\n            raise ProtectionInvalid("Tag invalid")',
       '            return aead.AESGCM(key).decrypt(iv, ciphertext_and_tag, aad)\n        except cryptography.exceptions.InvalidTag:\n            return b""', "invalid tag yields an empty plaintext")
R.seed("C11.g", F_OS, '            return aead.ChaCha20Poly1305(key).decrypt(iv, ciphertext_and_tag, aad)\n        except cryptography.exceptions.InvalidTag:\n            raise ProtectionInvalid("Tag invalid")',
       '            return aead.ChaCha20Poly1305(key).decrypt(iv, ciphertext_and_tag, aad)\n        except cryptography.exceptions.InvalidTag:\n            raise', "InvalidTag escapes unconverted")
R.seed("C11.g", F_OS, 'raise ProtectionInvalid("Padding is inconsistent")', 'raise ValueError("Padding is inconsistent")')

R.seed("C11.h", F_OS, "        self.partial_iv = partial_iv\n        self.can_reuse_nonce", "        self.partial_iv = partial_iv.lstrip(b\"\\0\") or b\"\\0\"\n        self.can_reuse_nonce", "canonicalised PIV: a zero-extended PIV in the option still verifies")
R.seed("C11.h", F_OS, "            if len(tail) < pivsz:\n", "            if not tail:\n", "flipped length bits announcing more PIV bytes than present go unnoticed")

# seeds added with the path-wise generalisation of the clauses (each one is invisible to a rule that only looks at the shape of
# the confirmed code, and must be found by the value / path level reasoning)
R.seed("C11.a", F_OS, "        if proxy_uri is not None:\n            outer_message.set_request_uri(outer_uri)", "        outer_message.code = message.code\n        if proxy_uri is not None:\n            outer_message.set_request_uri(outer_uri)",
       "the inner code stored on the outer message after its construction")
R.seed("C11.b", F_OS, "            external_aad.append(self.id_context)\n", "            external_aad.insert(2, self.id_context)\n", "the ID context pushes the request kid / partial IV out of their AAD positions")
R.seed("C11.b", F_OS, "        if COSE_PIV not in unprotected:\n", '        if not unprotected.pop(COSE_PIV, b""):\n', "an empty partial IV in the option is consumed and treated like an absent one (the request's nonce inputs are used)")
R.seed("C11.c", F_OS, '            partial_iv.lstrip(b"\\0") or b"\\0",\n', '            partial_iv.lstrip(b"\\0"),\n', "sequence number 0 yields an empty partial IV")
R.seed("C11.c", F_OS, "return bytes(_a ^ _b for (_a, _b) in zip(a, b))", "return bytes(_a | _b for (_a, _b) in zip(a, b))", "or instead of xor")
R.seed("C11.d", F_OS, "            kid_data = unprotected.pop(COSE_KID)\n", '            kid_data = unprotected.pop(COSE_KID) if piv else b""\n', "the kid is dropped (its flag stays set) when there is no partial IV")
R.seed("C11.d", F_OS, "        if pivsz:\n            if len(tail) < pivsz:", "        if pivsz > 1:\n            if len(tail) < pivsz:", "a one-byte partial IV is not decoded")
R.seed("C11.f", F_OS, "        if unprotected.pop(COSE_KID, self.recipient_id) != self.recipient_id:", "        if is_response and unprotected.pop(COSE_KID, self.recipient_id) != self.recipient_id:",
       "the KID is compared for responses only")
R.seed("C11.h", F_OS, "            if len(tail) - 1 < s:\n", "            if len(tail) < s:\n", "the kid context bound forgets the length byte")
# seeds for the second hardening round: from_request is evaluated per request code, byte reads of the option are decisions of the reader
R.seed("C11.a", F_OS, "        if request == FETCH:\n            return cls.FETCH_CONTENT\n", "        if request == FETCH:\n            return cls.POST_CHANGED\n", "a FETCH request gets the POST/2.04 code style")
R.seed("C11.a", F_OS, "        elif request == POST:\n            return cls.POST_CHANGED\n        else:\n            raise ValueError", "        else:\n            return cls.POST_CHANGED\n            raise ValueError",
       "every request code other than FETCH is given the POST/2.04 code style instead of being refused")
R.seed("C11.e", F_OS, '            if not tail:\n                raise DecodeError("Context hint announced but not present")\n', "", "the length byte of the kid context is read without a check that it is there: IndexError instead of a protection error")
R.seed("C11.e", F_OS, "            if not tail:\n", "            if len(tail) < 0:\n", "a length test of the right local that can never fire: the read of the kid context length byte can still raise IndexError")
R.seed("C11.e", F_OS, '        if option_data == b"":\n            firstbyte = 0\n        else:\n            firstbyte = option_data[0]\n            tail = option_data[1:]\n', "        firstbyte = option_data[0]\n        tail = option_data[1:]\n",
       "an empty OSCORE option raises IndexError")
# seeds for C11.i (third round: request / response binding at the users of protect / unprotect)
F_TR = "aiocoap/transports/oscore.py"
F_SW = "aiocoap/oscore_sitewrapper.py"
R.seed("C11.i", F_TR, "                wire_request, original_request_seqno = protect(\n                    unprotected_response.opt.echo\n                )\n",
       "                wire_request, _ = protect(\n                    unprotected_response.opt.echo\n                )\n",
       "the identifiers of the re-protected request (Echo retry) are dropped: later responses are checked against the first request")
R.seed("C11.i", F_TR, "                wire_request, original_request_seqno = protect(\n                    unprotected_response.opt.echo\n                )\n\n"
       "                protected_response = await wire_request.response\n                unprotected_response, _ = secctx.unprotect(\n                    protected_response, original_request_seqno\n                )\n",
       "                again = lambda r, _ids=original_request_seqno: secctx.unprotect(r, _ids)\n                wire_request, original_request_seqno = protect(\n                    unprotected_response.opt.echo\n                )\n\n"
       "                protected_response = await wire_request.response\n                unprotected_response, _ = again(protected_response)\n",
       "the identifiers are bound as a default argument of a callable made before the retry rebinds them")
R.seed("C11.i", F_TR, "                protected_response = await wire_request.response\n                unprotected_response, _ = secctx.unprotect(\n",
       "                unprotected_response, _ = secctx.unprotect(\n",
       "the response to the first request is unprotected again with the identifiers of the second request")
R.seed("C11.i", F_SW, "            protected_response, _ = sc.protect(message, seqno)\n", "            protected_response, _ = sc.protect(message)\n",
       "the response is protected without the identifiers of the request it answers")
R.seed("C11.i", F_SW, "            unprotected, seqno = sc.unprotect(request)\n", "            unprotected, seqno = sc.unprotect(request)\n            _, seqno = sc.protect(unprotected)\n",
       "the response is protected with identifiers that do not come from unprotecting the request")
# seeds for C11.j (fifth round: the option survives the round trip over the whole admissible range) and C11.k (key derivation)
R.seed("C11.j", F_OS, "        pivsz = firstbyte & COMPRESSION_BITS_N\n", "        pivsz = firstbyte & COMPRESSION_BITS_N\n        if pivsz > MAX_SEQNO.bit_length() // 8 - 1:\n            raise DecodeError(\"Partial IV length is reserved\")\n",
       "the reader refuses the reserved partial IV lengths through a limit that is one too small (legal 5-byte partial IVs are refused)")
R.seed("C11.j", F_OS, "            if len(tail) < pivsz:\n", "            if len(tail) <= pivsz:\n", "the reader refuses an option that ends with its partial IV (every response that carries its own partial IV)")
R.seed("C11.j", F_OS, "            if len(tail) - 1 < s:\n", "            if len(tail) - 1 <= s:\n", "the reader refuses an option that ends with its kid context")
R.seed("C11.j", F_OS, "        if len(piv) > COMPRESSION_BITS_N:\n", "        if len(piv) > COMPRESSION_BITS_N // 2 + 1:\n", "the writer refuses 5-byte partial IVs (sequence numbers from 2^32)")
R.seed("C11.j", F_OS, "            if s > 255:\n", "            if s > 127:\n", "the writer refuses kid contexts of 128..255 bytes")
R.seed("C11.j", F_OS, "            partial_iv_short = unprotected.pop(COSE_PIV)\n            partial_iv_generated_by = self.recipient_id\n",
       "            partial_iv_short = unprotected.pop(COSE_PIV)\n            partial_iv_generated_by = self.recipient_id\n            if int.from_bytes(partial_iv_short, \"big\") >= 2**32:\n                raise ProtectionInvalid(\"Sequence number out of range\")\n",
       "unprotect refuses sequence numbers from 2^32 before it decrypts")
R.seed("C11.k", F_OS, "            role_id,\n            self.id_context,\n            the_field_called_alg_aead,", "            role_id,\n            None,\n            the_field_called_alg_aead,",
       "the ID context no longer enters the key derivation: contexts that differ only in it share their keys")
R.seed("C11.k", F_OS, "        expanded = hkdf.derive(ikm)\n        return expanded\n", "        expanded = _HKDF_RESULTS.setdefault((salt, ikm, cbor.dumps(info), l), hkdf.derive(ikm))\n        return expanded\n",
       "HKDF results are shared through a module-level store whose key lacks the hash function")
R.seed("C11.k", F_OS, '        _alglog.debug("Deriving through KDF:")\n', '        try:\n            return type(self)._kdf_results[salt, ikm, role_id, out_type, key_alg]\n        except KeyError:\n            pass\n        _alglog.debug("Deriving through KDF:")\n',
       "derived keys are answered from a class-level store keyed by the call arguments only (ID context, algorithms and hash function of the context are not in the key)")
R.seed("C11.k", F_OS, '        self.recipient_key = self._kdf(\n            master_salt, master_secret, self.recipient_id, "Key", self.alg_aead\n        )\n\n        self.common_iv',
       '        self.recipient_key = self._kdf(\n            master_salt, master_secret, self.sender_id, "Key", self.alg_aead\n        )\n\n        self.common_iv',
       "the recipient key is derived for the sender ID: the two ends no longer agree on the keys")
R.seed("C11.k", F_OS, "            algorithm=self.hashfun,\n            length=l,", "            algorithm=hashes.SHA256(),\n            length=l,", "the KDF ignores the hash function configured for the context")
# seeds of the eighth pass: fields that are rewritten on their way out of the option, and fields cut by a local helper
R.seed("C11.d", F_OS, "            unprotected[COSE_PIV] = tail[:pivsz]\n", "            unprotected[COSE_PIV] = tail[:pivsz].lstrip(b\"\\0\") or b\"\\0\"\n",
       "the partial IV is canonicalised while decoding: a zero-extended partial IV decodes like the minimal one")
R.seed("C11.d", F_OS, "            unprotected[COSE_KID_CONTEXT] = tail[:s]\n", "            unprotected[COSE_KID_CONTEXT] = tail[:s].strip()\n",
       "the kid context is stripped of whitespace bytes while decoding")
R.seed("C11.h", F_OS, "            if len(tail) < pivsz:\n                raise DecodeError(\"Partial IV announced but not present\")\n            unprotected[COSE_PIV] = tail[:pivsz]\n",
       "            cut = lambda n: tail[:n]\n            unprotected[COSE_PIV] = cut(pivsz)\n",
       "the partial IV is cut by a local helper that has no bounds check")
