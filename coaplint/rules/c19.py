"""C19 File server confinement.

Structural clauses decided on the syntax tree of aiocoap/cli/fileserver.py
(class FileServer) plus the class hierarchy of aiocoap/error.py.

Modelling decisions (all stated in the evidence `explanation` as well):

* A *file-system sink* is a call of a pathlib method that touches (or, for
  `relative_to`, formats) a path, a `tempfile` constructor, `open`, or an
  `os`/`shutil` function.  The sanitiser `request_to_localpath` itself is not
  scanned for sinks (it is judged by C19.b instead).
* A value is *sanitised* ("path") when it is the result of
  `self.request_to_localpath(...)`, `self.root` itself, `.parent` / `.resolve()`
  / `.absolute()` / `Path()` / `str()` of a sanitised value, a child produced by
  `iterdir()`/`glob()` of a sanitised value, a key of `self._observations`
  (provided every key ever inserted is sanitised), the `.name` of a temp file
  created with `dir=<sanitised>`, a local all of whose definitions are
  sanitised, or a parameter bound to a sanitised value at every `self.m(...)`
  call site in the class (one level of call-argument binding).
* C19.b interprets the guards in front of the sanitiser's `return` over a small
  vocabulary of idioms (documented at `_guard_facts`).  A fact counts when the
  set of branch outcomes establishing it collectively dominates the return, so
  `if a or b: raise` / `if a: raise; if b: raise` / a `for` loop with a raising
  test are equivalent.  `assert` never creates a branch and so never counts.
"""

import ast

from ..rulekit import *
from ..norm import Normalizer, Poly
from ..exc import EscapeAnalysis

R = Rules(
    "C19",
    explanation=(
        "Structural clauses of the file server decided on the syntax tree of cli/fileserver.py: (a) every "
        "file-system sink of FileServer receives a path that flows from the single sanitiser "
        "request_to_localpath (directly, via .parent, via iterdir() children, via keys of _observations, via "
        "a temp file created inside a sanitised directory, or via a parameter bound to such a value at every "
        "call site); (b) the sanitiser returns self.root / '/'.join(components) of the request's Uri-Path and "
        "branch outcomes that collectively dominate the return exclude a component containing '/', the "
        "components '.' and '..', and an absolute join (empty non-final or first component, absolute joined "
        "value, or containment of the result in self.root); (c) every mutating sink is dominated by the "
        "self.write test, whose failing side answers 4.03, and self.write is only assigned in __init__; "
        "(d) render_get_file seeks to block.start, reads block.size+1 bytes in binary mode, sets more iff "
        "len(data) > block.size, sends data[:block.size] and answers (block.number, more, block.szx), with "
        "start = number*size; (e) the sanitiser's only escapes are 4.00 renderable errors, the trailing-slash "
        "errors are 4.00, and undominated stat/unlink probes in render_* map FileNotFoundError to 4.04/4.12. "
        "Paper step: with (a)-(b) every path handed to the operating system is root, or root joined with a "
        "relative string none of whose components is '.', '..' or contains '/', hence lexically below root. "
        "Not decided: symlinks inside the root, races with other processes, NUL bytes (rejected by the OS "
        "layer with ValueError before any access)."
    ),
    rule_text="def-use flow with one level of call-argument binding, collective dominance of guard outcomes on the CFG, polynomial normal forms, class-hierarchy facts, escape sets",
)

FS = "cli.fileserver.FileServer"
SANITISER = "request_to_localpath"

PATH_READ = {"stat", "lstat", "exists", "is_dir", "is_file", "is_symlink", "is_mount", "open", "iterdir", "glob", "rglob",
             "read_bytes", "read_text", "samefile", "owner", "group", "readlink", "relative_to", "walk"}
PATH_WRITE = {"unlink", "rename", "mkdir", "rmdir", "touch", "write_bytes", "write_text", "symlink_to", "hardlink_to",
              "link_to", "chmod", "lchmod"}
# Path.replace(target) takes one argument, str.replace two: only the former is a sink
TEMP_CTORS = {"tempfile.NamedTemporaryFile", "tempfile.TemporaryFile", "tempfile.SpooledTemporaryFile", "tempfile.mkstemp",
              "tempfile.mkdtemp", "tempfile.TemporaryDirectory", "tempfile.mktemp"}
OS_READ = {"os.stat", "os.lstat", "os.listdir", "os.scandir", "os.walk", "os.open", "os.access", "os.readlink",
           "os.path.exists", "os.path.isfile", "os.path.isdir", "os.path.getsize", "os.path.getmtime", "open", "io.open"}
OS_WRITE = {"os.remove", "os.unlink", "os.rename", "os.replace", "os.mkdir", "os.makedirs", "os.rmdir", "os.removedirs",
            "os.symlink", "os.link", "os.chmod", "os.chown", "os.truncate", "os.utime", "shutil.rmtree", "shutil.copy",
            "shutil.copy2", "shutil.copyfile", "shutil.copytree", "shutil.move"}
FILE_WRITE = {"write", "writelines", "truncate"}
WRAPPERS = {"Path", "pathlib.Path", "PurePath", "pathlib.PurePath", "PurePosixPath", "pathlib.PurePosixPath", "str", "os.fspath"}
SAME_PATH_METHODS = {"resolve", "absolute", "expanduser"}


# ---------------------------------------------------------------------------
# class walking


def _class_funcs(prog):
    """All functions of FileServer: methods and functions nested in them."""
    ci = prog.cls(FS)
    out = []
    for fi in prog.funcs.values():
        f = fi
        while f is not None and f.cls is None:
            f = f.parent
        if f is not None and f.cls is ci:
            out.append(fi)
    return ci, out


class Scope:
    """A function (or a lambda inside one) in which names are evaluated."""

    def __init__(self, fi, lam=None, outer=None):
        self.fi = fi
        self.lam = lam
        self.outer = outer

    @property
    def node(self):
        return self.lam if self.lam is not None else self.fi.node

    def param_default(self, name):
        """(is_param, default expr or None)"""
        a = self.node.args
        allp = a.posonlyargs + a.args
        defaults = [None] * (len(allp) - len(a.defaults)) + list(a.defaults)
        for p, d in zip(allp, defaults):
            if p.arg == name:
                return True, d
        for p, d in zip(a.kwonlyargs, a.kw_defaults):
            if p.arg == name:
                return True, d
        return False, None


def _scopes(fi):
    """The function's own scope plus one scope per lambda (recursively)."""
    out = [Scope(fi, None, _outer_scope(fi))]

    def lambdas(root, outer):
        for n in walk_no_nested(root, include_root=False) if not isinstance(root, ast.Lambda) else _lambda_children(root):
            if isinstance(n, ast.Lambda):
                s = Scope(fi, n, outer)
                out.append(s)
                lambdas(n, s)
    lambdas(fi.node, out[0])
    return out


def _lambda_children(lam):
    todo = [lam.body]
    while todo:
        n = todo.pop()
        yield n
        if isinstance(n, (ast.Lambda, ast.FunctionDef, ast.AsyncFunctionDef, ast.ClassDef)):
            continue
        todo.extend(ast.iter_child_nodes(n))


def _outer_scope(fi):
    return Scope(fi.parent, None, _outer_scope(fi.parent)) if fi.parent is not None else None


def _scope_nodes(scope):
    """AST nodes evaluated in this scope (not in nested defs/lambdas)."""
    if scope.lam is not None:
        return list(_lambda_children(scope.lam))
    return list(walk_no_nested(scope.fi.node))


# ---------------------------------------------------------------------------
# flow: which expressions are sanitised


class Flow:
    def __init__(self, prog):
        self.prog = prog
        self.ci, self.funcs = _class_funcs(prog)
        self._param = {}
        self._obs = None
        self._busy = set()

    # -- sinks -----------------------------------------------------------
    def ext_name(self, fi, call):
        dotted = chain(call.func)
        if not dotted:
            return None
        head = dotted.split(".")[0]
        if head in fi.module.imports:
            return ".".join([fi.module.imports[head]] + dotted.split(".")[1:])
        return dotted

    def sinks(self, scope):
        """[(call, [path expressions that must be sanitised], mutating?, label)]"""
        out = []
        fi = scope.fi
        for n in _scope_nodes(scope):
            if not isinstance(n, ast.Call):
                continue
            f = n.func
            ext = self.ext_name(fi, n)
            if ext in TEMP_CTORS:
                d = next((k.value for k in n.keywords if k.arg == "dir"), None)
                if d is None and ext in ("tempfile.mkstemp", "tempfile.mkdtemp", "tempfile.mktemp") and len(n.args) >= 3:
                    d = n.args[2]
                out.append((n, [d], True, ext.split(".")[-1] + "(dir=...)"))
                continue
            if ext in OS_READ or ext in OS_WRITE:
                two = ext in ("os.rename", "os.replace", "os.symlink", "os.link") or ext.startswith("shutil.")
                paths = list(n.args[:2] if two else n.args[:1]) or [None]
                mut = ext in OS_WRITE or ext == "os.open" or (ext in ("open", "io.open") and _open_mode_writes(n, 1))
                out.append((n, paths, mut, ext + "()"))
                continue
            if isinstance(f, ast.Attribute):
                name = f.attr
                if name in PATH_READ or name in PATH_WRITE or (name == "replace" and len(n.args) == 1 and not n.keywords):
                    mut = name in PATH_WRITE or name == "replace" or (name == "open" and _open_mode_writes(n, 0))
                    paths = [f.value]
                    if name in ("rename", "replace", "symlink_to", "hardlink_to", "link_to", "samefile") and n.args:
                        paths.append(n.args[0])
                    out.append((n, paths, mut, "." + name + "()"))
        return out

    def file_writes(self, scope):
        """Calls of write/writelines/truncate on objects opened in this scope."""
        out = []
        for n in _scope_nodes(scope):
            if isinstance(n, ast.Call) and isinstance(n.func, ast.Attribute) and n.func.attr in FILE_WRITE:
                out.append(n)
        return out

    # -- sanitised values ------------------------------------------------
    def kind(self, scope, e, depth=0):
        """'path' (sanitised path), 'tmp' (temp file object created in a sanitised directory) or None."""
        if e is None or depth > 12:
            return None
        if isinstance(e, ast.Name):
            return self._name_kind(scope, e.id, depth)
        if isinstance(e, ast.Attribute):
            if chain(e) == "self.root":
                return "path"
            k = self.kind(scope, e.value, depth + 1)
            if e.attr == "parent" and k == "path":
                return "path"
            if e.attr == "name" and k == "tmp":
                return "path"
            return None
        if isinstance(e, ast.Call):
            if match("self.%s($*a)" % SANITISER, e) is not None and not e.keywords:
                return "path"
            fn = self.ext_name(scope.fi, e)
            if fn in TEMP_CTORS:
                d = next((k.value for k in e.keywords if k.arg == "dir"), None)
                return "tmp" if self.kind(scope, d, depth + 1) == "path" else None
            if chain(e.func) in WRAPPERS and len(e.args) == 1 and not e.keywords:
                return "path" if self.kind(scope, e.args[0], depth + 1) == "path" else None
            if isinstance(e.func, ast.Attribute) and e.func.attr in SAME_PATH_METHODS:
                return "path" if self.kind(scope, e.func.value, depth + 1) == "path" else None
            if isinstance(e.func, ast.Attribute) and e.func.attr in ("with_suffix", "with_name", "with_stem") and len(e.args) == 1 and not e.keywords:
                # a sibling with a constant, separator-free name stays in the sanitised directory
                c = _const_str_(e.args[0])
                if c is not None and "/" not in c and c not in (".", "..") and "\0" not in c:
                    return "path" if self.kind(scope, e.func.value, depth + 1) == "path" else None
            return None
        if isinstance(e, ast.BinOp) and isinstance(e.op, ast.Div):
            # a constant, harmless child name below a sanitised directory
            if self.kind(scope, e.left, depth + 1) == "path" and isinstance(e.right, ast.Constant) and isinstance(e.right.value, str):
                c = e.right.value
                if c and "/" not in c and c not in (".", "..") and "\0" not in c:
                    return "path"
            return None
        if isinstance(e, ast.IfExp):
            a, b = self.kind(scope, e.body, depth + 1), self.kind(scope, e.orelse, depth + 1)
            return a if a == b else None
        return None

    def _name_kind(self, scope, name, depth):
        key = (id(scope.node), name)
        if key in self._busy:
            return None
        self._busy.add(key)
        try:
            is_param, default = scope.param_default(name)
            writes = writes_to_name(scope.node, name) if scope.lam is None else []
            if is_param:
                if writes:
                    return None
                if default is not None and scope.outer is not None and (scope.lam is not None or scope.fi.parent is not None):
                    # closure-capturing default (`path=path`), evaluated in the enclosing scope
                    return self.kind(scope.outer, default, depth + 1)
                if scope.lam is not None or scope.fi.cls is None:
                    return None
                return self._param_kind(scope.fi, name, depth)
            if not writes:
                if scope.outer is not None:
                    return self._name_kind(scope.outer, name, depth + 1)
                return None
            kinds = {self._write_kind(scope, w, name, depth) for w in writes}
            return kinds.pop() if len(kinds) == 1 else None
        finally:
            self._busy.discard(key)

    def _write_kind(self, scope, w, name, depth):
        if isinstance(w, ast.Assign):
            if len(w.targets) == 1 and isinstance(w.targets[0], ast.Name):
                return self.kind(scope, w.value, depth + 1)
            return None
        if isinstance(w, ast.AnnAssign) and w.value is not None:
            return self.kind(scope, w.value, depth + 1)
        if isinstance(w, (ast.For, ast.AsyncFor)):
            it = w.iter
            if isinstance(w.target, ast.Name):
                if isinstance(it, ast.Call) and isinstance(it.func, ast.Attribute) and it.func.attr in ("iterdir", "glob", "rglob"):
                    return "path" if self.kind(scope, it.func.value, depth + 1) == "path" else None
                if self._obs_iter(it) == "keys":
                    return "path" if self.obs_keys_clean() else None
                return None
            if isinstance(w.target, (ast.Tuple, ast.List)) and w.target.elts and isinstance(w.target.elts[0], ast.Name) and w.target.elts[0].id == name:
                if self._obs_iter(it) == "items":
                    return "path" if self.obs_keys_clean() else None
            return None
        if isinstance(w, (ast.With, ast.AsyncWith)):
            for item in w.items:
                if isinstance(item.optional_vars, ast.Name) and item.optional_vars.id == name:
                    return self.kind(scope, item.context_expr, depth + 1)
            return None
        return None

    def _obs_iter(self, it):
        """'items' / 'keys' when `it` enumerates self._observations (possibly copied by list/tuple/sorted)."""
        while isinstance(it, ast.Call) and chain(it.func) in ("list", "tuple", "sorted", "iter", "set", "frozenset") and len(it.args) == 1:
            it = it.args[0]
        if chain(it) == "self._observations":
            return "keys"
        if isinstance(it, ast.Call) and isinstance(it.func, ast.Attribute) and chain(it.func.value) == "self._observations" and not it.args:
            if it.func.attr == "items":
                return "items"
            if it.func.attr == "keys":
                return "keys"
        return None

    def obs_keys_clean(self):
        if self._obs is None:
            self._obs = False  # recursion guard: a cycle through the table is not a source
            ok = True
            n_ins = 0
            for fi in self.funcs:
                for scope in _scopes(fi):
                    nodes = _scope_nodes(scope)
                    for n in nodes:
                        key = None
                        if isinstance(n, (ast.Assign, ast.AugAssign, ast.AnnAssign)):
                            tgts = n.targets if isinstance(n, ast.Assign) else [n.target]
                            for t in tgts:
                                for tt in (t.elts if isinstance(t, (ast.Tuple, ast.List)) else [t]):
                                    if chain(tt) == "self._observations":
                                        v = n.value
                                        empty = (isinstance(v, ast.Dict) and not v.keys) or (isinstance(v, ast.Call) and chain(v.func) == "dict" and not v.args and not v.keywords)
                                        if not empty:
                                            ok = False
                                    elif isinstance(tt, ast.Subscript) and chain(tt.value) == "self._observations":
                                        key = tt.slice
                        elif isinstance(n, ast.Call) and isinstance(n.func, ast.Attribute) and chain(n.func.value) == "self._observations":
                            if n.func.attr == "setdefault" and n.args:
                                key = n.args[0]
                            elif n.func.attr in ("update", "__setitem__", "fromkeys"):
                                ok = False
                        if key is not None:
                            n_ins += 1
                            if self.kind(scope, key) != "path":
                                ok = False
            self._obs = ok and n_ins >= 1
        return self._obs

    def call_sites(self, meth_name):
        """[(scope, call)] of self.<meth>(...) anywhere in the class."""
        out = []
        for fi in self.funcs:
            for scope in _scopes(fi):
                for n in _scope_nodes(scope):
                    if isinstance(n, ast.Call) and chain(n.func) == "self." + meth_name:
                        out.append((scope, n))
        return out

    def _param_kind(self, fi, name, depth):
        key = (fi.qn, name)
        if key in self._param:
            return self._param[key]
        self._param[key] = None
        pn = params(fi)
        sites = self.call_sites(fi.name)
        kinds = set()
        for scope, call in sites:
            arg = None
            if any(isinstance(a, ast.Starred) for a in call.args) or any(k.arg is None for k in call.keywords):
                kinds.add(None)
                continue
            if name in pn and pn.index(name) < len(call.args):
                arg = call.args[pn.index(name)]
            else:
                arg = next((k.value for k in call.keywords if k.arg == name), None)
            kinds.add(self.kind(scope, arg, depth + 1))
        res = kinds.pop() if len(kinds) == 1 and sites else None
        self._param[key] = res
        return res


def _const_str_(e):
    return e.value if isinstance(e, ast.Constant) and isinstance(e.value, str) else None


def _open_mode_writes(call, pos):
    mode = call.args[pos] if len(call.args) > pos else next((k.value for k in call.keywords if k.arg == "mode"), None)
    if mode is None:
        return False
    if isinstance(mode, ast.Constant) and isinstance(mode.value, str):
        return any(c in mode.value for c in "wax+")
    return True  # unknown mode: assume it may write


def _is_sanitiser(fi):
    f = fi
    while f is not None:
        if f.cls is not None and f.name == SANITISER:
            return True
        f = f.parent
    return False


# ---------------------------------------------------------------------------
@R.clause("C19.a", "every file-system sink of FileServer takes its path from request_to_localpath")
def a(ctx):
    fl = Flow(ctx.prog)
    ctx.prog.func(FS + "." + SANITISER)
    n = 0
    for fi in fl.funcs:
        if _is_sanitiser(fi):
            continue
        for scope in _scopes(fi):
            for call, paths, mut, label in fl.sinks(scope):
                for p in paths:
                    n += 1
                    ok = fl.kind(scope, p) == "path"
                    what = "no directory given (system temp dir)" if p is None else stmt_text(p, 80)
                    ctx.ob("the path reaching %s is derived from request_to_localpath" % label, ok, fi, call,
                           detail="path expression: %s" % what)
    ctx.floor("file-system sinks in FileServer", n, 14)
    ctx.note("%d sink operands inspected; keys of _observations sanitised: %s" % (n, fl.obs_keys_clean()))


# ---------------------------------------------------------------------------
# C19.b


def _const_str(e):
    return e.value if isinstance(e, ast.Constant) and isinstance(e.value, str) else None


def _const_strs(prog, fi, e):
    """Set of constant strings of a tuple/list/set display (possibly via a local or module constant)."""
    e = resolve_local(fi.node, e)
    if isinstance(e, ast.Name):
        try:
            e = prog.module_const(fi.module.name, e.id)
        except AnalysisError:
            return None
    if isinstance(e, (ast.Tuple, ast.List, ast.Set)):
        vals = [_const_str(x) for x in e.elts]
        if all(v is not None for v in vals):
            return set(vals)
    if isinstance(e, ast.Call) and chain(e.func) in ("frozenset", "set", "tuple", "list") and len(e.args) == 1:
        return _const_strs(prog, fi, e.args[0])
    return None


class Sanitiser:
    """Shape of request_to_localpath: result R = self.root / J, J = "/".join(P), P = <request>.opt.uri_path."""

    def __init__(self, ctx):
        prog = ctx.prog
        self.ctx = ctx
        self.prog = prog
        self.fi = fi = prog.func(FS + "." + SANITISER)
        self.cfg = cfg_of(fi)
        p = params(fi)
        ctx.need(len(p) >= 1, "request_to_localpath has no request parameter")
        self.req = p[0]
        self.rets = [n for n in self.cfg.nodes if n.kind == "return" and self.cfg.is_reachable(n.id)]
        ctx.need(self.rets, "request_to_localpath has no reachable return")
        ctx.need(self.cfg.exit not in self.cfg.reach({self.cfg.entry}, avoid={n.id for n in self.rets}, skip_labels=("exc",)),
                 "request_to_localpath can fall off its end without returning a path")
        self.shapes = {}
        for r in self.rets:
            self.shapes[r.id] = self._shape(r.ast.value)

    def _strip(self, e):
        """Peel .resolve()/.absolute() and single-assignment locals."""
        resolved = False
        for _ in range(6):
            e2 = resolve_local(self.fi.node, e)
            if isinstance(e2, ast.Call) and isinstance(e2.func, ast.Attribute) and e2.func.attr in SAME_PATH_METHODS and not e2.args:
                resolved = resolved or e2.func.attr == "resolve"
                e2 = e2.func.value
            if e2 is e:
                break
            e = e2
        return e, resolved

    def _shape(self, v):
        ctx = self.ctx
        ctx.need(v is not None, "request_to_localpath returns no value")
        Rx, _ = self._strip(v)
        b = match("self.root / $j", Rx)
        ctx.need(b is not None, "returned value %s is not of the form self.root / <joined components>" % stmt_text(Rx, 80))
        J = resolve_local(self.fi.node, b["j"])
        jb = match("$s.join($p)", J)
        ctx.need(jb is not None and _const_str(jb["s"]) == "/", "joined value %s is not '/'.join(<components>)" % stmt_text(J, 80))
        P = resolve_local(self.fi.node, jb["p"])
        return {"R": Rx, "J": J, "P": P, "Jsrc": b["j"], "Psrc": jb["p"]}

    # value identity up to single-assignment locals
    def _same(self, e, ref):
        return dump(resolve_local(self.fi.node, e)) == dump(ref)

    def is_P(self, sh, e):
        return self._same(e, sh["P"])

    def is_J(self, sh, e):
        return self._same(e, sh["J"])

    def R_like(self, sh, e):
        """(is the result, resolved?) -- looks through str()/.resolve()/.absolute()"""
        resolved = False
        for _ in range(6):
            e = resolve_local(self.fi.node, e)
            if dump(e) == dump(sh["R"]):
                return True, resolved
            if isinstance(e, ast.Call) and chain(e.func) in WRAPPERS and len(e.args) == 1:
                e = e.args[0]
            elif isinstance(e, ast.Call) and isinstance(e.func, ast.Attribute) and e.func.attr in SAME_PATH_METHODS and not e.args:
                resolved = resolved or e.func.attr == "resolve"
                e = e.func.value
            else:
                return False, False
        return False, False

    def root_like(self, e):
        resolved = False
        for _ in range(6):
            e = resolve_local(self.fi.node, e)
            if chain(e) == "self.root":
                return True, resolved
            if isinstance(e, ast.Call) and chain(e.func) in WRAPPERS and len(e.args) == 1:
                e = e.args[0]
            elif isinstance(e, ast.Call) and isinstance(e.func, ast.Attribute) and e.func.attr in SAME_PATH_METHODS and not e.args:
                resolved = resolved or e.func.attr == "resolve"
                e = e.func.value
            else:
                return False, False
        return False, False

    # ---- per-element predicates ---------------------------------------
    def elem_facts(self, e, pol, var):
        """Facts about every element `var` given that predicate e has truth value pol:
        'slash' (contains no '/'), ('ne', c) (differs from constant c)."""
        if isinstance(e, ast.BoolOp):
            if (isinstance(e.op, ast.Or) and not pol) or (isinstance(e.op, ast.And) and pol):
                out = set()
                for v in e.values:
                    out |= self.elem_facts(v, pol, var)
                return out
            return set()
        if isinstance(e, ast.UnaryOp) and isinstance(e.op, ast.Not):
            return self.elem_facts(e.operand, not pol, var)
        if isinstance(e, ast.Name) and e.id == var:
            return {("ne", "")} if pol else set()
        if isinstance(e, ast.Compare) and len(e.ops) == 1:
            op, l, r = e.ops[0], e.left, e.comparators[0]
            isvar = lambda x: isinstance(x, ast.Name) and x.id == var
            if isinstance(op, (ast.In, ast.NotIn)):
                excluded = (isinstance(op, ast.In) and not pol) or (isinstance(op, ast.NotIn) and pol)
                if not excluded:
                    return set()
                if isvar(r) and _const_str(l) == "/":
                    return {"slash"}
                if isvar(l):
                    cs = _const_strs(self.prog, self.fi, r)
                    if cs is not None:
                        return {("ne", c) for c in cs}
                return set()
            if isinstance(op, (ast.Eq, ast.NotEq)):
                excluded = (isinstance(op, ast.Eq) and not pol) or (isinstance(op, ast.NotEq) and pol)
                if not excluded:
                    return set()
                if isvar(l) and _const_str(r) is not None:
                    return {("ne", _const_str(r))}
                if isvar(r) and _const_str(l) is not None:
                    return {("ne", _const_str(l))}
            return set()
        if isinstance(e, ast.Call) and isinstance(e.func, ast.Attribute) and isinstance(e.func.value, ast.Name) and e.func.value.id == var:
            if e.func.attr == "startswith" and len(e.args) == 1 and not pol:
                c = _const_str(e.args[0])
                if c == ".":
                    return {("ne", "."), ("ne", "..")}
            if e.func.attr == "count" and len(e.args) == 1 and _const_str(e.args[0]) == "/" and not pol:
                return {"slash"}  # `if p.count("/"): raise`
        return set()

    @staticmethod
    def _to_tags(efacts, scope):
        tags = set()
        if scope == "all":
            if "slash" in efacts:
                tags.add("slash")
            if ("ne", ".") in efacts:
                tags.add("dot")
            if ("ne", "..") in efacts:
                tags.add("dotdot")
        if ("ne", "") in efacts and scope in ("all", "nonfinal", "first"):
            tags.add("abs")
        return tags

    def iter_scope(self, sh, it):
        """Which components does iterating `it` visit: 'all', 'nonfinal' (P[:-1]), 'first' (P[:1]) or None."""
        it = resolve_local(self.fi.node, it)
        while isinstance(it, ast.Call) and chain(it.func) in ("list", "tuple", "iter") and len(it.args) == 1:
            it = resolve_local(self.fi.node, it.args[0])
        if dump(it) == dump(sh["P"]):
            return "all"
        if isinstance(it, ast.Subscript) and isinstance(it.slice, ast.Slice) and self.is_P(sh, it.value):
            s = it.slice
            lo = None if s.lower is None else _int_const(s.lower)
            hi = None if s.upper is None else _int_const(s.upper)
            if s.step is not None or (s.lower is not None and lo is None) or (s.upper is not None and hi is None):
                return None
            if lo in (None, 0) and hi == -1:
                return "nonfinal"
            if lo in (None, 0) and hi is None:
                return "all"
            if lo in (None, 0) and hi is not None and hi >= 1:
                return "first"
        return None

    def guard_facts(self, sh, e, pol):
        """Facts (subset of slash/dot/dotdot/abs) established when atomic test e evaluates to pol.

        Vocabulary:
          any(PRED(x) for x in P|P[:-1]) is False / all(...) is True   (per-element predicates: "/" in x,
              x in (consts), x == c, x != c, truthiness of x, x.startswith("."), and/or/not of these)
          c in P / c in P[:-1] is False for c in "", ".", ".."          all(P[:-1]) is True
          P[0] == "" is False / P[0] is truthy                           P is empty (everything holds vacuously)
          len(P) <op> k leaving at most one component (no interior '/' possible, so no absolute join given (i))
          J.startswith("/") is False, os.path.isabs(J) is False, PurePath(J).is_absolute() is False
          R.is_relative_to(root) is True, commonpath([root, R]) == root is True, root in R.parents is True
              (with .resolve() on both sides these also establish slash/dot/dotdot: true containment)
        """
        fn = self.fi.node
        if isinstance(e, ast.Call):
            name = chain(e.func)
            if name in ("any", "all") and len(e.args) == 1 and not e.keywords:
                g = e.args[0]
                if isinstance(g, (ast.GeneratorExp, ast.ListComp)) and len(g.generators) == 1:
                    comp = g.generators[0]
                    if comp.ifs or comp.is_async or not isinstance(comp.target, ast.Name):
                        return set()
                    scope = self.iter_scope(sh, comp.iter)
                    if scope is None:
                        return set()
                    if name == "any" and not pol:
                        return self._to_tags(self.elem_facts(g.elt, False, comp.target.id), scope)
                    if name == "all" and pol:
                        return self._to_tags(self.elem_facts(g.elt, True, comp.target.id), scope)
                    return set()
                if name == "all" and pol:
                    scope = self.iter_scope(sh, g)
                    return {"abs"} if scope in ("all", "nonfinal", "first") else set()
                return set()
            # joined value
            if isinstance(e.func, ast.Attribute) and e.func.attr == "startswith" and len(e.args) == 1 and _const_str(e.args[0]) == "/" and not pol:
                if self.is_J(sh, e.func.value):
                    return {"abs"}
            if name in ("os.path.isabs", "posixpath.isabs") and len(e.args) == 1 and not pol and self.is_J(sh, e.args[0]):
                return {"abs"}
            if isinstance(e.func, ast.Attribute) and e.func.attr == "is_absolute" and not e.args and not pol:
                v = e.func.value
                if isinstance(v, ast.Call) and chain(v.func) in WRAPPERS and len(v.args) == 1 and self.is_J(sh, v.args[0]):
                    return {"abs"}
            # containment
            if isinstance(e.func, ast.Attribute) and e.func.attr == "is_relative_to" and len(e.args) == 1 and pol:
                isr, r1 = self.R_like(sh, e.func.value)
                isroot, r2 = self.root_like(e.args[0])
                if isr and isroot:
                    return {"slash", "dot", "dotdot", "abs"} if (r1 and r2) else {"abs"}
            return set()
        if isinstance(e, ast.Compare) and len(e.ops) == 1:
            op, l, r = e.ops[0], e.left, e.comparators[0]
            lf = self._len_facts(sh, op, l, r, pol)
            if lf:
                return lf
            if isinstance(op, (ast.In, ast.NotIn)):
                excluded = (isinstance(op, ast.In) and not pol) or (isinstance(op, ast.NotIn) and pol)
                c = _const_str(l)
                if excluded and c is not None:
                    scope = self.iter_scope(sh, r)
                    if scope is not None:
                        return self._to_tags({("ne", c)}, scope)
                if isinstance(op, ast.In) and pol or isinstance(op, ast.NotIn) and not pol:
                    # root in R.parents
                    if isinstance(r, ast.Attribute) and r.attr == "parents":
                        isr, r1 = self.R_like(sh, r.value)
                        isroot, r2 = self.root_like(l)
                        if isr and isroot:
                            return {"slash", "dot", "dotdot", "abs"} if (r1 and r2) else {"abs"}
                return set()
            if isinstance(op, (ast.Eq, ast.NotEq)):
                holds_eq = (isinstance(op, ast.Eq) and pol) or (isinstance(op, ast.NotEq) and not pol)
                # P[0] == ""
                for x, y in ((l, r), (r, l)):
                    if _const_str(y) == "" and isinstance(x, ast.Subscript) and _int_const(x.slice) == 0 and self.is_P(sh, x.value):
                        return {"abs"} if not holds_eq else set()
                # commonpath([root, R]) == root
                for x, y in ((l, r), (r, l)):
                    if isinstance(x, ast.Call) and chain(x.func) in ("os.path.commonpath", "posixpath.commonpath") and len(x.args) == 1 and holds_eq:
                        seq = resolve_local(fn, x.args[0])
                        if isinstance(seq, (ast.List, ast.Tuple)) and len(seq.elts) == 2:
                            for u, v in ((seq.elts[0], seq.elts[1]), (seq.elts[1], seq.elts[0])):
                                isroot, r2 = self.root_like(u)
                                isr, r1 = self.R_like(sh, v)
                                isroot2, r3 = self.root_like(y)
                                if isroot and isr and isroot2:
                                    return {"slash", "dot", "dotdot", "abs"} if (r1 and r2 and r3) else {"abs"}
            return set()
        # truthiness of P itself / of its first component
        if self.is_P(sh, e) and isinstance(e, (ast.Name, ast.Attribute)):
            return {"slash", "dot", "dotdot", "abs"} if not pol else set()
        if isinstance(e, ast.Subscript) and _int_const(e.slice) == 0 and self.is_P(sh, e.value):
            return {"abs"} if pol else set()
        return set()

    def _len_facts(self, sh, op, l, r, pol):
        """len(P) <op> k: no component at all establishes everything; at most one
        component cannot produce an interior '/' (so, given (i), no absolute join)."""
        import operator
        ops = {ast.Lt: operator.lt, ast.LtE: operator.le, ast.Gt: operator.gt, ast.GtE: operator.ge, ast.Eq: operator.eq, ast.NotEq: operator.ne}
        if type(op) not in ops:
            return set()
        def is_len(x):
            return isinstance(x, ast.Call) and chain(x.func) == "len" and len(x.args) == 1 and not x.keywords and self.is_P(sh, x.args[0])
        if is_len(l) and _int_const(r) is not None:
            f = lambda n: ops[type(op)](n, _int_const(r))
        elif is_len(r) and _int_const(l) is not None:
            f = lambda n: ops[type(op)](_int_const(l), n)
        else:
            return set()
        allowed = [n for n in range(0, 64) if f(n) == pol]
        if allowed and max(allowed) == 0:
            return {"slash", "dot", "dotdot", "abs"}
        if allowed and max(allowed) <= 1:
            return {"abs"}
        return set()

    def establishers(self, sh, ret_id):
        """fact -> set of CFG nodes after which the fact holds."""
        cfg = self.cfg
        est = {"slash": set(), "dot": set(), "dotdot": set(), "abs": set()}
        for n in cfg.nodes:
            if n.kind in ("T", "F") and not isinstance(n.ast, (ast.For, ast.AsyncFor)):
                for f in self.guard_facts(sh, n.ast, n.kind == "T"):
                    est[f].add(n.id)
        # explicit loops: for x in P: if PRED(x): raise
        for n in cfg.nodes:
            if n.kind != "for" or not isinstance(n.ast.target, ast.Name):
                continue
            scope = self.iter_scope(sh, n.ast.iter)
            if scope is None:
                continue
            var = n.ast.target.id
            if any(w is not n.ast for w in writes_to_name(self.fi.node, var)):
                continue
            t = [d for d, lab in cfg.succ[n.id] if lab == "T"]
            f = [d for d, lab in cfg.succ[n.id] if lab == "F"]
            if not t or not f:
                continue
            body = cfg.reach(set(t), avoid={n.id}, include_src=True)
            per_fact = {"slash": set(), "dot": set(), "dotdot": set(), "abs": set()}
            for b in body:
                bn = cfg.nodes[b]
                if bn.kind in ("T", "F") and not isinstance(bn.ast, (ast.For, ast.AsyncFor)):
                    for fact in self._to_tags(self.elem_facts(bn.ast, bn.kind == "T", var), scope):
                        per_fact[fact].add(b)
            for fact, nodes in per_fact.items():
                # the next iteration (and the loop exit) is only reached through one of `nodes`
                if nodes and n.id not in cfg.reach(set(t), avoid=nodes, include_src=True):
                    est[fact] |= set(f)
        # try: R.relative_to(root) except ValueError: raise
        for call, b in find("$r.relative_to($root)", self.fi.node):
            isr, r1 = self.R_like(sh, b["r"])
            isroot, r2 = self.root_like(b["root"])
            if not (isr and isroot):
                continue
            for nid in cfg.locate(call):
                hs = [d for d, lab in cfg.succ[nid] if lab == "exc" and d != cfg.rexit]
                if ret_id in cfg.reach(set(hs), include_src=True):
                    continue  # a handler swallows the failure
                for fact in ({"slash", "dot", "dotdot", "abs"} if (r1 and r2) else {"abs"}):
                    est[fact].add(nid)
        return est


def _int_const(e):
    if isinstance(e, ast.Constant) and isinstance(e.value, int) and not isinstance(e.value, bool):
        return e.value
    if isinstance(e, ast.UnaryOp) and isinstance(e.op, ast.USub) and isinstance(e.operand, ast.Constant) and isinstance(e.operand.value, int):
        return -e.operand.value
    return None


EXCLUSIONS = [
    ("slash", "(i) a component containing '/' never reaches the join"),
    ("dot", "(ii) the component '.' never reaches the join"),
    ("dotdot", "(iii) the component '..' never reaches the join"),
    ("abs", "(iv) the join cannot be absolute (empty leading/non-final component, absolute joined value or result outside self.root is rejected)"),
]


@R.clause("C19.b", "request_to_localpath returns self.root / '/'.join(uri_path) behind guards excluding '/', '.', '..' and an absolute join")
def b(ctx):
    S = Sanitiser(ctx)
    fi, cfg = S.fi, S.cfg
    for r in S.rets:
        sh = S.shapes[r.id]
        ctx.ob("the joined components are the request's Uri-Path", chain(sh["P"]) == "%s.opt.uri_path" % S.req and not writes_to_name(fi.node, S.req),
               fi, r.ast, detail="components: %s" % stmt_text(sh["P"], 80))
        est = S.establishers(sh, r.id)
        for tag, desc in EXCLUSIONS:
            nodes = est[tag]
            ok = bool(nodes) and r.id not in cfg.reach({cfg.entry}, avoid=nodes)
            witness = None
            if not ok and tag == "abs":
                witness = "no guard from the accepted idioms; e.g. Uri-Path ('', 'etc', 'hostname') joins to '/etc/hostname' and self.root / '/etc/hostname' is absolute"
            elif not ok:
                witness = "no dominating guard from the accepted idioms establishes this exclusion"
            ctx.ob(desc, ok, fi, r.ast, detail=witness)


# ---------------------------------------------------------------------------
# C19.c


def _is_write_flag(e):
    return chain(e) == "self.write"


def _write_guarded(cfg, nid):
    return any(_is_write_flag(e) and pol for e, pol, _ in cfg.guards(nid))


def _code_name(e):
    c = chain(e)
    return c.split(".")[-1] if c else None


def _exc_class_qn(prog, fi, e):
    """Qualified class of the expression raised (`X(...)` or `X`)."""
    if isinstance(e, ast.Call):
        e = e.func
    txt = chain(e)
    if not txt:
        return None
    q = prog.resolve_in_module(fi.module, txt)
    return q if q in prog.classes else None


def _class_code(prog, qn):
    v, _ = prog.class_attr(qn, "code")
    return _code_name(v) if v is not None else None


def _is_renderable(prog, qn):
    return prog.is_subclass(qn, "aiocoap.error.RenderableError")


def _responds_with(prog, fi, node, codes_ok):
    """Is CFG exit statement `node` (Return/Raise) an answer with one of the given code names?"""
    if isinstance(node, ast.Return) and node.value is not None:
        v = resolve_local(fi.node, node.value)
        if isinstance(v, ast.Call):
            code = next((k.value for k in v.keywords if k.arg == "code"), None)
            return code is not None and _code_name(code) in codes_ok
        return False
    if isinstance(node, ast.Raise) and node.exc is not None:
        q = _exc_class_qn(prog, fi, node.exc)
        return q is not None and _is_renderable(prog, q) and _class_code(prog, q) in codes_ok
    return False


@R.clause("C19.c", "every mutating sink is dominated by the self.write test whose failing side answers 4.03")
def c(ctx):
    prog = ctx.prog
    fl = Flow(prog)
    n = 0
    guarded_methods = {}
    for fi in fl.funcs:
        if _is_sanitiser(fi):
            continue
        for scope in _scopes(fi):
            muts = [(call, label) for call, paths, mut, label in fl.sinks(scope) if mut]
            muts += [(call, ".%s() on a file object" % call.func.attr) for call in fl.file_writes(scope)]
            for call, label in muts:
                n += 1
                if scope.lam is not None:
                    ctx.ob("mutating operation %s is dominated by the self.write test" % label, False, fi, call, detail="inside a lambda: not dominated by any test")
                    continue
                cfg = cfg_of(fi)
                ok = all(_write_guarded(cfg, nid) for nid in cfg.locate(call)) and bool(cfg.locate(call))
                how = "guard in the same function"
                if not ok and fi.cls is not None:
                    # one level: a helper all of whose call sites are guarded
                    sites = fl.call_sites(fi.name)
                    ok = bool(sites) and all(
                        s.lam is None and cfg_of(s.fi).locate(cs) and all(_write_guarded(cfg_of(s.fi), x) for x in cfg_of(s.fi).locate(cs))
                        for s, cs in sites)
                    how = "guard at all %d call site(s) of %s" % (len(sites), fi.name)
                    for s, cs in sites:
                        guarded_methods.setdefault(s.fi.qn, s.fi)
                else:
                    guarded_methods.setdefault(fi.qn, fi)
                ctx.ob("mutating operation %s is dominated by the self.write test" % label, ok, fi, call, detail=how if ok else "no dominating `self.write` outcome")
    ctx.floor("mutating sinks in FileServer", n, 5)

    # the failing side of the test answers 4.03 Forbidden and nothing else
    tests = 0
    for fi in guarded_methods.values():
        cfg = cfg_of(fi)
        for nd in cfg.nodes:
            if nd.kind == "F" and _is_write_flag(nd.ast) and cfg.is_reachable(nd.id):
                tests += 1
                reach = cfg.reach({nd.id}, skip_labels=("exc",))
                exits = [cfg.nodes[x] for x in reach if cfg.nodes[x].kind in ("return", "raise")]
                falls = cfg.exit in cfg.reach({nd.id}, avoid={x.id for x in exits}, skip_labels=("exc",))
                ok = bool(exits) and not falls and all(_responds_with(prog, fi, x.ast, {"FORBIDDEN"}) for x in exits)
                ctx.ob("without write permission the method answers 4.03 Forbidden", ok, fi, nd.ast,
                       construct="%s: not self.write" % fi.name,
                       detail="exits on the read-only side: %s" % "; ".join(stmt_text(x.ast, 60) for x in exits))
    ctx.floor("self.write tests in mutating methods", tests, 1)

    # self.write is configuration: assigned in __init__ only
    writers = []
    for fi in fl.funcs:
        for kind, node in stores_to(fi.node, "self.write"):
            writers.append((fi, node))
    ctx.floor("assignments of self.write", len(writers), 1)
    for fi, node in writers:
        ctx.ob("self.write is assigned only in __init__", fi.name == "__init__" and fi.cls is not None, fi, node)


# ---------------------------------------------------------------------------
# C19.d


@R.clause("C19.d", "render_get_file: seek(block.start), read(block.size+1), more iff len(data) > block.size, payload data[:block.size], Block2 (number, more, szx)")
def d(ctx):
    prog = ctx.prog
    fi = prog.func(FS + ".render_get_file")
    cfg = cfg_of(fi)
    p = params(fi)
    ctx.need(len(p) == 2, "render_get_file signature changed")
    req, path = p
    fn = fi.node

    # the file object: `with <path>.open(mode) as f`
    opens = []
    for n in walk_no_nested(fn):
        if isinstance(n, (ast.With, ast.AsyncWith)):
            for item in n.items:
                ce = item.context_expr
                if isinstance(ce, ast.Call) and isinstance(ce.func, ast.Attribute) and ce.func.attr == "open" and isinstance(item.optional_vars, ast.Name):
                    opens.append((n, ce, item.optional_vars.id))
    ctx.floor("with <path>.open(...) as f in render_get_file", len(opens), 1)
    ctx.need(len(opens) == 1, "render_get_file opens %d files; the rule expects one" % len(opens))
    wnode, ocall, fvar = opens[0]
    ctx.ob("the file opened is the path parameter", isinstance(ocall.func.value, ast.Name) and ocall.func.value.id == path and not writes_to_name(fn, path), fi, ocall)
    mode = ocall.args[0] if ocall.args else next((k.value for k in ocall.keywords if k.arg == "mode"), None)
    mv = _const_str(mode) if mode is not None else None
    ctx.ob("the file is opened read-only in binary mode", mv is not None and "b" in mv and "r" in mv and not any(c in mv for c in "wax+"), fi, ocall, detail="mode %r" % mv)

    seeks = [c for c, _ in find("%s.seek($*a)" % fvar, fn)]
    reads = [c for c, _ in find("%s.read($*a)" % fvar, fn)]
    ctx.floor("seek calls on the file", len(seeks), 1)
    ctx.floor("read calls on the file", len(reads), 1)
    ctx.ob("exactly one seek and one read per request", len(seeks) == 1 and len(reads) == 1, fi, reads[-1], detail="%d seek(s), %d read(s)" % (len(seeks), len(reads)))
    seek, read = seeks[0], reads[0]

    # the block descriptor B
    ctx.need(len(seek.args) >= 1, "seek without offset")
    off = resolve_local(fn, seek.args[0])
    Bname = None
    if isinstance(off, ast.Attribute) and isinstance(off.value, ast.Name):
        Bname = off.value.id
    else:
        # find it through the read size instead
        for nm in names_in(read) - {fvar}:
            Bname = nm
    ctx.need(Bname is not None, "cannot identify the block descriptor used by seek/read")
    Bval = assigned_value(fn, Bname)
    ctx.need(Bval is not None, "block descriptor %s is not a single-assignment local" % Bname)
    # B = <req>.opt.block2 or BlockwiseTuple(0, 0, szx)
    ok_src = False
    default = None
    if isinstance(Bval, ast.BoolOp) and isinstance(Bval.op, ast.Or) and len(Bval.values) == 2:
        ok_src = chain(Bval.values[0]) == "%s.opt.block2" % req
        default = Bval.values[1]
    elif isinstance(Bval, ast.IfExp):
        ok_src = chain(Bval.body) == "%s.opt.block2" % req and req + ".opt.block2" in stmt_text(Bval.test)
        default = Bval.orelse
    elif chain(Bval) == "%s.opt.block2" % req:
        ok_src, default = True, None
    ctx.ob("the block descriptor is the request's Block2 option (or a default)", ok_src, fi, Bval)
    if default is not None:
        isbt = isinstance(default, ast.Call) and (chain(default.func) or "").endswith("BlockwiseTuple") and len(default.args) == 3
        ctx.ob("the default descriptor starts at block 0", isbt and _int_const(default.args[0]) == 0 and _int_const(default.args[2]) is not None and 0 <= _int_const(default.args[2]) <= 6,
               fi, default)

    N = Normalizer(env=norm.local_env(fn))
    size = Poly.atom(Bname + ".size")
    start = Poly.atom(Bname + ".start")

    def poly(e):
        try:
            return N.poly(e)
        except norm.NormError:
            return None

    ctx.ob("the read position is block.start", len(seek.args) == 1 and poly(seek.args[0]) == start and (not seek.keywords), fi, seek, detail="offset = %r" % poly(seek.args[0]))
    ctx.ob("one byte more than the block size is read", len(read.args) == 1 and poly(read.args[0]) == size + Poly.const(1), fi, read,
           detail="length = %r" % (poly(read.args[0]) if read.args else None))
    sn, rn = cfg.loc1(seek), cfg.loc1(read)
    ctx.ob("the seek precedes the read on every path", cfg.dominates(sn, rn) and sn != rn and sn not in cfg.reach({rn}), fi, read)
    # data = f.read(..)
    rstmt = cfg.nodes[rn].ast
    dvar = rstmt.targets[0].id if isinstance(rstmt, ast.Assign) and len(rstmt.targets) == 1 and isinstance(rstmt.targets[0], ast.Name) and rstmt.value is read else None
    ctx.need(dvar is not None, "the result of read() is not bound to a local")
    ctx.ob("the data read is not modified afterwards", len(writes_to_name(fn, dvar)) == 1, fi, rstmt)

    # answer option: BlockwiseTuple(B.block_number, len(data) > B.size, B.size_exponent)
    N2 = Normalizer()  # do not substitute `data`
    tuples = [c for c in calls_in(fn) if (chain(c.func) or "").endswith("BlockwiseTuple") and c is not default]
    ctx.floor("answer Block2 descriptors", len(tuples), 1)
    want_more = ("lt", Poly.atom(Bname + ".size") - Poly.atom("len(%s)" % dvar))
    outnames = set()
    for t in tuples:
        ok3 = len(t.args) == 3 and not t.keywords
        ctx.need(ok3, "BlockwiseTuple built with unexpected arity")
        ctx.ob("the answer carries the requested block number", chain(t.args[0]) == Bname + ".block_number", fi, t)
        try:
            got = N2.cmp(t.args[1])
        except norm.NormError:
            got = None
        ctx.ob("more is set exactly when more than block.size bytes could be read", got == want_more, fi, t, detail="more = %s" % stmt_text(t.args[1], 60))
        ctx.ob("the answer carries the requested size exponent", chain(t.args[2]) == Bname + ".size_exponent", fi, t)
        st = cfg.nodes[cfg.loc1(t)].ast
        if isinstance(st, ast.Assign) and len(st.targets) == 1 and isinstance(st.targets[0], ast.Name):
            outnames.add(st.targets[0].id)

    # the response message
    msgs = []
    for r in [n for n in walk_no_nested(fn) if isinstance(n, ast.Return) and n.value is not None]:
        v = resolve_local(fn, r.value)
        if isinstance(v, ast.Call) and any(k.arg == "payload" for k in v.keywords):
            msgs.append((r, v))
    ctx.floor("response messages built in render_get_file", len(msgs), 1)
    for r, v in msgs:
        pl = next(k.value for k in v.keywords if k.arg == "payload")
        pl = resolve_local(fn, pl) if not (isinstance(pl, ast.Name) and pl.id == dvar) else pl
        okp = (isinstance(pl, ast.Subscript) and isinstance(pl.value, ast.Name) and pl.value.id == dvar and isinstance(pl.slice, ast.Slice)
               and (pl.slice.lower is None or _int_const(pl.slice.lower) == 0) and pl.slice.step is None and pl.slice.upper is not None and poly(pl.slice.upper) == size)
        ctx.ob("the payload is data[:block.size]", okp, fi, v, detail="payload = %s" % stmt_text(pl, 60), construct="payload=%s" % stmt_text(pl, 60))
        b2 = next((k.value for k in v.keywords if k.arg == "block2"), None)
        okb = b2 is not None and ((isinstance(b2, ast.Name) and b2.id in outnames) or b2 in tuples)
        ctx.ob("the Block2 option of the answer is the descriptor computed from the read", okb, fi, v, construct="block2=%s" % (stmt_text(b2, 60) if b2 is not None else "<absent>"))
        # every other definition of that local is `None`, only when nothing follows (block 0, more False)
        if okb and isinstance(b2, ast.Name):
            for w in writes_to_name(fn, b2.id):
                if isinstance(w, ast.Assign) and w.value in tuples:
                    continue
                isnone = isinstance(w, ast.Assign) and isinstance(w.value, ast.Constant) and w.value.value is None
                g_more = g_zero = False
                if isnone:
                    for e, pol, _ in cfg.guards(cfg.loc1(w)):
                        if pol and isinstance(e, ast.Compare) and len(e.ops) == 1:
                            l, op, rr = e.left, e.ops[0], e.comparators[0]
                            if chain(l) == b2.id + ".more" and isinstance(op, (ast.Is, ast.Eq)) and isinstance(rr, ast.Constant) and rr.value is False:
                                g_more = True
                            if chain(l) in (b2.id + ".block_number", Bname + ".block_number") and isinstance(op, ast.Eq) and _int_const(rr) == 0:
                                g_zero = True
                        if (not pol) and chain(e) == b2.id + ".more":
                            g_more = True
                ctx.ob("the Block2 option is only omitted for a complete body in block 0", isnone and g_more and g_zero, fi, w)

    # BlockwiseTuple.start == block_number * size
    bt = prog.cls("optiontypes.BlockOption.BlockwiseTuple")
    sfi = bt.methods.get("start")
    ctx.need(sfi is not None, "BlockwiseTuple.start missing")
    rets = [n for n in walk_no_nested(sfi.node) if isinstance(n, ast.Return) and n.value is not None]
    ctx.need(len(rets) == 1, "BlockwiseTuple.start is not a single-return property")
    got = Normalizer().poly(rets[0].value)
    ctx.ob("BlockwiseTuple.start == block_number * size", got == Poly.atom("self.block_number") * Poly.atom("self.size"), sfi, rets[0], detail="start = %r" % got)


# ---------------------------------------------------------------------------
# C19.e


def _handler_catches(prog, h, exc="FileNotFoundError"):
    if h.type is None:
        return True
    types = h.type.elts if isinstance(h.type, ast.Tuple) else [h.type]
    for t in types:
        txt = chain(t)
        if not txt:
            continue
        last = txt.split(".")[-1]
        if last in ("IOError", "EnvironmentError"):
            last = "OSError"
        if prog.is_subclass(exc, last):
            return True
    return False


@R.clause("C19.e", "InvalidPathError and the trailing-slash errors are 4.00; FileNotFoundError of the first stat/unlink is mapped to 4.04/4.12")
def e(ctx):
    prog = ctx.prog
    # (1) the sanitiser only ever fails with a 4.00 renderable error
    sfi = prog.func(FS + "." + SANITISER)
    EA = EscapeAnalysis(prog)
    esc = EA.escapes(sfi)
    explicit = [n for n in walk_no_nested(sfi.node) if isinstance(n, ast.Raise)]
    ctx.floor("raise statements in request_to_localpath", len(explicit), 1)
    ctx.floor("escapes of request_to_localpath", len(esc), 1)
    for x in sorted(esc, key=repr):
        ok = x.cls in prog.classes and _is_renderable(prog, x.cls) and _class_code(prog, x.cls) == "BAD_REQUEST"
        ctx.ob("a rejected path is answered with 4.00 Bad Request", ok, sfi, None, detail="escape %r" % (x,), construct="raise %s" % x.cls.split(".")[-1])
    ctx.extra["c19_sanitiser_escapes"] = [repr(x) for x in sorted(esc, key=repr)]
    for name in ("InvalidPathError", "TrailingSlashMissingError", "AbundantTrailingSlashError"):
        ci = prog.cls("cli.fileserver." + name)
        ok = _is_renderable(prog, ci.qn) and _class_code(prog, ci.qn) == "BAD_REQUEST"
        ctx.ob("%s is a renderable 4.00 error" % name, ok, None, None, construct="class %s" % name,
               detail="mro %s, code %s" % ([q.split(".")[-1] for q in prog.mro(ci.qn)], _class_code(prog, ci.qn)))
    # the trailing-slash errors are what the directory/file mismatch raises
    for meth in ("render_get_dir", "render_get_file"):
        fi = prog.func(FS + "." + meth)
        raises = [n for n in walk_no_nested(fi.node) if isinstance(n, ast.Raise) and n.exc is not None]
        for rz in raises:
            q = _exc_class_qn(prog, fi, rz.exc)
            ctx.ob("%s rejects a mismatching trailing slash with a 4.xx renderable error" % meth,
                   q is not None and _is_renderable(prog, q) and (_class_code(prog, q) or "") in FOUR_XX, fi, rz)

    # (2) first stat/unlink of a request maps FileNotFoundError to 4.04 (4.12 for a failed precondition)
    fl = Flow(prog)
    n = total = 0
    for fi in fl.funcs:
        if fi.cls is None or not fi.name.startswith("render_"):
            continue
        cfg = cfg_of(fi)
        scope = _scopes(fi)[0]
        sinks = [(call, label) for call, paths, mut, label in fl.sinks(scope)]
        # calls of helpers of the class that contain sinks themselves count as sinks here (one level)
        for nd in _scope_nodes(scope):
            if isinstance(nd, ast.Call) and (chain(nd.func) or "").startswith("self.") and chain(nd.func).count(".") == 1:
                m = fl.ci.methods.get(nd.func.attr)
                if m is not None and not _is_sanitiser(m) and fl.sinks(_scopes(m)[0]):
                    sinks.append((nd, "helper"))
        sink_nodes = {id(call): set(cfg.locate(call)) for call, _ in sinks}
        # a helper whose every call site is preceded by a successful sink needs no mapping of its own
        sites = fl.call_sites(fi.name)
        covered_by_caller = bool(sites) and all(
            s.lam is None and any(
                cfg_of(s.fi).dominates(x, y) and x != y
                for c2, *_ in fl.sinks(_scopes(s.fi)[0]) for x in cfg_of(s.fi).locate(c2) for y in cfg_of(s.fi).locate(cs))
            for s, cs in sites)
        for call, label in sinks:
            if label not in (".stat()", ".unlink()"):
                continue
            nids = cfg.locate(call)
            total += len(nids)
            for nid in nids:
                dominated = covered_by_caller or any(
                    o is not call and any(cfg.dominates(x, nid) and x != nid and not _exc_only(cfg, x, nid) for x in sink_nodes[id(o)])
                    for o, _ in sinks)
                if dominated:
                    continue
                n += 1
                hs = [cfg.nodes[d] for d, lab in cfg.succ[nid] if lab == "exc" and d != cfg.rexit]
                hs = [h for h in hs if h.kind == "handler" and _handler_catches(prog, h.ast)]
                ok = bool(hs)
                detail = "no enclosing handler for FileNotFoundError"
                if ok:
                    h = hs[0]
                    reach = cfg.reach({h.id}, skip_labels=("exc",))
                    exits = [cfg.nodes[x] for x in reach if cfg.nodes[x].kind in ("return", "raise")]
                    falls = cfg.exit in cfg.reach({h.id}, avoid={x.id for x in exits}, skip_labels=("exc",))
                    ok = bool(exits) and not falls and all(_responds_with(prog, fi, x.ast, {"NOT_FOUND", "PRECONDITION_FAILED"}) for x in exits)
                    detail = "handler exits: %s" % "; ".join(stmt_text(x.ast, 60) for x in exits)
                ctx.ob("a missing file at the first %s of the request is answered with 4.04 (4.12 under If-Match)" % label, ok, fi, call, detail=detail)
    ctx.floor("stat/unlink sinks in render_* methods", total, 5)
    ctx.floor("stat/unlink probes not preceded by another sink in render_* methods", n, 1)


FOUR_XX = {"BAD_REQUEST", "UNAUTHORIZED", "BAD_OPTION", "FORBIDDEN", "NOT_FOUND", "METHOD_NOT_ALLOWED", "NOT_ACCEPTABLE",
           "REQUEST_ENTITY_INCOMPLETE", "CONFLICT", "PRECONDITION_FAILED", "REQUEST_ENTITY_TOO_LARGE",
           "UNSUPPORTED_CONTENT_FORMAT", "UNPROCESSABLE_ENTITY", "TOO_MANY_REQUESTS"}


def _exc_only(cfg, a, b):
    """b is reachable from a only through a's own failure (b sits in a handler of a's exception)."""
    starts = {d for d, lab in cfg.succ[a] if lab != "exc"}
    return b not in cfg.reach(starts, include_src=True)


# ---------------------------------------------------------------------------
def _implies_nonempty_path(prog, fi, e, pol, depth=0):
    """Does the branch outcome (e, pol) establish that <request>.opt.uri_path is non-empty?  One level of helper
    inlining: `self.m(request)` is replaced by m's single return expression."""
    if (chain(e) or "").endswith(".opt.uri_path"):
        return pol
    if isinstance(e, ast.Subscript) and (chain(e.value) or "").endswith(".opt.uri_path") and not isinstance(e.slice, ast.Slice):
        return pol  # a component was read and is truthy: the tuple is not empty
    if isinstance(e, ast.Compare) and len(e.ops) == 1:
        l, r, op = e.left, e.comparators[0], e.ops[0]
        if isinstance(l, ast.Call) and chain(l.func) == "len" and l.args and (chain(l.args[0]) or "").endswith(".opt.uri_path") and isinstance(r, ast.Constant):
            if isinstance(op, ast.Gt) and r.value >= 0:
                return pol
            if isinstance(op, ast.GtE) and r.value >= 1:
                return pol
            if isinstance(op, ast.Eq) and r.value == 0:
                return not pol
        if (chain(l) or "").endswith(".opt.uri_path") and isinstance(op, (ast.Eq, ast.NotEq)) and isinstance(r, (ast.Tuple, ast.List)) and not r.elts:
            return (not pol) if isinstance(op, ast.Eq) else pol
    if depth == 0 and isinstance(e, ast.Call) and isinstance(e.func, ast.Attribute) and chain(e.func.value) == "self" and fi.cls is not None:
        m = prog.lookup_method(fi.cls.qn, e.func.attr)
        if m is not None:
            rets = [x for x in walk_no_nested(m.node) if isinstance(x, ast.Return) and x.value is not None]
            if len(rets) == 1:
                v = rets[0].value
                # conjunction / disjunction: a False `a or b` gives not a and not b; a True `a and b` gives both
                parts = []
                if isinstance(v, ast.BoolOp) and ((isinstance(v.op, ast.Or) and not pol) or (isinstance(v.op, ast.And) and pol)):
                    parts = list(v.values)
                else:
                    parts = [v]
                for part in parts:
                    pp = pol
                    while isinstance(part, ast.UnaryOp) and isinstance(part.op, ast.Not):
                        part, pp = part.operand, not pp
                    if _implies_nonempty_path(prog, m, part, pp, depth + 1):
                        return True
    return False


@R.clause("C19.f", "the root directory itself is never a target of PUT or DELETE: every mutating sink is dominated by a test that the Uri-Path is not empty")
def f_not_root(ctx):
    """Added after an independently written breaking change folded the trailing-slash tests into a helper
    `uri_path[-1:] == ("",)`, which is False for the *empty* Uri-Path: PUT then spooled its temporary file into the
    parent of the served directory (outside the root) and, with the root given through a symlink, replaced or
    deleted that directory entry.  With an empty path request_to_localpath returns self.root itself, whose parent
    and whose own directory entry lie outside the root."""
    prog = ctx.prog
    fl = Flow(prog)
    n = 0
    for fi in fl.funcs:
        if _is_sanitiser(fi):
            continue
        for scope in _scopes(fi):
            muts = [(call, label) for call, paths, mut, label in fl.sinks(scope) if mut]
            for call, label in muts:
                n += 1
                if scope.lam is not None:
                    continue
                cfg = cfg_of(fi)
                ok = bool(cfg.locate(call)) and all(any(_implies_nonempty_path(prog, fi, e, pol) for e, pol in guard_exprs(cfg, nid)) for nid in cfg.locate(call))
                ctx.ob("mutating operation %s is reached only for a non-empty Uri-Path (never for the root directory itself)" % label, ok, fi, call,
                       detail=None if ok else "guards: %s" % [(stmt_text(e, 50), p) for nid in cfg.locate(call) for e, p in guard_exprs(cfg, nid)])
    ctx.floor("mutating sinks in FileServer", n, 4)


F = "aiocoap/cli/fileserver.py"
# C19.a
R.seed("C19.a", F, "            path.unlink()\n", "            (self.root / \"/\".join(request.opt.uri_path)).unlink()\n", "sink fed from request.opt.uri_path directly")
R.seed("C19.a", F, "        path = self.request_to_localpath(request)\n        try:\n            st = path.stat()\n        except FileNotFoundError:\n            raise NoSuchFile()\n\n        etag",
       "        path = self.root / \"/\".join(request.opt.uri_path)\n        try:\n            st = path.stat()\n        except FileNotFoundError:\n            raise NoSuchFile()\n\n        etag", "render_get bypasses the sanitiser")
R.seed("C19.a", F, "self._observations.setdefault(path, [None, []])", "self._observations.setdefault(Path(*request.opt.uri_path), [None, []])", "unsanitised key later stat()ed by the refresh loop")
R.seed("C19.a", F, "response = await self.render_get_file(request, path)", "response = await self.render_get_file(request, Path(\"/\".join(request.opt.uri_path)))", "helper parameter bound to an unsanitised value")
R.seed("C19.a", F, "tempfile.NamedTemporaryFile(dir=path.parent, delete=False)", "tempfile.NamedTemporaryFile(delete=False)", "spool file in the system temp directory")
R.seed("C19.a", F, "            temppath.rename(path)\n", "            temppath.rename(self.root / request.opt.uri_path[-1])\n", "rename target not sanitised")
# C19.b
R.seed("C19.b", F, "p in (\".\", \"..\") for p in path", "p in (\".\",) for p in path", "'..' no longer refused")
R.seed("C19.b", F, "p in (\".\", \"..\") for p in path", "p in (\"..\",) for p in path", "'.' no longer refused")
R.seed("C19.b", F, "if any(\"/\" in p or p in (\".\", \"..\") for p in path):", "if any(p in (\".\", \"..\") for p in path):", "'/' test dropped")
R.seed("C19.b", F, "p in (\".\", \"..\") for p in path):", "p in (\".\", \"..\") for p in path[1:]):", "first component not validated")
R.seed("C19.b", F, "        if \"\" in path[:-1]:\n", "        if \"\" in path[1:-1]:\n", "leading empty component slips through (applies to the repaired tree)")
R.seed("C19.b", F, "        if \"\" in path[:-1]:\n", "        if \"\" in path[:-1] and False:\n", "absolute-join guard disabled (applies to the repaired tree)")
R.seed("C19.b", F, "        if any(\"/\" in p or p in (\".\", \"..\") for p in path):\n            raise InvalidPathError()\n", "        assert not any(\"/\" in p or p in (\".\", \"..\") for p in path)\n", "guard turned into an assert")
# C19.c
R.seed("C19.c", F, "    async def render_delete(self, request):\n        if not self.write:\n            return aiocoap.Message(code=codes.FORBIDDEN)\n", "    async def render_delete(self, request):\n", "write guard removed from render_delete")
R.seed("C19.c", F, "    async def render_put(self, request):\n        if not self.write:\n            return aiocoap.Message(code=codes.FORBIDDEN)", "    async def render_put(self, request):\n        if not self.write:\n            self.log.warning(\"read-only\")", "read-only PUT falls through to the write")
R.seed("C19.c", F, "    async def render_delete(self, request):\n        if not self.write:\n            return aiocoap.Message(code=codes.FORBIDDEN)", "    async def render_delete(self, request):\n        if not self.write:\n            return aiocoap.Message(code=codes.DELETED)", "wrong code on the read-only side")
R.seed("C19.c", F, "    async def render_put(self, request):\n        if not self.write:", "    async def render_put(self, request):\n        if self.write is None:", "test no longer on the truth of self.write")
R.seed("C19.c", F, "        self.log.info(\"Serving directory %s\", path)\n", "        self.log.info(\"Serving directory %s\", path)\n        (path / \".visited\").touch()\n", "mutation in a GET helper")
# C19.d
R.seed("C19.d", F, "data = f.read(block_in.size + 1)", "data = f.read(block_in.size)", "more can never be detected")
R.seed("C19.d", F, "f.seek(block_in.start)", "f.seek(block_in.block_number)", "seek to the block number instead of the byte offset")
R.seed("C19.d", F, "block_in.block_number, len(data) > block_in.size, block_in.size_exponent", "block_in.block_number, len(data) >= block_in.size, block_in.size_exponent", "more set on an exactly filled last block")
R.seed("C19.d", F, "payload=data[: block_in.size],", "payload=data,", "the look-ahead byte is sent")
R.seed("C19.d", F, "with path.open(\"rb\") as f:", "with path.open(\"r\") as f:", "text mode")
R.seed("C19.d", F, "if block_out.block_number == 0 and block_out.more is False:", "if block_out.block_number == 0:", "Block2 dropped although more blocks follow")
# C19.e
R.seed("C19.e", F, "class InvalidPathError(error.ConstructionRenderableError):\n    code = codes.BAD_REQUEST", "class InvalidPathError(error.ConstructionRenderableError):\n    code = codes.INTERNAL_SERVER_ERROR", "hostile path answered 5.00")
R.seed("C19.e", F, "class InvalidPathError(error.ConstructionRenderableError):\n    code = codes.BAD_REQUEST", "class InvalidPathError(ValueError):\n    code = codes.BAD_REQUEST", "not renderable")
R.seed("C19.e", F, "            path.unlink()\n        except FileNotFoundError:", "            path.unlink()\n        except PermissionError:", "missing file on DELETE becomes 5.00")
R.seed("C19.e", F, "            st = path.stat()\n        except FileNotFoundError:\n            raise NoSuchFile()\n\n        etag", "            st = path.stat()\n        except FileNotFoundError:\n            raise\n\n        etag", "FileNotFoundError re-raised on GET")

R.seed("C19.f", F, "    async def render_put(self, request):\n        if not self.write:\n            return aiocoap.Message(code=codes.FORBIDDEN)\n\n        if not request.opt.uri_path or not request.opt.uri_path[-1]:", "    async def render_put(self, request):\n        if not self.write:\n            return aiocoap.Message(code=codes.FORBIDDEN)\n\n        if request.opt.uri_path[-1:] == (\"\",):", "PUT with an empty Uri-Path spools next to (outside) the root")
