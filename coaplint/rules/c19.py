"""C19 File server confinement.

Structural clauses decided on the syntax tree of aiocoap/cli/fileserver.py
(class FileServer) plus the class hierarchy of aiocoap/error.py.

Modelling decisions (all stated in the evidence `explanation` as well):

* A *file-system sink* is a call of a pathlib method that touches (or, for
  `relative_to`, formats) a path, a `tempfile` constructor, `open`, or an
  `os`/`shutil` function.  The sanitiser `request_to_localpath` itself is not
  scanned for sinks (it is judged by C19.b instead).
* A value is *sanitised* ("path") when it is the result of
  `self.request_to_localpath(...)`, `self.root` itself, `.parent` / `.resolve()`
  / `.absolute()` / `Path()` / `str()` of a sanitised value, a child produced by
  `iterdir()`/`glob()` of a sanitised value, a key of `self._observations`
  (provided every key ever inserted is sanitised), the `.name` of a temp file
  created with `dir=<sanitised>`, a local all of whose definitions are
  sanitised, or a parameter bound to a sanitised value at every `self.m(...)`
  call site in the class (one level of call-argument binding).
* C19.b, C19.c, C19.d and C19.f are decided on the states of a small symbolic
  executor (rules/_kit_c19.py) that walks the CFGs of the class, steps into
  helper methods / module functions / closures / lambdas / methods handed over
  as callables, and folds expressions over scenario constants with the
  checker's own evaluator.  "X only happens when C" is phrased as "under the
  scenario not-C, X is unreachable":
    - C19.b: the Uri-Path is a symbolic sequence with one distinguished
      component of the excluded kind ('/' inside, '.', '..', empty leading
      component); the sanitiser's `return` must be unreachable.  A violation
      needs a path without uninterpreted decisions (or a concrete witness path
      evaluated end to end); otherwise the clause refuses.
    - C19.g: the guards of C19.b examine the components; the join must consume
      the very same text.  Identity shapes hold structurally; otherwise the
      sanitiser is run on accepted Uri-Paths that a text operation (NFKC,
      percent-decoding, strip, replace, codec round trip ...) turns into path
      syntax, with the checker's own models of those operations, and the
      returned path is computed lexically.  A witness outside the root (or
      with a '..' component) is a violation; no witness is a refusal.
    - C19.c: the constructor's permission parameter `write` is False (its
      default) / None / 0 and every attribute __init__ computes from it
      (self.write, a complement flag, a mode string ...) holds the value
      folded by the checker's evaluator; no mutating sink may be reachable
      and the exits after the permission was read answer 4.03.  Verdicts
      handed back as values (a response code, an exception class, a
      sentinel, a (flag, code) pair, a key of a module-level table) are
      followed per path: the executor knows how two program-level constants
      compare (kit: named constants).  A handler wrapped by a decorator of
      the module/class is executed through the wrapper the decorator
      returns; an uninterpretable decorator is refused.
    - C19.f: the Uri-Path is (); no mutating sink may be reachable.
    - C19.h (no executor): the value the permission parameter *receives* at
      every construction of the class in the package is evaluated backwards
      through parameters (defaults, every call site), `**vars(namespace)` /
      `namespace.attr` and the argparse declaration of the option (action,
      default=, set_defaults, constructor of an Action subclass of the
      package) to the values it holds when the option is absent from the
      command line; each must be false.  Anything else is refused.
    - C19.d: the values reaching seek/read/the response are compared by
      normal form in every state.
    - C19.e (2): every stat/unlink that is the first file-system operation
      on its path fails with FileNotFoundError; the request must then end
      in a 4.04 / 4.12 answer, wherever and however the failure is mapped.
* Plain functions of the module that the class refers to by name belong to
  the file server like its (static) methods: their sinks, parameters (bound
  at call sites / where they are handed over as callables) and effects are
  analysed the same way.
  `assert` never creates a branch and so never counts.
"""

import ast

from ..rulekit import *
from ..norm import Normalizer, Poly
from ..exc import EscapeAnalysis
from . import _kit_c19 as kit

R = Rules(
    "C19",
    explanation=(
        "Structural clauses of the file server decided on the syntax tree of cli/fileserver.py: (a) every "
        "file-system sink of FileServer receives a path that flows from the single sanitiser "
        "request_to_localpath (directly, via .parent, via iterdir() children, via keys of _observations, via "
        "a temp file created inside a sanitised directory, or via a parameter bound to such a value at every "
        "call site, a call site being a call or the handing over of the method as a callable with its arguments); "
        "(b) the sanitiser returns self.root / '/'.join(components) of the request's Uri-Path and its return is "
        "unreachable, in a symbolic execution of the sanitiser and the helpers it calls, for every Uri-Path that "
        "contains a component with '/', the component '.', the component '..', or an empty leading component "
        "followed by another one (absolute join) -- whether the rejection is spelled with any()/all(), loops, "
        "membership tests, helper predicates, tests on the joined string or containment of the result in "
        "self.root; (g) the text joined under the root is the text those guards examined: the components reach the join "
        "through identity operations only (str, os.fspath, tuple/list, Path constructors, single-assignment locals); any other "
        "operation between the checks and the join (Unicode normalisation, percent-decoding, strip/replace/split, a codec round "
        "trip ...) is executed by the checker's own models on accepted Uri-Paths that are one text operation away from path "
        "syntax, and a returned path with a '..' component or outside the root refutes the clause (no witness: the clause "
        "refuses, a finite sample proves nothing); (c) with the constructor's write-permission parameter False/None/0 (every attribute __init__ derives "
        "from it holding the corresponding value) no mutating sink (including those in helpers, closures, lambdas, "
        "module-level helpers, methods handed over as callables, and behind decorators) is reachable, the exits after the "
        "permission was consulted answer 4.03, and the attributes holding it are only assigned in __init__; (f) with an empty Uri-Path no mutating sink "
        "is reachable; (h) at every construction of FileServer in the package the permission argument, followed backwards through "
        "parameter defaults, call sites, keyword splats / attributes of an argparse namespace and the declaration of the option "
        "(built-in action, default=, set_defaults, the constructor chain of an Action subclass up to argparse.Action), is false "
        "whenever the operator did not give the option; "
        "(d) render_get_file seeks to block.start, reads block.size+1 bytes in binary mode, sets more iff "
        "len(data) > block.size, sends data[:block.size] and answers (block.number, more, block.szx), with "
        "start = number*size; (e) the sanitiser's only escapes are 4.00 renderable errors, the trailing-slash "
        "errors are 4.00, and when the first file-system operation of a request is a stat/unlink that fails with "
        "FileNotFoundError the request ends in a 4.04/4.12 answer (symbolic execution with that failure injected). "
        "Paper step: with (a), (b) and (g) every path handed to the operating system is root, or root joined with a "
        "relative string none of whose components is '.', '..' or contains '/', hence lexically below root. "
        "Not decided: symlinks inside the root, races with other processes, NUL bytes (rejected by the OS "
        "layer with ValueError before any access)."
    ),
    rule_text="def-use flow with one level of call-argument binding; scenario-based symbolic execution over the CFGs of the class (finite-state, interprocedural inside the class, the checker's own constant evaluator, symbolic sequences with a distinguished element); polynomial normal forms; class-hierarchy facts; escape sets",
)

FS = "cli.fileserver.FileServer"
SANITISER = "request_to_localpath"

PATH_READ = {"stat", "lstat", "exists", "is_dir", "is_file", "is_symlink", "is_mount", "open", "iterdir", "glob", "rglob",
             "read_bytes", "read_text", "samefile", "owner", "group", "readlink", "relative_to", "walk"}
PATH_WRITE = {"unlink", "rename", "mkdir", "rmdir", "touch", "write_bytes", "write_text", "symlink_to", "hardlink_to",
              "link_to", "chmod", "lchmod"}
# Path.replace(target) takes one argument, str.replace two: only the former is a sink
TEMP_CTORS = {"tempfile.NamedTemporaryFile", "tempfile.TemporaryFile", "tempfile.SpooledTemporaryFile", "tempfile.mkstemp",
              "tempfile.mkdtemp", "tempfile.TemporaryDirectory", "tempfile.mktemp"}
OS_READ = {"os.stat", "os.lstat", "os.listdir", "os.scandir", "os.walk", "os.open", "os.access", "os.readlink",
           "os.path.exists", "os.path.isfile", "os.path.isdir", "os.path.getsize", "os.path.getmtime", "open", "io.open"}
OS_WRITE = {"os.remove", "os.unlink", "os.rename", "os.replace", "os.mkdir", "os.makedirs", "os.rmdir", "os.removedirs",
            "os.symlink", "os.link", "os.chmod", "os.chown", "os.truncate", "os.utime", "shutil.rmtree", "shutil.copy",
            "shutil.copy2", "shutil.copyfile", "shutil.copytree", "shutil.move"}
FILE_WRITE = {"write", "writelines", "truncate"}
WRAPPERS = {"Path", "pathlib.Path", "PurePath", "pathlib.PurePath", "PurePosixPath", "pathlib.PurePosixPath", "str", "os.fspath"}
SAME_PATH_METHODS = {"resolve", "absolute", "expanduser"}


# ---------------------------------------------------------------------------
# class walking


def _class_funcs(prog):
    """All functions of FileServer: methods and functions nested in them -- and the plain functions of its module
    (with the functions nested in those) that they refer to by name, transitively: a helper extracted to module level
    is part of the file server just like one extracted into a (static) method."""
    ci = prog.cls(FS)
    out = []
    for fi in prog.funcs.values():
        f = fi
        while f is not None and f.cls is None:
            f = f.parent
        if f is not None and f.cls is ci:
            out.append(fi)
    modfuncs = {fi.name: fi for fi in prog.funcs.values() if fi.module is ci.module and fi.cls is None and fi.parent is None}
    todo = list(out)
    have = {fi.qn for fi in out}
    while todo:
        fi = todo.pop()
        for n in ast.walk(fi.node):
            if isinstance(n, ast.Name) and isinstance(n.ctx, ast.Load) and n.id in modfuncs and modfuncs[n.id].qn not in have:
                g = modfuncs[n.id]
                for f2 in prog.funcs.values():
                    top = f2
                    while top.parent is not None:
                        top = top.parent
                    if top is g and f2.qn not in have:
                        have.add(f2.qn)
                        out.append(f2)
                        todo.append(f2)
    return ci, out


class Scope:
    """A function (or a lambda inside one) in which names are evaluated."""

    def __init__(self, fi, lam=None, outer=None):
        self.fi = fi
        self.lam = lam
        self.outer = outer

    @property
    def node(self):
        return self.lam if self.lam is not None else self.fi.node

    def param_default(self, name):
        """(is_param, default expr or None)"""
        a = self.node.args
        allp = a.posonlyargs + a.args
        defaults = [None] * (len(allp) - len(a.defaults)) + list(a.defaults)
        for p, d in zip(allp, defaults):
            if p.arg == name:
                return True, d
        for p, d in zip(a.kwonlyargs, a.kw_defaults):
            if p.arg == name:
                return True, d
        return False, None


def _scopes(fi):
    """The function's own scope plus one scope per lambda (recursively)."""
    out = [Scope(fi, None, _outer_scope(fi))]

    def lambdas(root, outer):
        for n in walk_no_nested(root, include_root=False) if not isinstance(root, ast.Lambda) else _lambda_children(root):
            if isinstance(n, ast.Lambda):
                s = Scope(fi, n, outer)
                out.append(s)
                lambdas(n, s)
    lambdas(fi.node, out[0])
    return out


def _lambda_children(lam):
    todo = [lam.body]
    while todo:
        n = todo.pop()
        yield n
        if isinstance(n, (ast.Lambda, ast.FunctionDef, ast.AsyncFunctionDef, ast.ClassDef)):
            continue
        todo.extend(ast.iter_child_nodes(n))


def _outer_scope(fi):
    return Scope(fi.parent, None, _outer_scope(fi.parent)) if fi.parent is not None else None


def _scope_nodes(scope):
    """AST nodes evaluated in this scope (not in nested defs/lambdas)."""
    if scope.lam is not None:
        return list(_lambda_children(scope.lam))
    return list(walk_no_nested(scope.fi.node))


# ---------------------------------------------------------------------------
# flow: which expressions are sanitised


class Flow:
    def __init__(self, prog):
        self.prog = prog
        self.ci, self.funcs = _class_funcs(prog)
        self._param = {}
        self._obs = None
        self._busy = set()
        self._comp = {}

    # -- sinks -----------------------------------------------------------
    def ext_name(self, fi, call):
        dotted = chain(call.func)
        if not dotted:
            return None
        head = dotted.split(".")[0]
        if head in fi.module.imports:
            return ".".join([fi.module.imports[head]] + dotted.split(".")[1:])
        return dotted

    def sinks(self, scope):
        """[(call, [path expressions that must be sanitised], mutating?, label)]"""
        out = []
        fi = scope.fi
        for n in _scope_nodes(scope):
            if not isinstance(n, ast.Call):
                continue
            f = n.func
            ext = self.ext_name(fi, n)
            if ext in TEMP_CTORS:
                d = next((k.value for k in n.keywords if k.arg == "dir"), None)
                if d is None and ext in ("tempfile.mkstemp", "tempfile.mkdtemp", "tempfile.mktemp") and len(n.args) >= 3:
                    d = n.args[2]
                out.append((n, [d], True, ext.split(".")[-1] + "(dir=...)"))
                continue
            if ext in OS_READ or ext in OS_WRITE:
                two = ext in ("os.rename", "os.replace", "os.symlink", "os.link") or ext.startswith("shutil.")
                paths = list(n.args[:2] if two else n.args[:1]) or [None]
                mut = ext in OS_WRITE or ext == "os.open" or (ext in ("open", "io.open") and _open_mode_writes(n, 1))
                out.append((n, paths, mut, ext + "()"))
                continue
            if isinstance(f, ast.Attribute):
                name = f.attr
                if name in PATH_READ or name in PATH_WRITE or (name == "replace" and len(n.args) == 1 and not n.keywords):
                    mut = name in PATH_WRITE or name == "replace" or (name == "open" and _open_mode_writes(n, 0))
                    paths = [f.value]
                    if name in ("rename", "replace", "symlink_to", "hardlink_to", "link_to", "samefile") and n.args:
                        paths.append(n.args[0])
                    out.append((n, paths, mut, "." + name + "()"))
        # a path method taken as a value (`cleanup = tmp.unlink`, `partial(tmp.rename, path)`, `run_in_executor(None,
        # path.unlink)`) is the same sink as its call; it is pinned where the method value is taken
        called = {id(n.func) for n in _scope_nodes(scope) if isinstance(n, ast.Call)}
        for parent in _scope_nodes(scope):
            if isinstance(parent, ast.Call):
                kids = list(parent.args) + [k.value for k in parent.keywords]
            elif isinstance(parent, (ast.Assign, ast.AnnAssign, ast.Return, ast.NamedExpr)) and parent.value is not None:
                kids = [parent.value]
            elif isinstance(parent, (ast.Tuple, ast.List)) and isinstance(getattr(parent, "ctx", None), ast.Load):
                kids = list(parent.elts)
            else:
                continue
            for n in kids:
                if isinstance(n, ast.Attribute) and id(n) not in called and (n.attr in PATH_WRITE or (n.attr in PATH_READ and self.kind(scope, n.value) is not None)):
                    out.append((n, [n.value], n.attr in PATH_WRITE, "." + n.attr + " (method value)"))
        return out

    def file_writes(self, scope):
        """Calls of write/writelines/truncate on objects opened in this scope."""
        out = []
        for n in _scope_nodes(scope):
            if isinstance(n, ast.Call) and isinstance(n.func, ast.Attribute) and n.func.attr in FILE_WRITE:
                out.append(n)
        return out

    # -- sanitised values ------------------------------------------------
    def kind(self, scope, e, depth=0):
        """'path' (sanitised path), 'tmp' (temp file object created in a sanitised directory) or None."""
        if e is None or depth > 12:
            return None
        if isinstance(e, _Elem):
            return self.elem_kind(scope, e.it, depth + 1)
        if isinstance(e, ast.Name):
            g = self._comp_bindings(scope.fi).get(id(e))
            if g is not None:
                # a variable of an enclosing comprehension / generator expression: an element of what it iterates over
                return _component(g.target, e.id, self.elem_kind(scope, g.iter, depth + 1))
            return self._name_kind(scope, e.id, depth)
        if isinstance(e, ast.Tuple) and isinstance(getattr(e, "ctx", None), ast.Load) and not any(isinstance(x, ast.Starred) for x in e.elts):
            return ("tuple", tuple(self.kind(scope, x, depth + 1) for x in e.elts))
        if isinstance(e, ast.Subscript) and not isinstance(e.slice, ast.Slice):
            k = self.kind(scope, e.value, depth + 1)
            i = _int_const(e.slice)
            if isinstance(k, tuple) and i is not None and -len(k[1]) <= i < len(k[1]):
                return k[1][i]
            return None
        if isinstance(e, ast.Attribute):
            if chain(e) == "self.root":
                return "path"
            k = self.kind(scope, e.value, depth + 1)
            if e.attr == "parent" and k == "path":
                return "path"
            if e.attr == "name" and k == "tmp":
                return "path"
            return None
        if isinstance(e, ast.Call):
            if match("self.%s($*a)" % SANITISER, e) is not None and not e.keywords:
                return "path"
            fn = self.ext_name(scope.fi, e)
            if fn in TEMP_CTORS:
                d = next((k.value for k in e.keywords if k.arg == "dir"), None)
                if d is None and fn in ("tempfile.mkstemp", "tempfile.mkdtemp", "tempfile.mktemp") and len(e.args) >= 3:
                    d = e.args[2]
                if self.kind(scope, d, depth + 1) != "path":
                    return None
                if fn == "tempfile.mkstemp":
                    return ("tuple", (None, "path"))  # (file descriptor, name of the file created in the directory)
                if fn in ("tempfile.mkdtemp", "tempfile.mktemp"):
                    return "path"  # the name itself
                return "tmp"  # an object whose .name lies in the directory
            if chain(e.func) in WRAPPERS and len(e.args) == 1 and not e.keywords:
                return "path" if self.kind(scope, e.args[0], depth + 1) == "path" else None
            if isinstance(e.func, ast.Attribute) and e.func.attr in SAME_PATH_METHODS:
                return "path" if self.kind(scope, e.func.value, depth + 1) == "path" else None
            if isinstance(e.func, ast.Attribute) and e.func.attr in ("with_suffix", "with_name", "with_stem") and len(e.args) == 1 and not e.keywords:
                # a sibling with a constant, separator-free name stays in the sanitised directory
                c = _const_str_(e.args[0])
                if c is not None and "/" not in c and c not in (".", "..") and "\0" not in c:
                    return "path" if self.kind(scope, e.func.value, depth + 1) == "path" else None
            return None
        if isinstance(e, ast.BinOp) and isinstance(e.op, ast.Div):
            # a constant, harmless child name below a sanitised directory
            if self.kind(scope, e.left, depth + 1) == "path" and isinstance(e.right, ast.Constant) and isinstance(e.right.value, str):
                c = e.right.value
                if c and "/" not in c and c not in (".", "..") and "\0" not in c:
                    return "path"
            return None
        if isinstance(e, ast.IfExp):
            a, b = self.kind(scope, e.body, depth + 1), self.kind(scope, e.orelse, depth + 1)
            return a if a == b else None
        return None

    def _name_kind(self, scope, name, depth):
        key = (id(scope.node), name)
        if key in self._busy:
            return None
        self._busy.add(key)
        try:
            is_param, default = scope.param_default(name)
            writes = writes_to_name(scope.node, name) if scope.lam is None else []
            if is_param:
                if writes:
                    return None
                if default is not None and scope.outer is not None and (scope.lam is not None or scope.fi.parent is not None):
                    # closure-capturing default (`path=path`), evaluated in the enclosing scope
                    return self.kind(scope.outer, default, depth + 1)
                if scope.lam is not None:
                    return self._lambda_param_kind(scope, name, depth)
                return self._param_kind(scope.fi, name, depth)
            if not writes:
                if scope.outer is not None:
                    return self._name_kind(scope.outer, name, depth + 1)
                return None
            kinds = {self._write_kind(scope, w, name, depth) for w in writes}
            return kinds.pop() if len(kinds) == 1 else None
        finally:
            self._busy.discard(key)

    def _write_kind(self, scope, w, name, depth):
        if isinstance(w, ast.Assign):
            kinds = set()
            for t in w.targets:
                if any(isinstance(x, ast.Name) and x.id == name for x in ast.walk(t)):
                    # `a = v`, and `fd, a = v` with v a tuple-valued expression: the component at a's position
                    kinds.add(_component(t, name, self.kind(scope, w.value, depth + 1)))
            return kinds.pop() if len(kinds) == 1 else None
        if isinstance(w, ast.AnnAssign) and w.value is not None:
            return self.kind(scope, w.value, depth + 1)
        if isinstance(w, (ast.For, ast.AsyncFor)):
            return _component(w.target, name, self.elem_kind(scope, w.iter, depth + 1))
        if isinstance(w, (ast.With, ast.AsyncWith)):
            for item in w.items:
                if item.optional_vars is not None and any(isinstance(x, ast.Name) and x.id == name for x in ast.walk(item.optional_vars)):
                    k = self.kind(scope, item.context_expr, depth + 1)
                    if k == "tmp" and self.ext_name(scope.fi, item.context_expr) == "tempfile.TemporaryDirectory":
                        k = "path"  # entering the context yields the directory's name
                    return _component(item.optional_vars, name, k)
            return None
        if isinstance(w, ast.NamedExpr):
            return self.kind(scope, w.value, depth + 1)
        return None

    def elem_kind(self, scope, it, depth=0):
        """kind of the elements obtained by iterating over the expression `it` (None: not known to be sanitised).
        Children of a sanitised directory, keys / items of the observation table, and -- element-wise -- whatever a
        wrapper (list, tuple, sorted, reversed, iter, set, filter, enumerate, zip), a display, a comprehension, a
        conditional expression or a local built from these (assignment, append / extend / insert / +=) hands on."""
        if it is None or depth > 12:
            return None
        if isinstance(it, ast.Call):
            f = it.func
            fn = chain(f)
            if isinstance(f, ast.Attribute) and f.attr in ("iterdir", "glob", "rglob"):
                return "path" if self.kind(scope, f.value, depth + 1) == "path" else None
            if isinstance(f, ast.Attribute) and chain(f.value) == "self._observations" and not it.args and not it.keywords:
                clean = "path" if self.obs_keys_clean() else None
                return {"keys": clean, "items": ("tuple", (clean, None))}.get(f.attr)
            if isinstance(f, ast.Attribute) and f.attr == "copy" and not it.args and not it.keywords:
                return self.elem_kind(scope, f.value, depth + 1)
            if fn in ("list", "tuple", "iter", "reversed", "set", "frozenset") and len(it.args) == 1 and not it.keywords:
                return self.elem_kind(scope, it.args[0], depth + 1)
            if fn == "sorted" and len(it.args) == 1 and all(k.arg in ("key", "reverse") for k in it.keywords):
                return self.elem_kind(scope, it.args[0], depth + 1)
            if fn == "filter" and len(it.args) == 2 and not it.keywords:
                return self.elem_kind(scope, it.args[1], depth + 1)
            if fn == "enumerate" and 1 <= len(it.args) <= 2:
                return ("tuple", (None, self.elem_kind(scope, it.args[0], depth + 1)))
            if fn == "zip" and it.args and not any(isinstance(a, ast.Starred) for a in it.args):
                return ("tuple", tuple(self.elem_kind(scope, a, depth + 1) for a in it.args))
            return None
        if chain(it) == "self._observations":
            return "path" if self.obs_keys_clean() else None
        if isinstance(it, (ast.List, ast.Tuple, ast.Set)):
            kinds = {self.elem_kind(scope, x.value, depth + 1) if isinstance(x, ast.Starred) else self.kind(scope, x, depth + 1) for x in it.elts}
            return kinds.pop() if len(kinds) == 1 else None
        if isinstance(it, (ast.ListComp, ast.SetComp, ast.GeneratorExp)):
            return self.kind(scope, it.elt, depth + 1)  # its variables resolve through _comp_bindings
        if isinstance(it, ast.IfExp):
            a, b = self.elem_kind(scope, it.body, depth + 1), self.elem_kind(scope, it.orelse, depth + 1)
            return a if a == b else None
        if isinstance(it, ast.BinOp) and isinstance(it.op, ast.Add):
            a, b = self.elem_kind(scope, it.left, depth + 1), self.elem_kind(scope, it.right, depth + 1)
            return a if a == b else None
        if isinstance(it, ast.Name):
            g = self._comp_bindings(scope.fi).get(id(it))
            if g is not None:
                return None
            return self._collection_kind(scope, it.id, depth)
        return None

    def _collection_kind(self, scope, name, depth):
        """element kind of a local collection: every value it is bound to and everything added to it agree"""
        key = (id(scope.node), "elements of " + name)
        if key in self._busy or scope.lam is not None or scope.param_default(name)[0]:
            return None
        writes = writes_to_name(scope.node, name)
        if not writes:
            return None
        self._busy.add(key)
        try:
            kinds = set()
            empty = lambda v: (isinstance(v, (ast.List, ast.Tuple, ast.Set)) and not v.elts) or \
                (isinstance(v, ast.Call) and chain(v.func) in ("list", "set", "tuple", "collections.deque", "deque") and not v.args and not v.keywords)
            for w in writes:
                if isinstance(w, ast.Assign) and len(w.targets) == 1 and isinstance(w.targets[0], ast.Name):
                    if not empty(w.value):
                        kinds.add(self.elem_kind(scope, w.value, depth + 1))
                elif isinstance(w, ast.AnnAssign) and w.value is not None:
                    if not empty(w.value):
                        kinds.add(self.elem_kind(scope, w.value, depth + 1))
                elif isinstance(w, ast.AugAssign) and isinstance(w.op, ast.Add):
                    kinds.add(self.elem_kind(scope, w.value, depth + 1))
                else:
                    return None
            for n in _scope_nodes(scope):
                if isinstance(n, ast.Call) and isinstance(n.func, ast.Attribute) and isinstance(n.func.value, ast.Name) and n.func.value.id == name:
                    m = n.func.attr
                    if m in ("append", "add", "appendleft") and len(n.args) == 1:
                        kinds.add(self.kind(scope, n.args[0], depth + 1))
                    elif m in ("extend", "update", "extendleft") and len(n.args) == 1:
                        kinds.add(self.elem_kind(scope, n.args[0], depth + 1))
                    elif m == "insert" and len(n.args) == 2:
                        kinds.add(self.kind(scope, n.args[1], depth + 1))
                    elif m in ("__setitem__", "__iadd__"):
                        return None
                elif isinstance(n, ast.Subscript) and isinstance(n.ctx, ast.Store) and isinstance(n.value, ast.Name) and n.value.id == name:
                    return None
            return kinds.pop() if len(kinds) == 1 else None
        finally:
            self._busy.discard(key)

    def _comp_bindings(self, fi):
        """{id(Name node): comprehension generator that binds it} for the loads of comprehension variables in fi"""
        m = self._comp.get(fi.qn)
        if m is not None:
            return m
        m = self._comp[fi.qn] = {}

        def visit(node, env):
            if isinstance(node, (ast.ListComp, ast.SetComp, ast.GeneratorExp, ast.DictComp)):
                env2 = dict(env)
                for g in node.generators:
                    visit(g.iter, env2)
                    for x in ast.walk(g.target):
                        if isinstance(x, ast.Name):
                            env2[x.id] = g
                    for c in g.ifs:
                        visit(c, env2)
                for part in ([node.key, node.value] if isinstance(node, ast.DictComp) else [node.elt]):
                    visit(part, env2)
                return
            if isinstance(node, ast.Lambda):
                a = node.args
                shadow = {p.arg for p in a.posonlyargs + a.args + a.kwonlyargs} | {x.arg for x in (a.vararg, a.kwarg) if x is not None}
                for d in list(a.defaults) + [d for d in a.kw_defaults if d is not None]:
                    visit(d, env)
                visit(node.body, {k: v for k, v in env.items() if k not in shadow})
                return
            if isinstance(node, ast.Name):
                if isinstance(node.ctx, ast.Load) and node.id in env:
                    m[id(node)] = env[node.id]
                return
            for child in ast.iter_child_nodes(node):
                visit(child, env)

        visit(fi.node, {})
        return m

    def obs_keys_clean(self):
        if self._obs is None:
            self._obs = False  # recursion guard: a cycle through the table is not a source
            ok = True
            n_ins = 0
            for fi in self.funcs:
                for scope in _scopes(fi):
                    nodes = _scope_nodes(scope)
                    for n in nodes:
                        key = None
                        if isinstance(n, (ast.Assign, ast.AugAssign, ast.AnnAssign)):
                            tgts = n.targets if isinstance(n, ast.Assign) else [n.target]
                            for t in tgts:
                                for tt in (t.elts if isinstance(t, (ast.Tuple, ast.List)) else [t]):
                                    if chain(tt) == "self._observations":
                                        v = n.value
                                        empty = (isinstance(v, ast.Dict) and not v.keys) or (isinstance(v, ast.Call) and chain(v.func) == "dict" and not v.args and not v.keywords)
                                        if not empty:
                                            ok = False
                                    elif isinstance(tt, ast.Subscript) and chain(tt.value) == "self._observations":
                                        key = tt.slice
                        elif isinstance(n, ast.Call) and isinstance(n.func, ast.Attribute) and chain(n.func.value) == "self._observations":
                            if n.func.attr in ("setdefault", "__setitem__") and n.args:
                                key = n.args[0]
                            elif n.func.attr == "update" and len(n.args) == 1 and not n.keywords and isinstance(n.args[0], ast.Dict) and all(k is not None for k in n.args[0].keys):
                                # d.update({k: v}) inserts exactly the displayed keys
                                for k in n.args[0].keys:
                                    n_ins += 1
                                    if self.kind(scope, k) != "path":
                                        ok = False
                            elif n.func.attr in ("update", "fromkeys"):
                                ok = False
                        if key is not None:
                            n_ins += 1
                            if self.kind(scope, key) != "path":
                                ok = False
            self._obs = ok and n_ins >= 1
        return self._obs

    def call_sites_of(self, fi):
        """call sites of a method (self.m), of a plain function of the module or of a nested function (by name)"""
        if fi.cls is not None and fi.parent is None:
            return self.call_sites(fi.name)
        return self.call_sites(fi.name, of=fi)

    def bare_refs_of(self, fi):
        if fi.cls is not None and fi.parent is None:
            return self.bare_refs(fi.name)
        return self.bare_refs(fi.name, of=fi)

    def _ref_test(self, user, meth_name, of):
        """predicate recognising a reference to the function inside the function `user` (None: cannot refer to it)"""
        if of is None:
            sn = _self_name(user)
            if sn is None:
                return None
            return lambda x: isinstance(x, ast.Attribute) and isinstance(x.value, ast.Name) and x.value.id == sn and x.attr == meth_name
        # a plain name: visible in the defining function and the functions nested in it (nested def) / everywhere in
        # the module (module-level def), unless a local of the same name shadows it on the way
        f = user
        while f is not None and f is not of.parent:
            if meth_name in kit._local_names(f.node):
                return None
            f = f.parent
        if of.parent is not None and f is None:
            return None
        return lambda x: isinstance(x, ast.Name) and isinstance(x.ctx, ast.Load) and x.id == meth_name

    def call_sites(self, meth_name, of=None):
        """[(scope, call)] of self.<meth>(...) anywhere in the class.  A method handed over as a callable with its
        arguments -- functools.partial(self.m, a), loop.run_in_executor(None, self.m, a), asyncio.to_thread(self.m, a),
        call_soon(self.m, a): the positional arguments that follow the callable are its arguments -- is the same
        fact as the call self.m(a); it is returned as a synthetic Call whose `_site` is the reference and whose
        `_via` is the enclosing call.  A callable handed to an element-wise applicator (map, filter, sorted(key=) ...)
        is the same fact as a call with an *element* of the iterable(s): see _handed_over."""
        out = []
        for fi in self.funcs:
            ref = self._ref_test(fi, meth_name, of)
            if ref is None:
                continue
            for scope in _scopes(fi):
                for n in _scope_nodes(scope):
                    if not isinstance(n, ast.Call):
                        continue
                    if ref(n.func):
                        out.append((scope, n))
                    for i, a in enumerate(n.args):
                        if ref(a):
                            for args, kws in _handed_over(n, i):
                                synth = ast.Call(func=a, args=args, keywords=kws)
                                ast.copy_location(synth, n)
                                synth._site, synth._via = a, n
                                out.append((scope, synth))
        return out

    def keyword_sites(self, fi):
        """([(scope, synthetic call)], [(scope, reference)]): the references to fi that are handed over *by keyword*
        and whose invocation arguments are known (sorted(it, key=f), x.sort(key=f), min/max(..., key=f),
        Thread(target=f, args=(a, b)) ...), as synthetic calls like those of call_sites, and the remaining bare
        references (the callable escapes to where the rule does not see its arguments)."""
        known, unknown = [], []
        for scope, r in self.bare_refs_of(fi):
            bound = None
            for n in _scope_nodes(scope):
                if isinstance(n, ast.Call):
                    kw = next((k for k in n.keywords if k.value is r), None)
                    if kw is not None:
                        bound = _handed_over_kw(n, kw)
                        via = n
                        break
            if bound is None:
                aliased = self._alias_sites(scope, r)
                if aliased is None:
                    unknown.append((scope, r))
                else:
                    known.extend(aliased)
                continue
            for args, kws in bound:
                synth = ast.Call(func=r, args=args, keywords=kws)
                ast.copy_location(synth, via)
                synth._site, synth._via = r, via
                known.append((scope, synth))
        return known, unknown

    def _alias_sites(self, scope, value):
        """`f = <value>` (a function reference or a lambda bound to a single-assignment local): the invocations of the
        callable are the uses of f.  [(scope, real or synthetic call)] when every load of f in the function is a call
        or a handing over with known arguments; None when there is no such binding or f escapes (is stored, returned,
        used inside a nested function, handed over by an unknown convention)."""
        if scope.lam is not None:
            return None
        name = None
        for n in _scope_nodes(scope):
            if isinstance(n, ast.Assign) and n.value is value and len(n.targets) == 1 and isinstance(n.targets[0], ast.Name):
                name = n.targets[0].id
                break
        if name is None or scope.param_default(name)[0] or len(writes_to_name(scope.node, name)) != 1:
            return None
        nodes = _scope_nodes(scope)
        loads = [x for x in ast.walk(scope.node) if isinstance(x, ast.Name) and x.id == name and isinstance(x.ctx, ast.Load)]
        own = {id(x) for x in nodes}
        if any(id(x) not in own for x in loads):
            return None
        out, seen = [], set()
        for n in nodes:
            if not isinstance(n, ast.Call):
                continue
            if isinstance(n.func, ast.Name) and n.func.id == name:
                seen.add(id(n.func))
                out.append((scope, n))
            for i, a in enumerate(n.args):
                if isinstance(a, ast.Name) and a.id == name:
                    seen.add(id(a))
                    for args, kws in _handed_over(n, i):
                        synth = ast.Call(func=a, args=args, keywords=kws)
                        ast.copy_location(synth, n)
                        synth._site, synth._via = a, n
                        out.append((scope, synth))
            for k in n.keywords:
                if isinstance(k.value, ast.Name) and k.value.id == name:
                    bound = _handed_over_kw(n, k)
                    if bound is None:
                        return None
                    seen.add(id(k.value))
                    for args, kws in bound:
                        synth = ast.Call(func=k.value, args=args, keywords=kws)
                        ast.copy_location(synth, n)
                        synth._site, synth._via = k.value, n
                        out.append((scope, synth))
        if any(id(x) not in seen for x in loads):
            return None
        return out

    def bare_refs(self, meth_name, of=None):
        """[(scope, attribute)] of references self.<meth> that are neither called nor handed over with arguments"""
        out = []
        for fi in self.funcs:
            ref = self._ref_test(fi, meth_name, of)
            if ref is None:
                continue
            for scope in _scopes(fi):
                nodes = _scope_nodes(scope)
                used = set()
                for n in nodes:
                    if isinstance(n, ast.Call):
                        used.add(id(n.func))
                        used.update(id(a) for a in n.args)
                for n in nodes:
                    if ref(n) and id(n) not in used and isinstance(n.ctx, ast.Load):
                        out.append((scope, n))
        return out

    def _param_kind(self, fi, name, depth):
        key = (fi.qn, name)
        if key in self._param:
            return self._param[key]
        self._param[key] = None
        pn = params(fi)
        sites = self.call_sites_of(fi)
        by_kw, escaping = self.keyword_sites(fi)
        sites = sites + by_kw
        kinds = set()
        if escaping:
            # the function is also referenced as a value whose invocation the rule does not see (stored, returned,
            # handed over by an unknown keyword): the parameter may be bound to anything there
            kinds.add(None)
        for scope, call in sites:
            kinds.add(_bound_kind(self, scope, call, pn, name, depth))
        res = kinds.pop() if len(kinds) == 1 and sites else None
        self._param[key] = res
        return res

    def _lambda_param_kind(self, scope, name, depth):
        """kind of a parameter (without default) of a lambda: the lambda is created inside a call that invokes it
        with known arguments (map(lambda e: ..., it), sorted(it, key=lambda e: ...), partial(lambda p: ..., path),
        run_in_executor(None, lambda p: ..., path)) or is called on the spot.  A lambda that is stored, returned or
        handed to anything else has unknown arguments (None)."""
        lam, outer = scope.lam, scope.outer
        if outer is None:
            return None
        a = lam.args
        if a.vararg is not None or a.kwarg is not None:
            return None
        pn = [p.arg for p in a.posonlyargs + a.args]
        for n in _scope_nodes(outer):
            if not isinstance(n, ast.Call):
                continue
            bound = None
            if n.func is lam:
                bound = [(list(n.args), list(n.keywords))]
            elif any(x is lam for x in n.args):
                bound = _handed_over(n, next(i for i, x in enumerate(n.args) if x is lam))
            else:
                kw = next((k for k in n.keywords if k.value is lam), None)
                if kw is not None:
                    bound = _handed_over_kw(n, kw)
                    if bound is None:
                        return None
            if bound is None:
                continue
            kinds = set()
            for args, kws in bound:
                synth = ast.Call(func=lam, args=args, keywords=kws)
                kinds.add(_bound_kind(self, outer, synth, pn, name, depth))
            return kinds.pop() if len(kinds) == 1 else None
        aliased = self._alias_sites(outer, lam)
        if aliased:
            kinds = {_bound_kind(self, sc, call, pn, name, depth) for sc, call in aliased}
            return kinds.pop() if len(kinds) == 1 else None
        return None


class _Elem(ast.expr):
    """Synthetic argument expression: *an element of* the iterable expression `it` (what map / filter / sorted(key=)
    hand to their callable).  Only ever evaluated by Flow.kind."""
    _fields = ("it",)


def _bound_kind(fl, scope, call, pn, name, depth):
    """kind of the value the (real or synthetic) call binds to the parameter `name` of a callee with the positional
    parameters pn"""
    if any(isinstance(a, ast.Starred) for a in call.args) or any(k.arg is None for k in call.keywords):
        return None
    if name in pn and pn.index(name) < len(call.args):
        arg = call.args[pn.index(name)]
    else:
        arg = next((k.value for k in call.keywords if k.arg == name), None)
    return fl.kind(scope, arg, depth + 1)


# Callables that apply their first argument to the elements of the iterables that follow it, one element of each
# iterable per positional parameter: builtin map / filter, itertools.filterfalse / takewhile / dropwhile, and the
# `map`-like methods of executors and pools (Executor.map(f, *iterables), Pool.map / imap / imap_unordered /
# map_async(f, iterable[, chunksize]) -- a chunk size is an int, iterating over which yields nothing sanitised).
_ELEMENTWISE = {"map": None, "imap": None, "imap_unordered": None, "map_async": None,
                "filter": 1, "filterfalse": 1, "takewhile": 1, "dropwhile": 1}
# f(*element): the element's components are not tracked -> unknown arguments
_STARWISE = {"starmap", "starmap_async"}
# folds: f(accumulator, element) -- the accumulator is whatever f returned -> unknown arguments
_FOLDS = {"reduce", "accumulate"}


def _last_name(call):
    f = call.func
    if isinstance(f, ast.Attribute):
        return f.attr
    if isinstance(f, ast.Name):
        return f.id
    return None


def _handed_over(call, i):
    """[(positional arguments, keywords)] with which the callable that is the i-th positional argument of `call` is
    invoked.  Element-wise applicators invoke it with one element of each iterable (synthetic _Elem arguments);
    starmap / reduce with arguments the rule does not track (a Starred argument, which binds nothing); everything
    else follows the convention of functools.partial / run_in_executor / to_thread / call_soon / call_later /
    submit: the positional arguments after the callable are its arguments (and, for partial, the keywords)."""
    name = _last_name(call)
    rest = list(call.args[i + 1:])
    unknown = [([ast.Starred(value=ast.Constant(value=None), ctx=ast.Load())], [])]
    if i == 0 and name in _ELEMENTWISE and rest and not any(isinstance(x, ast.Starred) for x in rest):
        n_it = _ELEMENTWISE[name]
        if n_it is not None and len(rest) != n_it:
            return unknown
        return [([_Elem(it=x) for x in rest], [])]
    if name in _STARWISE or name in _FOLDS:
        return unknown
    if i == 1 and name == "groupby" and not rest:
        return [([_Elem(it=call.args[0])], [])]
    return [(rest, list(call.keywords) if name == "partial" else [])]


def _handed_over_kw(call, kw):
    """same for a callable handed over as the keyword argument `kw` of `call`; None: unknown convention"""
    name = _last_name(call)
    pos = list(call.args)
    if any(isinstance(x, ast.Starred) for x in pos):
        return None
    if kw.arg == "key":
        if name in ("sorted", "groupby") and len(pos) == 1:
            return [([_Elem(it=pos[0])], [])]
        if name in ("min", "max"):
            if len(pos) == 1:
                return [([_Elem(it=pos[0])], [])]
            return [([x], []) for x in pos] if pos else None
        if name == "sort" and not pos and isinstance(call.func, ast.Attribute):
            return [([_Elem(it=call.func.value)], [])]
        if name in ("nlargest", "nsmallest") and len(pos) == 2:
            return [([_Elem(it=pos[1])], [])]
        return None
    if kw.arg == "target":
        # threading.Thread(target=f, args=(a, b), kwargs={...}) / multiprocessing.Process
        a = next((k.value for k in call.keywords if k.arg == "args"), None)
        k2 = next((k.value for k in call.keywords if k.arg == "kwargs"), None)
        if k2 is not None:
            return None
        if a is None:
            return [([], [])]
        if isinstance(a, (ast.Tuple, ast.List)) and not any(isinstance(x, ast.Starred) for x in a.elts):
            return [(list(a.elts), [])]
        return None
    return None


def _self_name(fi):
    """name of the instance parameter of the method enclosing fi (None for static methods / plain functions)"""
    m = fi
    while m.parent is not None:
        m = m.parent
    if m.cls is None or any((chain(d) or "") == "staticmethod" for d in m.node.decorator_list):
        return None
    a = m.node.args
    ps = a.posonlyargs + a.args
    return ps[0].arg if ps else None


def _component(target, name, k):
    """kind bound to `name` when a value of kind k is assigned to / unpacked into `target`"""
    if isinstance(target, ast.Name):
        return k if target.id == name else None
    if isinstance(target, ast.Starred):
        return None
    if isinstance(target, (ast.Tuple, ast.List)):
        if not (isinstance(k, tuple) and k[0] == "tuple" and len(k[1]) == len(target.elts)) or any(isinstance(x, ast.Starred) for x in target.elts):
            return None
        for t, kk in zip(target.elts, k[1]):
            if any(isinstance(x, ast.Name) and x.id == name for x in ast.walk(t)):
                return _component(t, name, kk)
    return None


def _const_str_(e):
    return e.value if isinstance(e, ast.Constant) and isinstance(e.value, str) else None


def _open_mode_writes(call, pos):
    mode = call.args[pos] if len(call.args) > pos else next((k.value for k in call.keywords if k.arg == "mode"), None)
    if mode is None:
        return False
    if isinstance(mode, ast.Constant) and isinstance(mode.value, str):
        return any(c in mode.value for c in "wax+")
    return True  # unknown mode: assume it may write


def _is_sanitiser(fi):
    f = fi
    while f is not None:
        if f.cls is not None and f.name == SANITISER:
            return True
        f = f.parent
    return False


# ---------------------------------------------------------------------------
@R.clause("C19.a", "every file-system sink of FileServer takes its path from request_to_localpath")
def a(ctx):
    fl = Flow(ctx.prog)
    ctx.prog.func(FS + "." + SANITISER)
    n = 0
    for fi in fl.funcs:
        if _is_sanitiser(fi):
            continue
        for scope in _scopes(fi):
            for call, paths, mut, label in fl.sinks(scope):
                for p in paths:
                    n += 1
                    ok = fl.kind(scope, p) == "path"
                    what = "no directory given (system temp dir)" if p is None else stmt_text(p, 80)
                    ctx.ob("the path reaching %s is derived from request_to_localpath" % label, ok, fi, call,
                           detail="path expression: %s" % what)
    ctx.floor("file-system sinks in FileServer", n, 14)
    ctx.note("%d sink operands inspected; keys of _observations sanitised: %s" % (n, fl.obs_keys_clean()))


# ---------------------------------------------------------------------------
# C19.b


def _const_str(e):
    return e.value if isinstance(e, ast.Constant) and isinstance(e.value, str) else None


class Sanitiser:
    """Shape of request_to_localpath: result R = self.root / J, J = "/".join(P), P = <request>.opt.uri_path."""

    def __init__(self, ctx, strict=True):
        prog = ctx.prog
        self.ctx = ctx
        self.strict = strict  # False: a return whose value is not one of the identity shapes gets the shape None (see C19.g)
        self.prog = prog
        self.fi = fi = prog.func(FS + "." + SANITISER)
        self.cfg = cfg_of(fi)
        p = params(fi)
        ctx.need(len(p) >= 1, "request_to_localpath has no request parameter")
        self.req = p[0]
        self.rets = [n for n in self.cfg.nodes if n.kind == "return" and self.cfg.is_reachable(n.id)]
        ctx.need(self.rets, "request_to_localpath has no reachable return")
        ctx.need(self.cfg.exit not in self.cfg.reach({self.cfg.entry}, avoid={n.id for n in self.rets}, skip_labels=("exc",)),
                 "request_to_localpath can fall off its end without returning a path")
        self.shapes = {}
        for r in self.rets:
            self.shapes[r.id] = self._shape(r.ast.value)

    def _strip(self, e):
        """Peel .resolve()/.absolute() and single-assignment locals."""
        resolved = False
        for _ in range(6):
            e2 = resolve_local(self.fi.node, e)
            if isinstance(e2, ast.Call) and isinstance(e2.func, ast.Attribute) and e2.func.attr in SAME_PATH_METHODS and not e2.args:
                resolved = resolved or e2.func.attr == "resolve"
                e2 = e2.func.value
            if e2 is e:
                break
            e = e2
        return e, resolved

    def _shape(self, v):
        """How the result is assembled from the root and the components P.  Two families, equivalent for every
        component tuple the four exclusions let through (no component contains '/', is '.' or '..', no empty
        component before the last):
          join      root / "/".join(P), root.joinpath("/".join(P)), Path(root, "/".join(P)), root / Path("/".join(P))
          joinpath  root.joinpath(*P), Path(root, *P), root / Path(*P), a local starting at root and extended by
                    `x = x / c` for c in P  -- pathlib joins component-wise, drops empty components, and the result
                    leaves the root only through a component starting with '/' (exclusion (i)) or '..' (iii)
        """
        ctx = self.ctx
        fn = self.fi.node
        ctx.need(v is not None, "request_to_localpath returns no value")
        Rx, _ = self._strip(v)
        is_root = lambda e: chain(self._strip(e)[0]) == "self.root"
        ctor = lambda e: isinstance(e, ast.Call) and chain(e.func) in WRAPPERS - {"str", "os.fspath"} and not e.keywords

        def joined(e):
            """P when e is "/".join(P) (possibly behind a single-assignment local / str()), else None"""
            e = resolve_local(fn, e)
            while isinstance(e, ast.Call) and chain(e.func) in ("str", "os.fspath") and len(e.args) == 1 and not e.keywords:
                e = resolve_local(fn, e.args[0])
            jb = match("$s.join($p)", e)
            if jb is not None and _const_str(jb["s"]) == "/":
                return jb["p"]
            return None

        def tail(args):
            """(kind, P source) for the arguments that follow the root: `*P` or "/".join(P)"""
            if len(args) == 1 and isinstance(args[0], ast.Starred):
                return "joinpath", args[0].value
            if len(args) == 1 and joined(args[0]) is not None:
                return "join", joined(args[0])
            return None

        found = None
        if isinstance(Rx, ast.BinOp) and isinstance(Rx.op, ast.Div) and is_root(Rx.left):
            right = resolve_local(fn, Rx.right)
            if joined(right) is not None:
                found = ("join", joined(right))
            elif ctor(right):
                found = tail(right.args)
        elif isinstance(Rx, ast.Call) and isinstance(Rx.func, ast.Attribute) and Rx.func.attr == "joinpath" and is_root(Rx.func.value) and not Rx.keywords:
            found = tail(Rx.args)
        elif ctor(Rx) and Rx.args and is_root(Rx.args[0]):
            found = tail(Rx.args[1:])
        elif isinstance(v, ast.Name) or isinstance(Rx, ast.Name):
            # accumulation: x = root; for c in P: x = x / c   (or x /= c, x = x.joinpath(c))
            name = (Rx if isinstance(Rx, ast.Name) else v).id
            ws = writes_to_name(fn, name)
            inits = [w for w in ws if isinstance(w, (ast.Assign, ast.AnnAssign)) and w.value is not None and is_root(w.value)]
            steps = [w for w in ws if w not in inits]
            loops = [n for n in walk_no_nested(fn) if isinstance(n, ast.For) and isinstance(n.target, ast.Name) and not n.orelse]
            if len(inits) == 1 and len(steps) == 1 and inits[0] in fn.body:
                w = steps[0]
                loop = next((lp for lp in loops if lp in fn.body and lp.body == [w]), None)
                if loop is not None and fn.body.index(inits[0]) < fn.body.index(loop):
                    c = loop.target.id
                    ext = None
                    if isinstance(w, ast.AugAssign) and isinstance(w.op, ast.Div):
                        ext = w.value
                    elif isinstance(w, ast.Assign) and len(w.targets) == 1 and isinstance(w.targets[0], ast.Name):
                        bb = match("%s / $c" % name, w.value) or match("%s.joinpath($c)" % name, w.value)
                        ext = bb["c"] if bb is not None else None
                    if isinstance(ext, ast.Name) and ext.id == c and len(writes_to_name(fn, c)) == 1:
                        found = ("joinpath", loop.iter)
        if found is None and not self.strict:
            return None
        ctx.need(found is not None, self.unrecognised(v))
        kind_, Psrc = found
        P = resolve_local(fn, Psrc)
        while isinstance(P, ast.Call) and chain(P.func) in ("list", "tuple") and len(P.args) == 1 and not P.keywords:
            P = resolve_local(fn, P.args[0])
        return {"R": Rx, "P": P, "Psrc": Psrc, "kind": kind_}


    def unrecognised(self, v):
        return ("returned value %s is not the root joined with the components (self.root / '/'.join(P), self.root.joinpath(*P), Path(self.root, *P), ...)"
                % stmt_text(self._strip(v)[0], 80))


def _int_const(e):
    if isinstance(e, ast.Constant) and isinstance(e.value, int) and not isinstance(e.value, bool):
        return e.value
    if isinstance(e, ast.UnaryOp) and isinstance(e.op, ast.USub) and isinstance(e.operand, ast.Constant) and isinstance(e.operand.value, int):
        return -e.operand.value
    return None


def _num_const(e):
    """integer value of a constant, True/False counting as 1/0 (the `more` field of a block descriptor)"""
    if isinstance(e, ast.Constant) and isinstance(e.value, bool):
        return int(e.value)
    return _int_const(e)


EXCLUSIONS = [
    ("slash", "(i) a component containing '/' never reaches the join"),
    ("dot", "(ii) the component '.' never reaches the join"),
    ("dotdot", "(iii) the component '..' never reaches the join"),
    ("abs", "(iv) the join cannot be absolute (empty leading/non-final component, absolute joined value or result outside self.root is rejected)"),
]

# Scenarios of C19.b.  The Uri-Path is a symbolic sequence with ONE distinguished component $e of the excluded kind
# at a given position; every other component ($g..) is an unconstrained string, and the stretches between them have
# unknown length.  The clause holds when the `return` is unreachable under every scenario of the exclusion.
#   position           sequence
#   first & final      ($e,)
#   first & non-final  ($e, *$g1.., $g9)
#   later & final      ($g8, *$g1.., $e)
#   later & non-final  ($g8, *$g1.., $e, *$g2.., $g9)
# An absolute join arises exactly from an empty *leading* component followed by at least one more (a component
# starting with "/" is covered by (i)), so (iv) has the single scenario first & non-final with $e == "".
# "Result inside the root" tests (is_relative_to / relative_to / commonpath / parents) are answered for the harmful
# instance of the scenario: lexically, an absolute join lies outside the root (False) while '.', '..' stay inside
# (True; PurePath does not collapse '..') and a component with '/' may or may not (free); after resolve() on both
# sides every harmful instance lies outside (False).
_POSITIONS = {
    "first&final": lambda e: [("one", e)],
    "first&nonfinal": lambda e: [("one", e), ("many", 1), ("one", kit.N("$g9"))],
    "later&final": lambda e: [("one", kit.N("$g8")), ("many", 1), ("one", e)],
    "later&nonfinal": lambda e: [("one", kit.N("$g8")), ("many", 1), ("one", e), ("many", 2), ("one", kit.N("$g9"))],
}
_KIND = {
    "slash": dict(value=None, contain={"lex": None, "res": False}, what="a component containing '/'"),
    "dot": dict(value=".", contain={"lex": True, "res": False}, what="the component '.'"),
    "dotdot": dict(value="..", contain={"lex": True, "res": False}, what="the component '..'"),
    "abs": dict(value="", contain={"lex": False, "res": False}, what="an empty leading component"),
}
_WITNESSES = {
    "slash": [("a/b",), ("x", "a/b"), ("a/b", "x"), ("x", "a/b", "y"), ("/etc",), ("x", "/etc", "y"), ("b/",), ("../x",)],
    "dot": [(".",), ("x", "."), (".", "x"), ("x", ".", "y")],
    "dotdot": [("..",), ("x", ".."), ("..", "x"), ("x", "..", "y")],
    "abs": [("", "etc", "hostname"), ("", "x"), ("", "etc", "")],
}


def _b_symbolic(uri_chain, tag):
    kind = _KIND[tag]
    for pos in (["first&nonfinal"] if tag == "abs" else sorted(_POSITIONS)):
        e = kit.N("$e")
        bind = lambda c_, ch=uri_chain: kit.N("$P") if c_ == ch else None
        yield kit.Scenario("%s@%s" % (tag, pos), bind=bind, seqs={"$P": _POSITIONS[pos](e)},
                           cenv={} if kind["value"] is None else {"$e": kind["value"]},
                           slash={"$e"} if kind["value"] is None else (), tainted={"$P", "$e"}, contain=kind["contain"],
                           taint_mutated=True, taint_through_calls=True,
                           describe="%s in %s position" % (kind["what"], pos.replace("&", ", ")))


def _b_concrete(uri_chain, tag):
    for w in _WITNESSES[tag]:
        bind = lambda c_, ch=uri_chain: kit.N("$P") if c_ == ch else None
        yield kit.Scenario("%s@%r" % (tag, w), bind=bind, seqs={"$P": [("one", kit.K(x, taint=True)) for x in w]}, cenv={"$P": w},
                           tainted={"$P"}, contain=_KIND[tag]["contain"], taint_mutated=True, taint_through_calls=True,
                           describe="Uri-Path %r" % (w,))


def _b_reach(prog, ci, fi, ret_id, scenarios):
    """[(scenario, state)] for the states in which the return is reached, certain ones first"""
    certain, uncertain = [], []
    for sc in scenarios:
        sx = kit.SX(prog, ci, sc)
        sx.run(fi)
        for st, depth, stack in sx.visits.get((fi.qn, ret_id), []):
            if depth == 0:
                (uncertain if st.uncertain() else certain).append((sc, st))
    return certain, uncertain


@R.clause("C19.b", "request_to_localpath returns self.root / '/'.join(uri_path) behind guards excluding '/', '.', '..' and an absolute join")
def b(ctx):
    """The four exclusions are decided by symbolic execution of the sanitiser (with the helpers it calls) on a
    Uri-Path that contains a component of the excluded kind: the property clause holds iff the `return` cannot be
    reached.  How the rejection is spelled is immaterial: any()/all() over a generator, a loop (with or without
    enumerate, with a flag or a raise), a helper predicate with several returns, `c in path[:-1]`, set
    intersection, tests on the joined string (startswith / isabs / is_absolute) or on the result (is_relative_to,
    relative_to in a try, parents).  `assert` is not a branch.  A violation is only reported when the return is
    reached on a path none of whose decisions the executor failed to interpret -- or, failing that, when the
    checker's own evaluator carries a concrete witness path (e.g. ('', 'etc', 'hostname')) through to the return;
    otherwise the clause refuses (analysis error)."""
    S = Sanitiser(ctx, strict=False)
    fi, cfg = S.fi, S.cfg
    prog = ctx.prog
    ci = prog.cls(FS)
    uri_chain = "%s.opt.uri_path" % S.req
    for r in S.rets:
        sh = S.shapes[r.id]
        if sh is None:
            # the components pass through an operation that is not the identity on their way into the join: the four
            # exclusions say nothing about what is joined.  C19.g owns that case; when it has a witness the violation is
            # reported there, otherwise this clause refuses as it always did.
            escapes, _ = _g_witness_run(prog, ci, S, r)
            ctx.need(bool(escapes), S.unrecognised(r.ast.value))
            ctx.note("return `%s`: not an identity join, decided by C19.g" % stmt_text(r.ast.value, 80))
            continue
        ctx.ob("the joined components are the request's Uri-Path", chain(sh["P"]) == uri_chain and not writes_to_name(fi.node, S.req),
               fi, r.ast, detail="components: %s" % stmt_text(sh["P"], 80))
        for tag, desc in EXCLUSIONS:
            if tag == "abs" and sh["kind"] == "joinpath":
                # root.joinpath(*components) ignores empty components; it is absolute only if a component starts
                # with "/", which (i) excludes
                ctx.ob(desc, True, fi, r.ast, detail="joinpath(*components): absolute only through a component with '/', see (i)")
                continue
            certain, uncertain = _b_reach(prog, ci, fi, r.id, _b_symbolic(uri_chain, tag))
            witness = None
            if not certain and uncertain:
                c2, u2 = _b_reach(prog, ci, fi, r.id, _b_concrete(uri_chain, tag))
                if c2:
                    certain = c2
                else:
                    sc, st = uncertain[0]
                    raise AnalysisError("request_to_localpath: cannot decide whether %s reaches the join: the test `%s` is outside the rule's vocabulary"
                                        % (sc.describe, "`, `".join(st.uncertain()[:2])))
            if certain:
                sc, st = certain[0]
                witness = "%s passes every guard on the path [%s]" % (sc.describe, st.describe(8))
                if tag == "abs":
                    witness += "; e.g. Uri-Path ('', 'etc', 'hostname') joins to '/etc/hostname' and self.root / '/etc/hostname' is absolute"
            ctx.ob(desc, not certain, fi, r.ast, detail=witness)


# ---------------------------------------------------------------------------
# C19.g: what the guards examined is what is joined
#
# C19.b decides that a Uri-Path with a harmful component never reaches the join.  That is a statement about the
# components AS THE GUARDS SEE THEM; it carries over to the path handed to the operating system only if the text that is
# joined under the root is the text that was examined.  The identity shapes of Sanitiser._shape (the components reach
# "/".join / joinpath / Path(...) behind nothing but str(), os.fspath(), tuple(), list(), Path(), single-assignment
# locals) establish that structurally.  Any other operation between the examination and the join (Unicode
# normalisation, percent-decoding, case folding, strip(), replace(), an ASCII round trip, ...) maps *accepted*
# components to new text, and the new text may be path syntax again.
#
# Decision: identity shape -> holds.  Otherwise the sanitiser is executed (symbolic executor of the kit, the checker's
# own models of the str methods / codecs / unicodedata.normalize / urllib.parse.unquote) on concrete Uri-Paths each of
# whose components is accepted by the four exclusions but is *one text operation away* from path syntax, and the
# returned path is computed lexically: a result with a '..' component, or not below the root, refutes the clause with
# that witness.  A non-identity shape for which no witness escapes is NOT accepted (a finite sample proves nothing):
# the clause refuses, as C19.b did before.

# components accepted by (i)-(iv) that common text operations turn into '..', '.', or something containing '/'
_NEAR_SYNTAX = [
    "\u2025", "\uff0e\uff0e", "\u2024\u2024", "\uff0e", "\uff0fetc", "a\uff0f\u2025\uff0f\u2025\uff0fb",  # compatibility forms (NFKC / NFKD)
    "%2e%2e", "%2E%2E", "%2e.", "%2fetc", "a%2f..%2f..%2fb", "%252e%252e",                          # percent-encoding
    " ..", ".. ", " .. ", "\t..\n", "..\u00a0", "\u3000..",                                          # white space around
    "..\u00e9", "\u00e9..", ".\u00e9.", ".\u200b.", "..\x00", "\x00..", ".\x00.",                    # characters a filter / codec drops
    "a\\..\\..\\b", "\\etc", "..\\",                                                                # the other separator
    "...", "....", ". .", "..;x", "..?x", "..#x", "..:x", "x:..",                                   # truncation / collapsing
]


def _g_witnesses(fnode):
    comps = list(_NEAR_SYNTAX)
    # string constants of the sanitiser itself: what it strips, replaces or splits at
    for n in ast.walk(fnode):
        c = _const_str(n) if isinstance(n, ast.Constant) else None
        if c and len(c) <= 4 and c not in ("/", ".", ".."):
            comps += [".." + c, c + "..", c + ".." + c, "a" + c + ".." + c + ".." + c + "b", c + "etc", "." + c + "."]
    seen, out = set(), []
    for c in comps:
        if c in ("", ".", "..") or "/" in c or c in seen:
            continue  # not accepted by the exclusions: C19.b's business
        seen.add(c)
        out += [(c, "x"), ("s", c), (c,)]
    return out


def _g_witness_run(prog, ci, S, r):
    """([(Uri-Path, returned path)] that leave the root, number of witnesses whose returned path was computed)"""
    from pathlib import PurePosixPath
    fi = S.fi
    uri_chain = "%s.opt.uri_path" % S.req
    me = _self_name(fi)
    is_root = lambda e: me is not None and chain(e) == me + ".root"
    root = PurePosixPath(kit.LEX_ROOT)
    escapes, computed = [], 0
    for w in _g_witnesses(fi.node):
        bind = lambda c_, ch=uri_chain: kit.N("$P") if c_ == ch else None
        sc = kit.Scenario("g@%r" % (w,), bind=bind, seqs={"$P": [("one", kit.K(x, taint=True)) for x in w]}, cenv={"$P": w},
                          tainted={"$P"}, contain={"lex": True, "res": True}, taint_mutated=True, taint_through_calls=True,
                          describe="Uri-Path %r" % (w,))
        sx = kit.SX(prog, ci, sc)
        sx.run(fi)
        for st, depth, stack in sx.visits.get((fi.qn, r.id), []):
            if depth != 0 or st.uncertain() or "via_exc" in st.flags:
                continue
            val = sx.peek(fi, r.id, r.ast.value, st)
            if val is None:
                continue
            try:
                res = kit.lex_value(val, is_root, sc.cenv)
            except (kit.Unk, kit.CRaise):
                continue
            if isinstance(res, str):
                res = PurePosixPath(res)
            if not isinstance(res, PurePosixPath):
                continue
            computed += 1
            below = res.parts[: len(root.parts)] == root.parts
            if not below or ".." in res.parts[len(root.parts):]:
                shown = str(res).replace(kit.LEX_ROOT, "<root>", 1) if below else str(res)
                escapes.append((w, shown))
    return escapes, computed


@R.clause("C19.g", "the text joined under the root is the text the guards examined: no operation between the checks and the join turns an accepted component into path syntax")
def g(ctx):
    S = Sanitiser(ctx, strict=False)
    prog = ctx.prog
    ci = prog.cls(FS)
    for r in S.rets:
        desc = "(v) the components are joined as they were examined"
        if S.shapes[r.id] is not None:
            ctx.ob(desc, True, S.fi, r.ast, detail="identity shape (%s)" % S.shapes[r.id]["kind"])
            continue
        escapes, computed = _g_witness_run(prog, ci, S, r)
        if not escapes:
            raise AnalysisError("request_to_localpath: %s; none of %d accepted Uri-Paths evaluated through it leaves the root, which proves nothing: "
                                "the operations applied between the checks and the join are outside the rule's vocabulary"
                                % (S.unrecognised(r.ast.value), computed))
        w, res = escapes[0]
        ctx.ob(desc, False, S.fi, r.ast,
               detail="Uri-Path %s passes every check and is returned as %s (%d of %d evaluated witnesses leave the root): the value joined is not the value examined"
               % (ascii(w), ascii(res), len(escapes), computed))


# ---------------------------------------------------------------------------
# C19.c / C19.f: reachability of the mutating sinks under a scenario
#
# Both clauses have the form "a mutating sink is executed only when C holds" (C = the server was started with write
# permission / the Uri-Path is not empty).  They are decided by running the symbolic executor of _kit_c19 over the
# methods of the class under the scenario "C is false" (self.write is the default False / the Uri-Path is ()) and
# asking whether a sink is reachable.  That is the contrapositive of the old "a branch outcome establishing C
# dominates the sink", but it does not depend on where and how the test is spelled: guard clause or nested if, test
# in a helper that returns a refusal or a boolean, De Morgan forms, a hoisted local, len()/==()/truthiness.


def _code_name(e):
    c = chain(e)
    return c.split(".")[-1] if c else None


def _exc_class_qn(prog, fi, e):
    """Qualified class of the expression raised (`X(...)` or `X`), also for the executor's symbolic values."""
    p = kit.opaque_parts(e)
    if p is not None:
        e = p[0]
    elif isinstance(e, ast.Call):
        e = e.func
    txt = chain(e)
    if not txt:
        return None
    q = prog.resolve_in_module(fi.module, txt)
    return q if q in prog.classes else None


def _class_code(prog, qn):
    v, _ = prog.class_attr(qn, "code")
    return _code_name(v) if v is not None else None


def _is_renderable(prog, qn):
    return prog.is_subclass(qn, "aiocoap.error.RenderableError")


def _outcome_responds_with(prog, fi, kind, val, codes_ok):
    """Same for an outcome of the symbolic executor: ('return', value) / ('raise', exception value)."""
    if val is None:
        return False
    if kind == "return":
        p = kit.opaque_parts(val)
        if p is None:
            return False
        code = next((k.value for k in p[2] if k.arg == "code"), None)
        return code is not None and _code_name(code) in codes_ok
    q = _exc_class_qn(prog, fi, val)
    return q is not None and _is_renderable(prog, q) and _class_code(prog, q) in codes_ok


class Reach:
    """Entry points of the class, its mutating sinks, and reachability of the sinks under scenarios."""

    def __init__(self, prog, fl=None):
        self.prog = prog
        self.fl = fl or Flow(prog)
        fl = self.fl
        self.sinks = []  # (fi, scope, call, label)
        for fi in fl.funcs:
            if _is_sanitiser(fi):
                continue
            for scope in _scopes(fi):
                for call, paths, mut, label in fl.sinks(scope):
                    if mut:
                        self.sinks.append((fi, scope, call, label, "sink"))
                for call in fl.file_writes(scope):
                    self.sinks.append((fi, scope, call, ".%s() on a file object" % call.func.attr, "filewrite"))
        # functions from which a mutating sink can be reached through calls inside the class
        has = {fi.qn for fi, *_ in self.sinks}
        modfuncs = {fi.name: fi for fi in fl.funcs if fi.cls is None and fi.parent is None}
        changed = True
        while changed:
            changed = False
            for fi in fl.funcs:
                if fi.qn in has:
                    continue
                for n in ast.walk(fi.node):
                    if isinstance(n, ast.Attribute) and isinstance(n.value, ast.Name) and n.attr in fl.ci.methods and fl.ci.methods[n.attr].qn in has:
                        has.add(fi.qn)
                        changed = True
                        break
                    if isinstance(n, ast.Name) and isinstance(n.ctx, ast.Load) and n.id in modfuncs and modfuncs[n.id].qn in has:
                        has.add(fi.qn)
                        changed = True
                        break
                    if isinstance(n, (ast.FunctionDef, ast.AsyncFunctionDef)) and n is not fi.node and any(f.node is n and f.qn in has for f in fl.funcs):
                        has.add(fi.qn)
                        changed = True
                        break
        self.entries = [fi for fi in fl.funcs if fi.qn in has and not _is_sanitiser(fi)]
        self.base = self.run(None)
        for fi in self.entries:
            if fi.qn in self.base.wrapped and (fi.qn, cfg_of(fi).entry) not in self.base.visits:
                raise AnalysisError("%s is replaced by the wrapper %s of its decorator, and the rule cannot see where the wrapper runs it"
                                    % (fi.short, self.base.wrapped[fi.qn].split(".")[-1]))
        # A method is *internal* when it is used inside the class (called, handed over as a callable, referenced) and
        # every call was stepped into by the executor: it then only runs in the contexts of those uses.
        self.internal = set()
        self.refs = {}
        for fi in self.entries:
            if fi.parent is not None:
                continue
            sites = fl.call_sites_of(fi)
            self.refs[fi.qn] = fl.bare_refs_of(fi)
            if (sites or self.refs[fi.qn]) and all(id(getattr(cs, "_site", cs)) in self.base.inlined_sites and id(getattr(cs, "_site", cs)) not in self.base.refused_sites
                                                   for _, cs in sites):
                self.internal.add(fi.qn)

    def run(self, scenario):
        sx = kit.SX(self.prog, self.fl.ci, scenario)
        sx.outcomes = {}
        for fi in self.entries:
            sx.outcomes[fi.qn] = sx.run(fi)
        return sx

    def node_visits(self, sx, fi, node, depth=0):
        """states in which the construct `node` of function fi is executed.  Visits made while stepping in from a
        caller always count; visits of the run of fi as an entry point count when fi can start from outside or
        from a live creation/reference point (a closure or lambda only runs after the statement creating it, a
        method reference only after the expression taking it)."""
        out = []
        own = []
        for nid in cfg_of(fi).locate(node):
            for st, d, stack in sx.visits.get((fi.qn, nid), []):
                (own if d == 0 else out).append((st, stack))
        if own and depth < 6:
            live = self.live(sx, fi, depth + 1)
            if live is True:
                out.extend(own)
            elif live:
                if all(st.uncertain() for st, _ in live):
                    own = [(st.flag(*["uncertain:" + u for u in live[0][0].uncertain()]), stack) for st, stack in own]
                out.extend(own)
        return out

    def live(self, sx, fi, depth):
        """True (entered from outside the class), or the states of the points at which fi comes into being"""
        if fi.parent is not None:
            return self.node_visits(sx, fi.parent, fi.node, depth)
        if fi.qn not in self.internal:
            return True
        out = []
        for scope, ref in self.refs.get(fi.qn, []):
            out.extend(self.scope_visits(sx, scope, ref, depth))
        return out

    def scope_visits(self, sx, scope, node, depth=0):
        """like node_visits for a construct inside a lambda: it runs only after the lambda has been created"""
        if scope.lam is not None:
            return self.node_visits(sx, scope.fi, scope.lam, depth)
        return self.node_visits(sx, scope.fi, node, depth)

    def visits(self, sx, fi, call, scope=None):
        if scope is not None:
            return self.scope_visits(sx, scope, call)
        return self.node_visits(sx, fi, call)

    def external_entries(self):
        return [fi for fi in self.entries if fi.qn not in self.internal and fi.parent is None]

    def reaches_sink(self, sx, entry):
        """does the run of `entry` (as entry point) visit a mutating sink"""
        for fi, scope, call, label, kind in self.sinks:
            node = scope.lam if scope.lam is not None else call
            for nid in cfg_of(fi).locate(node):
                for st, depth, stack in sx.visits.get((fi.qn, nid), []):
                    root = stack[0][0].replace(kit.ENTRY_TAG, "") if stack else fi.qn
                    if root == entry.qn:
                        return True
        return False


def _check_unreachable(ctx, R_, sxs, desc_fmt, kinds=("sink", "filewrite")):
    """One obligation per mutating sink: it is not executed under any of the scenario runs `sxs` = [(sx, why)]."""
    n = 0
    for fi, scope, call, label, kind in R_.sinks:
        if kind not in kinds:
            continue
        n += 1
        detail = None
        for sx, why in sxs:
            vs = R_.visits(sx, fi, call, scope)
            certain = [(st, stack) for st, stack in vs if not st.uncertain()]
            if vs and not certain:
                raise AnalysisError("%s: whether %s is reached %s depends on a test the rule cannot interpret: %s"
                                    % (fi.short, stmt_text(call, 60), why, "; ".join(sorted({u for st, _ in vs for u in st.uncertain()})[:3])))
            if certain:
                st, stack = certain[0]
                detail = "reached %s on the path [%s]%s" % (why, st.describe(), (" (entered from %s)" % stack[0][0].split(".")[-1].replace(kit.ENTRY_TAG, "")) if stack else "")
                break
        ctx.ob(desc_fmt % label, detail is None, fi, call, detail=detail)
    return n


@R.clause("C19.c", "every mutating sink is dominated by the self.write test whose failing side answers 4.03")
def c(ctx):
    prog = ctx.prog
    fl = Flow(prog)
    R_ = Reach(prog, fl)
    # Read-only configurations: the constructor's permission parameter holds its default (False, which is also what
    # the command line passes without --write) or any other falsy value an embedding application may pass (None, 0).
    # Requiring unreachability for each of them is the old "a branch on the *truth* of self.write dominates the sink":
    # `if self.write is None` / `is False` style tests let some falsy value through and are reported.
    # The scenario fixes every attribute the constructor computes from that parameter: `self.write = write`, but
    # just as well a complement flag `self.read_only = not write`, `self._writable = bool(write)` or a mode string
    # `"rw" if write else "ro"` -- their values under write=v are folded by the checker's own evaluator, so which of
    # them the handlers consult (and under which name) is immaterial.
    param, default, derived = _permission_config(prog, fl)
    ctx.need(param is not None, "cannot find the write-permission parameter of FileServer.__init__ (a parameter named `write` or the one self.write is assigned from)")
    ctx.need(default is not kit.Unk and not default, "cannot determine the read-only default of the constructor parameter `%s`" % param)
    values = [default] + [v for v in (False, None, 0) if not any(v is w or (type(v) is type(w) and v == w) for w in [default])]
    runs = []
    for v in values:
        bound = {}
        for ch, expr in derived.items():
            try:
                bound[ch] = kit.value_to_ast(kit.ceval(expr, {param: v}), taint=True) if expr is not None else None
            except (kit.Unk, kit.CRaise):
                bound[ch] = None
        ctx.need(any(b is not None for b in bound.values()),
                 "no attribute of FileServer holds a value the rule can compute from the constructor parameter `%s` (candidates: %s)"
                 % (param, ", ".join(sorted(bound)) or "none"))
        sc = kit.Scenario("write", bind=lambda c_, bound=bound: bound.get(c_))
        runs.append((R_.run(sc), "without write permission (%s)" % ", ".join("%s == %s" % (ch, stmt_text(b, 30)) for ch, b in sorted(bound.items()) if b is not None)))
    n = _check_unreachable(ctx, R_, runs, "mutating operation %s is dominated by the self.write test")
    ctx.floor("mutating sinks in FileServer", n, 5)

    # once the write flag has been consulted, the read-only side answers 4.03 Forbidden and nothing else
    tests = 0
    for fi in R_.external_entries():
        if not R_.reaches_sink(R_.base, fi):
            continue
        outs = [(k, v, st) for sx, _ in runs for k, v, st in sx.outcomes[fi.qn] if "used:write" in st.flags and "via_exc" not in st.flags]
        if not outs:
            continue
        tests += 1
        ok = all(_outcome_responds_with(prog, fi, k, v, {"FORBIDDEN"}) for k, v, st in outs)
        ctx.ob("without write permission the method answers 4.03 Forbidden", ok, fi, fi.node,
               construct="%s: not self.write" % fi.name,
               detail="exits on the read-only side: %s" % "; ".join(sorted({"%s %s" % (k, _short_val(v)) for k, v, st in outs})))
    ctx.floor("self.write tests in mutating methods", tests, 1)

    # the permission is configuration: the attributes holding it are assigned in __init__ only
    writers = []
    for fi in fl.funcs:
        sn = _self_name(fi) or "self"
        for ch in sorted(derived):
            for kind, node in stores_to(fi.node, sn + "." + ch.split(".", 1)[1]):
                writers.append((fi, node, ch))
    ctx.floor("assignments of the write-permission attributes", len(writers), 1)
    for fi, node, ch in writers:
        ctx.ob("%s is assigned only in __init__" % ch, fi.name == "__init__" and fi.cls is not None, fi, node)


def _plain(v):
    """text of a symbolic value without the executor's program-point markers (stable finding keys)"""
    import re
    t = stmt_text(v, 400)
    t = re.sub(r"\$(call|await|read)@[^(]*\(", "(", t)
    t = re.sub(r"\$\w+@[\w.<>]*:\d+:\w+", "<value>", t)
    return t if len(t) <= 140 else t[:137] + "..."


def _short_val(v):
    if v is None:
        return "<exception>"
    p = kit.opaque_parts(v)
    if p is not None:
        return "%s(%s)" % (stmt_text(p[0], 40), ", ".join("%s=%s" % (k.arg, stmt_text(k.value, 30)) for k in p[2]))
    return stmt_text(v, 60)


def _permission_config(prog, fl):
    """(parameter, default, {"self.X": expression over the parameter or None}) -- the constructor parameter that
    carries the write permission (named `write`; failing that, the parameter `self.write` is assigned from), its
    default as evaluated by the checker's own evaluator (kit.Unk when it has none / is not constant), and the
    attributes __init__ computes from it.  An attribute whose value the rule cannot attribute to a single
    unconditional assignment maps to None (it stays unconstrained in the scenario)."""
    init = fl.ci.methods.get("__init__")
    if init is None:
        return None, kit.Unk, {}
    sn = _self_name(init)
    sc = Scope(init)
    assigns = {}
    for n in walk_no_nested(init.node):
        if isinstance(n, (ast.Assign, ast.AnnAssign, ast.AugAssign)):
            tgts = n.targets if isinstance(n, ast.Assign) else [n.target]
            for t in tgts:
                for tt in (t.elts if isinstance(t, (ast.Tuple, ast.List)) else [t]):
                    if isinstance(tt, ast.Attribute) and isinstance(tt.value, ast.Name) and tt.value.id == sn:
                        simple = isinstance(n, (ast.Assign, ast.AnnAssign)) and tt is t and n.value is not None and n in init.node.body
                        assigns.setdefault("self." + tt.attr, []).append((n.value, simple))
    param = None
    if sc.param_default("write")[0]:
        param = "write"
    else:
        vals = assigns.get("self.write", [])
        if len(vals) == 1 and vals[0][0] is not None:
            v = resolve_local(init.node, vals[0][0])
            if isinstance(v, ast.Name) and sc.param_default(v.id)[0]:
                param = v.id
    if param is None:
        return None, kit.Unk, {}
    if writes_to_name(init.node, param):
        return param, kit.Unk, {}
    d = sc.param_default(param)[1]
    try:
        default = kit.ceval(d) if d is not None else kit.Unk
    except (kit.Unk, kit.CRaise):
        default = kit.Unk
    derived = {}
    for ch, vals in assigns.items():
        exprs = [resolve_local(init.node, v) if v is not None else None for v, _ in vals]
        mentions = [e is not None and any(isinstance(x, ast.Name) and x.id == param for x in ast.walk(e)) for e in exprs]
        if any(mentions) or (ch == "self.write" and param == "write"):
            derived[ch] = exprs[0] if len(exprs) == 1 and mentions[0] and vals[0][1] else None
    return param, default, derived


# ---------------------------------------------------------------------------
# C19.d


@R.clause("C19.d", "render_get_file: seek(block.start), read(block.size+1), more iff len(data) > block.size, payload data[:block.size], Block2 (number, more, szx)")
def d(ctx):
    """Decided on the states of the symbolic executor: in every state in which the file is read / the response is
    built, the *values* (syntax trees over the request, with locals, conditional expressions, `a or b` defaults and
    constructor fields resolved) are compared by normal form.  Which local holds the descriptor, whether the default
    is chosen by `or`, a conditional expression or an `if`, whether size/more are hoisted into locals, and whether
    the answer descriptor is built and then reset to None or only built when needed, makes no difference."""
    prog = ctx.prog
    fi = prog.func(FS + ".render_get_file")
    cfg = cfg_of(fi)
    p = params(fi)
    ctx.need(len(p) == 2, "render_get_file signature changed")
    req, path = p
    fn = fi.node

    # the file object: the result of `<path>.open(mode)` / `open(<path>, mode)` / `io.open(...)`, bound by `with ... as f`,
    # by an assignment (closed in a try/finally or not) or by `:=`
    fl = Flow(prog)

    def open_parts(ce):
        """(path expression, mode expression or None) when ce opens a file"""
        if not isinstance(ce, ast.Call):
            return None
        ext = fl.ext_name(fi, ce)
        kw = lambda name: next((k.value for k in ce.keywords if k.arg == name), None)
        if ext in ("open", "io.open"):
            return (ce.args[0] if ce.args else kw("file")), (ce.args[1] if len(ce.args) > 1 else kw("mode"))
        if isinstance(ce.func, ast.Attribute) and ce.func.attr == "open" and ext not in OS_READ and ext not in OS_WRITE:
            return ce.func.value, (ce.args[0] if ce.args else kw("mode"))
        return None

    opens = []
    for n in walk_no_nested(fn):
        bound = []
        if isinstance(n, (ast.With, ast.AsyncWith)):
            bound = [(item.context_expr, item.optional_vars) for item in n.items]
        elif isinstance(n, ast.Assign) and len(n.targets) == 1:
            bound = [(n.value, n.targets[0])]
        elif isinstance(n, ast.AnnAssign) and n.value is not None:
            bound = [(n.value, n.target)]
        elif isinstance(n, ast.NamedExpr):
            bound = [(n.value, n.target)]
        for ce, tgt in bound:
            # contextlib.closing(open(...)) / ExitStack.enter_context(open(...)) hand the same object on
            while isinstance(ce, ast.Call) and open_parts(ce) is None and len(ce.args) == 1 and not ce.keywords \
                    and (chain(ce.func) or "").split(".")[-1] in ("closing", "enter_context"):
                ce = ce.args[0]
            parts = open_parts(ce)
            if parts is not None and isinstance(tgt, ast.Name):
                opens.append((n, ce, tgt.id, parts))
    ctx.floor("files opened and bound to a name in render_get_file", len(opens), 1)
    ctx.need(len(opens) == 1, "render_get_file opens %d files; the rule expects one" % len(opens))
    wnode, ocall, fvar, (opath, mode) = opens[0]
    ctx.need(len(writes_to_name(fn, fvar)) == 1, "the name %s of the opened file is bound more than once" % fvar)
    opened = resolve_local(fn, opath) if opath is not None else None
    ctx.ob("the file opened is the path parameter", isinstance(opened, ast.Name) and opened.id == path and not writes_to_name(fn, path), fi, ocall)
    mv = _const_str(resolve_local(fn, mode)) if mode is not None else None
    ctx.ob("the file is opened read-only in binary mode", mv is not None and "b" in mv and "r" in mv and not any(c in mv for c in "wax+"), fi, ocall, detail="mode %r" % mv)

    seeks = [c for c, _ in find("%s.seek($*a)" % fvar, fn)]
    reads = [c for c, _ in find("%s.read($*a)" % fvar, fn)]
    ctx.floor("seek calls on the file", len(seeks), 1)
    ctx.floor("read calls on the file", len(reads), 1)
    ctx.ob("exactly one seek and one read per request", len(seeks) == 1 and len(reads) == 1, fi, reads[-1], detail="%d seek(s), %d read(s)" % (len(seeks), len(reads)))
    seek, read = seeks[0], reads[0]
    ctx.need(len(seek.args) >= 1, "seek without offset")
    sn, rn = cfg.loc1(seek), cfg.loc1(read)
    ctx.ob("the seek precedes the read on every path", cfg.dominates(sn, rn) and sn != rn and sn not in cfg.reach({rn}), fi, read)

    sx = kit.SX(prog, fl.ci, None)
    outcomes = sx.run(fi)
    N_ = Normalizer()

    def poly(e):
        try:
            return N_.poly(e) if e is not None else None
        except (norm.NormError, AnalysisError):
            return None

    def attr(b, name):
        return sx.simplify(ast.Attribute(value=b, attr=name, ctx=ast.Load()))

    def is_bt(v):
        return (getattr(v, "_cls", None) or "").endswith(".BlockwiseTuple")

    BT = "aiocoap.optiontypes.BlockOption.BlockwiseTuple"

    def bt_args(v):
        """the three fields of a constructed descriptor (positional or keyword; or another descriptor with fields
        replaced: X._replace(more=...)), else None"""
        pr_ = kit.opaque_parts(v)
        rp_ = sx.replace_parts(v)
        btf = sx.nt_fields(BT)
        if rp_ is not None and btf and len(btf) == 3 and BT in sx.nt_candidates(rp_[1]):
            vals_ = [attr(v, f) for f in btf]
            return None if any(isinstance(x, ast.Attribute) and x.value is v for x in vals_) else vals_
        fields = getattr(v, "_ntfields", None)
        if pr_ is None or not is_bt(v) or not fields or len(fields) != 3:
            return None
        vals = dict(zip(fields, pr_[1]))
        for kw_ in pr_[2]:
            if kw_.arg not in fields or kw_.arg in vals:
                return None
            vals[kw_.arg] = kw_.value
        return [vals[f] for f in fields] if len(vals) == 3 and len(pr_[1]) <= 3 else None

    def descriptor_of(off):
        """the descriptor B with off == B.start (spelled as the property or as B.block_number * B.size)"""
        if off is None:
            return None
        if isinstance(off, ast.Attribute) and off.attr == "start":
            return off.value
        po = poly(off)
        for n_ in ast.walk(off):
            if isinstance(n_, ast.Attribute) and n_.attr in ("block_number", "size") and po is not None:
                X = n_.value
                want_ = poly(ast.BinOp(left=attr(X, "block_number"), op=ast.Mult(), right=attr(X, "size")))
                if want_ is not None and want_ == po:
                    return X
        return None

    def kwargs_of(pr_):
        """keywords of a constructed message; `m.opt.x = v` / `m.x = v` after construction count like `x=v`"""
        out_ = {}
        for kw_ in pr_[2]:
            if kw_.arg is not None:
                out_[kw_.arg[4:] if kw_.arg.startswith("opt.") else kw_.arg] = kw_.value
        return out_

    # --- the read: position and length, per state --------------------------------------------------
    # the offset counts from the start of the file: no `whence`, or 0 / os.SEEK_SET / io.SEEK_SET (positional or keyword)
    whence = seek.args[1] if len(seek.args) == 2 else next((k.value for k in seek.keywords if k.arg == "whence"), None)
    whence = resolve_local(fn, whence) if whence is not None else None
    from_start = len(seek.args) <= 2 and all(k.arg == "whence" for k in seek.keywords) and not (len(seek.args) == 2 and seek.keywords) \
        and (whence is None or _int_const(whence) == 0 or fl.ext_name(fi, ast.Call(func=whence, args=[], keywords=[])) in ("os.SEEK_SET", "io.SEEK_SET"))
    rstates = [st for st, depth, stack in sx.visits.get((fi.qn, rn), []) if depth == 0]
    ctx.need(rstates, "the read is not reachable in render_get_file")
    descriptors = {}
    bad_seek = bad_len = None
    for st in rstates:
        off = sx.peek(fi, sn, seek.args[0], st)
        ln = sx.peek(fi, rn, read.args[0], st) if len(read.args) == 1 else None
        B = descriptor_of(off)
        if B is None or not from_start:
            bad_seek = bad_seek or "offset = %s" % (stmt_text(off, 80) if off is not None else "?")
            continue
        descriptors.setdefault(kit.T(B), B)
        want = poly(attr(B, "size"))
        if ln is None or want is None or poly(ln) != want + Poly.const(1):
            bad_len = bad_len or "length = %s for the descriptor %s" % (stmt_text(ln, 60) if ln is not None else "?", _short_val(B))
    ctx.ob("the read position is block.start", bad_seek is None, fi, seek, detail=bad_seek)
    ctx.ob("one byte more than the block size is read", bad_len is None, fi, read, detail=bad_len)

    # --- the descriptor: the request's Block2 option, or a constant default starting at block 0 ------
    for txt, B in sorted(descriptors.items()):
        if chain(B) == "%s.opt.block2" % req:
            ctx.ob("the block descriptor is the request's Block2 option (or a default)", True, fi, seek, construct="descriptor %s" % txt)
            continue
        ba = bt_args(B)
        isdef = ba is not None and all(_num_const(a) is not None for a in ba)
        ctx.ob("the block descriptor is the request's Block2 option (or a default)", isdef, fi, seek,
               construct="descriptor %s" % _plain(B), detail=None if isdef else "descriptor value: %s" % _plain(B))
        if isdef:
            a0, a1, a2 = [_num_const(a) for a in ba]
            ctx.ob("the default descriptor starts at block 0", a0 == 0 and a1 == 0 and 0 <= a2 <= 6, fi, seek, construct="default %s" % _plain(B))

    # --- the response ----------------------------------------------------------------------------------
    msgs = []
    for kind, val, st in outcomes:
        if kind != "return" or "via_exc" in st.flags:
            continue
        pr = kit.opaque_parts(val)
        if pr is not None and "payload" in kwargs_of(pr):
            msgs.append((val, pr, st))
    ctx.floor("response messages built in render_get_file", len(msgs), 1)
    rets = [n for n in walk_no_nested(fn) if isinstance(n, ast.Return) and n.value is not None]
    anchor = rets[-1] if rets else fn
    bad = {"payload": None, "b2": None, "num": None, "more": None, "szx": None, "omit": None}
    ntuples = 0
    for val, pr, st in msgs:
        kw = kwargs_of(pr)
        off = sx.peek(fi, sn, seek.args[0], st)
        B = descriptor_of(off)
        if B is None:
            # reported above; still count the descriptor so that the floor below is about the code, not the verdict
            b2_ = kw.get("block2")
            ntuples += 1 if (b2_ is not None and bt_args(b2_) is not None) else 0
            continue
        size = attr(B, "size")
        pl = kw["payload"]
        X = pl.value if isinstance(pl, ast.Subscript) else None
        okp = (X is not None and isinstance(pl.slice, ast.Slice) and kit.marker_node(X) == rn and (pl.slice.lower is None or _int_const(pl.slice.lower) == 0)
               and pl.slice.step is None and pl.slice.upper is not None and poly(pl.slice.upper) is not None and poly(pl.slice.upper) == poly(size))
        if not okp:
            bad["payload"] = bad["payload"] or "payload = %s" % stmt_text(pl, 100)
        # the data read, as a value
        data = X if (X is not None and kit.marker_node(X) == rn) else None
        more_ref = None
        if data is not None:
            more_ref = ast.Compare(left=ast.Call(func=ast.Name(id="len", ctx=ast.Load()), args=[data], keywords=[]), ops=[ast.Gt()], comparators=[size])
        b2 = kw.get("block2")
        if b2 is None:
            bad["b2"] = bad["b2"] or "<absent>"
            continue
        if isinstance(b2, ast.Constant) and b2.value is None:
            zero = sx.tv(ast.Compare(left=attr(B, "block_number"), ops=[ast.Eq()], comparators=[ast.Constant(value=0)]), st)
            more = sx.tv(more_ref, st) if more_ref is not None else None
            if more is None and more_ref is not None:
                # the same condition spelled `len(data) == n + 1` (at most n + 1 bytes are read)
                more = sx.tv(ast.Compare(left=more_ref.left, ops=[ast.Eq()], comparators=[ast.BinOp(left=size, op=ast.Add(), right=ast.Constant(value=1))]), st)
            if not (zero is True and more is False):
                bad["omit"] = bad["omit"] or "omitted on the path [%s] (block number is 0: %s, more data: %s)" % (st.describe(), zero, more)
            continue
        ba = bt_args(b2)
        if ba is None:
            bad["b2"] = bad["b2"] or stmt_text(b2, 100)
            continue
        ntuples += 1
        if kit.T(ba[0]) != kit.T(attr(B, "block_number")):
            bad["num"] = bad["num"] or "number = %s" % stmt_text(ba[0], 60)
        if kit.T(ba[2]) != kit.T(attr(B, "size_exponent")):
            bad["szx"] = bad["szx"] or "size exponent = %s" % stmt_text(ba[2], 60)
        # read(n + 1) returns at most n + 1 bytes, so `len(data) > n` and `len(data) == n + 1` are the same condition
        more_eq = None
        if more_ref is not None:
            more_eq = ast.Compare(left=more_ref.left, ops=[ast.Eq()], comparators=[ast.BinOp(left=size, op=ast.Add(), right=ast.Constant(value=1))])
        got_more = ba[1].args[0] if isinstance(ba[1], ast.Call) and chain(ba[1].func) == "bool" and len(ba[1].args) == 1 else ba[1]
        if more_ref is None or kit.akey(got_more) not in (kit.akey(more_ref), kit.akey(more_eq)):
            bad["more"] = bad["more"] or "more = %s" % stmt_text(ba[1], 80)
    ctx.floor("answer Block2 descriptors", ntuples, 1)
    ctx.ob("the payload is data[:block.size]", bad["payload"] is None, fi, anchor, detail=bad["payload"], construct="payload of the response")
    ctx.ob("the Block2 option of the answer is the descriptor computed from the read", bad["b2"] is None, fi, anchor, detail=bad["b2"], construct="block2 of the response")
    ctx.ob("the answer carries the requested block number", bad["num"] is None, fi, anchor, detail=bad["num"], construct="block2.block_number of the response")
    ctx.ob("more is set exactly when more than block.size bytes could be read", bad["more"] is None, fi, anchor, detail=bad["more"], construct="block2.more of the response")
    ctx.ob("the answer carries the requested size exponent", bad["szx"] is None, fi, anchor, detail=bad["szx"], construct="block2.size_exponent of the response")
    ctx.ob("the Block2 option is only omitted for a complete body in block 0", bad["omit"] is None, fi, anchor, detail=bad["omit"], construct="block2=None")

    # BlockwiseTuple.start == block_number * size
    bt = prog.cls("optiontypes.BlockOption.BlockwiseTuple")
    sfi = bt.methods.get("start")
    ctx.need(sfi is not None, "BlockwiseTuple.start missing")
    rets = [n for n in walk_no_nested(sfi.node) if isinstance(n, ast.Return) and n.value is not None]
    ctx.need(len(rets) == 1, "BlockwiseTuple.start is not a single-return property")
    got = Normalizer(env=norm.local_env(sfi.node)).poly(rets[0].value)
    ctx.ob("BlockwiseTuple.start == block_number * size", got == Poly.atom("self.block_number") * Poly.atom("self.size"), sfi, rets[0], detail="start = %r" % got)


# ---------------------------------------------------------------------------
# C19.e


@R.clause("C19.e", "InvalidPathError and the trailing-slash errors are 4.00; FileNotFoundError of the first stat/unlink is mapped to 4.04/4.12")
def e(ctx):
    prog = ctx.prog
    # (1) the sanitiser only ever fails with a 4.00 renderable error
    sfi = prog.func(FS + "." + SANITISER)
    EA = EscapeAnalysis(prog)
    esc = EA.escapes(sfi)
    explicit = [n for n in walk_no_nested(sfi.node) if isinstance(n, ast.Raise)]
    ctx.floor("raise statements in request_to_localpath", len(explicit), 1)
    ctx.floor("escapes of request_to_localpath", len(esc), 1)
    for x in sorted(esc, key=repr):
        ok = x.cls in prog.classes and _is_renderable(prog, x.cls) and _class_code(prog, x.cls) == "BAD_REQUEST"
        ctx.ob("a rejected path is answered with 4.00 Bad Request", ok, sfi, None, detail="escape %r" % (x,), construct="raise %s" % x.cls.split(".")[-1])
    ctx.extra["c19_sanitiser_escapes"] = [repr(x) for x in sorted(esc, key=repr)]
    for name in ("InvalidPathError", "TrailingSlashMissingError", "AbundantTrailingSlashError"):
        ci = prog.cls("cli.fileserver." + name)
        ok = _is_renderable(prog, ci.qn) and _class_code(prog, ci.qn) == "BAD_REQUEST"
        ctx.ob("%s is a renderable 4.00 error" % name, ok, None, None, construct="class %s" % name,
               detail="mro %s, code %s" % ([q.split(".")[-1] for q in prog.mro(ci.qn)], _class_code(prog, ci.qn)))
    # the trailing-slash errors are what the directory/file mismatch raises
    for meth in ("render_get_dir", "render_get_file"):
        fi = prog.func(FS + "." + meth)
        raises = [n for n in walk_no_nested(fi.node) if isinstance(n, ast.Raise) and n.exc is not None]
        for rz in raises:
            q = _exc_class_qn(prog, fi, rz.exc)
            ctx.ob("%s rejects a mismatching trailing slash with a 4.xx renderable error" % meth,
                   q is not None and _is_renderable(prog, q) and (_class_code(prog, q) or "") in FOUR_XX, fi, rz)

    # (2) first stat/unlink of a request maps FileNotFoundError to 4.04 (4.12 for a failed precondition)
    #
    # Decided by executing the request handlers under the scenario "the first file-system operation of the request is
    # a stat/unlink and fails with FileNotFoundError" (a later one is preceded by an operation that succeeded on the
    # same path, so the file exists -- races aside) and looking at how the request then ends.  Where the handler
    # sits (in the method, in a helper that returns the stat result or raises an error class handed in as an
    # argument), whether it catches FileNotFoundError or a base class and tests isinstance, whether it raises at
    # once or records the absence in a local that a later test turns into the error, is immaterial.
    fl = Flow(prog)
    effects, fail, probes = set(), {}, {}
    total = 0
    for fi in fl.funcs:
        if _is_sanitiser(fi):
            continue
        cfg = cfg_of(fi)
        for call, paths, mut, label in fl.sinks(_scopes(fi)[0]):
            nids = cfg.locate(call)
            effects.update((fi.qn, nid) for nid in nids)
            if label.split(" ")[0] in _PROBES:
                total += len(nids)
                for nid in nids:
                    fail[(fi.qn, nid)] = "FileNotFoundError"
                    probes[(fi.qn, nid)] = (fi, call, label)
    ctx.floor("stat/unlink operations in FileServer", total, 5)
    # a statement that calls -- or hands over as a callable -- a function of the file server that performs file-system
    # operations has touched the file system once it has completed (where the executor steps into the callee, the
    # operations inside are effects / probes in their own right)
    has = {fi.qn for fi in fl.funcs if not _is_sanitiser(fi) and any(fl.sinks(sc_) for sc_ in _scopes(fi))}
    by_node = {id(fi.node): fi for fi in fl.funcs}
    modfuncs = {fi.name: fi for fi in fl.funcs if fi.cls is None and fi.parent is None}

    def callees(fi, nodes):
        for n in nodes:
            if isinstance(n, ast.Attribute) and isinstance(n.value, ast.Name) and n.value.id == _self_name(fi) and n.attr in fl.ci.methods:
                yield n, fl.ci.methods[n.attr]
            elif isinstance(n, ast.Name) and isinstance(n.ctx, ast.Load):
                f = fi
                while f is not None:
                    g = next((x for x in fl.funcs if x.parent is f and x.name == n.id), None)
                    if g is not None:
                        yield n, g
                        break
                    f = f.parent
                else:
                    if n.id in modfuncs and n.id not in kit._local_names(fi.node):
                        yield n, modfuncs[n.id]

    changed = True
    while changed:
        changed = False
        for fi in fl.funcs:
            if fi.qn not in has and not _is_sanitiser(fi) and any(g.qn in has for _, g in callees(fi, list(ast.walk(fi.node)))):
                has.add(fi.qn)
                changed = True
    for fi in fl.funcs:
        if _is_sanitiser(fi):
            continue
        cfg = cfg_of(fi)
        for n, g in callees(fi, _scope_nodes(_scopes(fi)[0])):
            if g.qn in has and not _is_sanitiser(g):
                effects.update((fi.qn, nid) for nid in cfg.locate(n))
    handlers = [fi for fi in fl.funcs if fi.cls is not None and fi.parent is None and fi.name.startswith("render_")]
    sx = kit.SX(prog, fl.ci, kit.Scenario("missing", effects=effects, fail=fail))
    outcomes = {fi.qn: sx.run(fi) for fi in handlers}
    results = {}
    for fi in handlers:
        sites = fl.call_sites_of(fi)
        if sites and all(id(getattr(cs, "_site", cs)) in sx.inlined_sites and id(getattr(cs, "_site", cs)) not in sx.refused_sites for _, cs in sites):
            continue  # only runs on behalf of its callers, which were executed through it
        for kind, val, st in outcomes[fi.qn]:
            if "via_exc" in st.flags:
                continue  # some later statement failed on its own
            for flg in st.flags:
                if flg.startswith("failed:"):
                    qn_, nid_ = flg[7:].rsplit(":", 1)
                    results.setdefault((qn_, int(nid_)), []).append((fi, kind, val))
    n = 0
    for key in sorted(probes):
        if key not in results:
            continue
        n += 1
        pfi, call, label = probes[key]
        outs = results[key]
        ok = all(_outcome_responds_with(prog, efi, kind, val, {"NOT_FOUND", "PRECONDITION_FAILED"}) for efi, kind, val in outs)
        ctx.ob("a missing file at the first %s of the request is answered with 4.04 (4.12 under If-Match)" % label.split(" ")[0], ok, pfi, call,
               detail="the request then ends with: %s" % "; ".join(sorted({"%s %s" % (kind, _short_val(val)) for _, kind, val in outs})))
    ctx.floor("stat/unlink probes not preceded by another file-system operation", n, 1)


_PROBES = {".stat()", ".stat", ".lstat()", ".lstat", ".unlink()", ".unlink", "os.stat()", "os.lstat()", "os.unlink()", "os.remove()"}


FOUR_XX = {"BAD_REQUEST", "UNAUTHORIZED", "BAD_OPTION", "FORBIDDEN", "NOT_FOUND", "METHOD_NOT_ALLOWED", "NOT_ACCEPTABLE",
           "REQUEST_ENTITY_INCOMPLETE", "CONFLICT", "PRECONDITION_FAILED", "REQUEST_ENTITY_TOO_LARGE",
           "UNSUPPORTED_CONTENT_FORMAT", "UNPROCESSABLE_ENTITY", "TOO_MANY_REQUESTS"}


# ---------------------------------------------------------------------------
@R.clause("C19.f", "the root directory itself is never a target of PUT or DELETE: every mutating sink is dominated by a test that the Uri-Path is not empty")
def f_not_root(ctx):
    """Added after an independently written breaking change folded the trailing-slash tests into a helper
    `uri_path[-1:] == ("",)`, which is False for the *empty* Uri-Path: PUT then spooled its temporary file into the
    parent of the served directory (outside the root) and, with the root given through a symlink, replaced or
    deleted that directory entry.  With an empty path request_to_localpath returns self.root itself, whose parent
    and whose own directory entry lie outside the root.

    Decided by executing the class under the scenario "the request's Uri-Path is ()" (every expression over the
    path is then a constant the checker's own evaluator folds: truthiness, len(), ==, [-1:], any()/all(), loops
    over it run zero times, [-1] raises IndexError) and requiring that no mutating sink is reachable."""
    prog = ctx.prog
    fl = Flow(prog)
    R_ = Reach(prog, fl)
    sc = kit.Scenario("emptypath", bind=lambda c_: kit.K((), taint=True) if c_.endswith(".opt.uri_path") and c_.count(".") == 2 else None)
    sx = R_.run(sc)
    n = _check_unreachable(ctx, R_, [(sx, "with an empty Uri-Path")],
                           "mutating operation %s is reached only for a non-empty Uri-Path (never for the root directory itself)", kinds=("sink",))
    ctx.floor("mutating sinks in FileServer", n, 4)


# ---------------------------------------------------------------------------
# C19.h  where the permission comes from


class _Refuse(Exception):
    pass


_NOTPASSED = object()
_ARGPARSE_BUILTIN_ABSENT = {"store": None, "store_const": None, "append": None, "append_const": None, "count": None,
                            "extend": None, "store_true": False, "store_false": True}


class Permission:
    """Backward evaluation of "which value does the write-permission argument of a FileServer construction hold when
    the operator did not ask for write permission".  Sources are followed through parameters (their defaults and
    every in-package call site), keyword splats of an argparse namespace (`**vars(opts)`, `**opts.__dict__`),
    attributes of such a namespace, and from there into the declaration of the option with that `dest`: the value
    argparse stores when the option is absent is computed from `default=`, the built-in action's documented default,
    `set_defaults`, or -- for an Action subclass of the package -- from the default of its constructor's `default`
    parameter as handed to `super().__init__`.  Everything the evaluation cannot interpret is a refusal."""

    def __init__(self, prog):
        self.prog = prog
        self.sources = []  # (value, fi, node, how)
        self.decls = 0
        self.assumed = []
        self._callers = {}

    # -- generic -----------------------------------------------------------------------------------------------
    def _qual(self, fi, e):
        c = chain(e)
        return self.prog.resolve_in_module(fi.module, c) if c else None

    def _const(self, fi, e, env=None):
        e = resolve_local(fi.node, e) if isinstance(e, ast.Name) and not (env and e.id in env) else e
        try:
            return kit.ceval(e, env or {})
        except (kit.Unk, kit.CRaise):
            raise _Refuse("%s: cannot evaluate %s" % (fi.short, stmt_text(e, 60)))

    def _funcs_with_calls(self):
        if "all" not in self._callers:
            out = []
            for g in self.prog.funcs.values():
                if isinstance(g.node, ast.Lambda):
                    continue
                for n in walk_with_lambdas(g.node):
                    if isinstance(n, (ast.Call, ast.Attribute)):
                        out.append((g, n))
            self._callers["all"] = out
        return self._callers["all"]

    def _callee(self, g, call):
        """FuncInfo of an in-package function/method a call resolves to (self./cls./type(self)./Class. receivers and
        plain names), else None"""
        f = call.func
        if isinstance(f, ast.Name):
            q = self.prog.resolve_in_module(g.module, f.id)
            return self.prog.funcs.get(q)
        if isinstance(f, ast.Attribute):
            m = g
            while m.parent is not None:
                m = m.parent
            rcv = f.value
            sn = _self_name(g)
            if m.cls is not None and ((isinstance(rcv, ast.Name) and rcv.id in (sn, "cls", "self"))
                                      or (isinstance(rcv, ast.Call) and (chain(rcv.func) or "") == "type")
                                      or (isinstance(rcv, ast.Attribute) and rcv.attr == "__class__")):
                return self.prog.lookup_method(m.cls.qn, f.attr)
            q = self._qual(g, f)
            if q in self.prog.funcs:
                return self.prog.funcs[q]
            if q and q.rsplit(".", 1)[0] in self.prog.classes:
                return self.prog.lookup_method(q.rsplit(".", 1)[0], f.attr)
        return None

    # -- values ------------------------------------------------------------------------------------------------
    def values(self, fi, e, depth=0):
        """[(value, fi, node, how)] of expression e evaluated in fi"""
        if depth > 8:
            raise _Refuse("the permission is passed through more than 8 levels")
        try:
            return [(kit.ceval(e), fi, e, "the constant %s" % stmt_text(e, 30))]
        except (kit.Unk, kit.CRaise):
            pass
        if isinstance(e, ast.Name):
            if Scope(fi).param_default(e.id)[0] or any(p is not None and p.arg == e.id for p in (fi.node.args.vararg, fi.node.args.kwarg)):
                if writes_to_name(fi.node, e.id):
                    raise _Refuse("%s: the parameter %s is reassigned" % (fi.short, e.id))
                return self.param_values(fi, e.id, depth)
            ws = writes_to_name(fi.node, e.id)
            if len(ws) == 1 and isinstance(ws[0], (ast.Assign, ast.AnnAssign)) and ws[0].value is not None \
                    and (isinstance(ws[0], ast.AnnAssign) or (len(ws[0].targets) == 1 and isinstance(ws[0].targets[0], ast.Name))):
                return self.values(fi, ws[0].value, depth + 1)
            raise _Refuse("%s: cannot attribute the value of %s to one assignment" % (fi.short, e.id))
        if isinstance(e, ast.UnaryOp) and isinstance(e.op, ast.Not):
            return [(not v, f, n, "not (%s)" % how) for v, f, n, how in self.values(fi, e.operand, depth + 1)]
        if isinstance(e, ast.Call) and isinstance(e.func, ast.Name) and e.func.id == "bool" and len(e.args) == 1 and not e.keywords:
            return [(bool(v), f, n, how) for v, f, n, how in self.values(fi, e.args[0], depth + 1)]
        if isinstance(e, ast.IfExp):
            out = []
            for t in self.values(fi, e.test, depth + 1):
                out += self.values(fi, e.body if t[0] else e.orelse, depth + 1)
            return out
        if isinstance(e, ast.BoolOp):
            # a or b / a and b over finitely many values of each operand
            vals = [self.values(fi, x, depth + 1) for x in e.values]
            res = []

            def rec(i):
                for t in vals[i]:
                    decided = bool(t[0]) if isinstance(e.op, ast.Or) else not bool(t[0])
                    if decided or i == len(vals) - 1:
                        res.append(t)
                    else:
                        rec(i + 1)
            rec(0)
            return res
        if isinstance(e, ast.Attribute):
            ns = self.namespace_parser(fi, e.value)
            if ns is not None:
                got = self.namespace_values(fi, e.value, ns, e.attr, depth)
                if not got:
                    raise _Refuse("%s: no command-line option declares the attribute %s" % (fi.short, stmt_text(e, 40)))
                return got
        raise _Refuse("%s: cannot determine the value of %s" % (fi.short, stmt_text(e, 60)))

    def call_sites(self, h):
        """(g, call) for every in-package call that resolves to h; a reference that is not a call is refused"""
        out = []
        for g, n in self._funcs_with_calls():
            if isinstance(n, ast.Call):
                f = n.func
                if (isinstance(f, ast.Attribute) and f.attr == h.name) or (isinstance(f, ast.Name) and f.id == h.name):
                    c = self._callee(g, n)
                    if c is h:
                        out.append((g, n))
                    elif c is None and isinstance(f, ast.Attribute) and sum(1 for x in self.prog.funcs.values() if x.name == h.name) == 1:
                        out.append((g, n))  # unknown receiver, only one function of that name in the package
        called = {id(c.func) for _, c in out}
        for g, n in self._funcs_with_calls():
            if isinstance(n, ast.Attribute) and n.attr == h.name and id(n) not in called and isinstance(n.ctx, ast.Load):
                par = self.prog.parent_map(g.module).get(id(n))
                if isinstance(par, ast.Call) and par.func is n:
                    continue
                if self._callee(g, ast.Call(func=n, args=[], keywords=[])) is h:
                    raise _Refuse("%s is handed over as a callable in %s" % (h.short, g.short))
        return out

    def param_values(self, h, name, depth):
        out = []
        has, d = Scope(h).param_default(name)
        if d is not None:
            out.append((self._const(h, d), h, d, "the default of the parameter %s of %s" % (name, h.name)))
        for g, call in self.call_sites(h):
            out += self.bound_values(g, call, h, name, depth)
        if not out:
            raise _Refuse("%s: the parameter %s has neither a default nor a call site in the package" % (h.short, name))
        return out

    def bound_values(self, g, call, h, name, depth):
        """values the parameter `name` of h receives at `call` in g ([] when the call leaves it to its default)"""
        a = h.node.args
        ps = [p.arg for p in a.posonlyargs + a.args]
        if h.cls is not None and not any((chain(d) or "") == "staticmethod" for d in h.node.decorator_list) \
                and (isinstance(call.func, ast.Attribute) or h.name == "__init__"):
            ps = ps[1:]
        for i, x in enumerate(call.args):
            if isinstance(x, ast.Starred):
                raise _Refuse("%s: %s passes *arguments" % (g.short, stmt_text(call, 50)))
            if i < len(ps) and ps[i] == name:
                return self.values(g, x, depth + 1)
        for kw in call.keywords:
            if kw.arg == name:
                return self.values(g, kw.value, depth + 1)
        out = []
        for kw in call.keywords:
            if kw.arg is None:
                v = resolve_local(g.node, kw.value)
                if isinstance(v, ast.Call) and isinstance(v.func, ast.Name) and v.func.id == "dict" and len(v.args) == 1 and not v.keywords:
                    v = resolve_local(g.node, v.args[0])  # dict(m): a copy of the mapping
                if isinstance(v, ast.Dict) and len(v.keys) == 1 and v.keys[0] is None:
                    v = resolve_local(g.node, v.values[0])  # {**m}
                if isinstance(kw.value, ast.Name):
                    out += self._mapping_updates(g, kw.value.id, name, call, depth)
                lit = self._literal_mapping(g, v)
                if lit is not None:
                    if name in lit:
                        out += self.values(g, lit[name], depth + 1)
                    continue
                nsx = None
                if isinstance(v, ast.Call) and isinstance(v.func, ast.Name) and v.func.id == "vars" and len(v.args) == 1:
                    nsx = v.args[0]
                elif isinstance(v, ast.Attribute) and v.attr == "__dict__":
                    nsx = v.value
                ns = self.namespace_parser(g, nsx) if nsx is not None else None
                if ns is None:
                    raise _Refuse("%s: %s passes **keywords the rule cannot attribute to an argparse namespace" % (g.short, stmt_text(call, 50)))
                out += self.namespace_values(g, nsx, ns, name, depth)
        return out

    def _mapping_updates(self, g, m, name, call, depth):
        """values stored under the key `name` into the local mapping m of g (m[name] = v); removing keys only lets
        defaults apply, which are among the sources anyway; any other modification is refused"""
        if len(writes_to_name(g.node, m)) != 1:
            raise _Refuse("%s: the mapping %s splatted into %s is bound more than once" % (g.short, m, stmt_text(call, 50)))
        out = []
        for n in walk_with_lambdas(g.node):
            if isinstance(n, ast.Subscript) and isinstance(n.value, ast.Name) and n.value.id == m and isinstance(n.ctx, ast.Store):
                par = self.prog.parent_map(g.module).get(id(n))
                try:
                    k = kit.ceval(n.slice)
                except (kit.Unk, kit.CRaise):
                    k = None
                if not isinstance(k, str) or not (isinstance(par, ast.Assign) and len(par.targets) == 1):
                    raise _Refuse("%s: the mapping %s splatted into %s is filled under a computed key" % (g.short, m, stmt_text(call, 50)))
                if k == name:
                    out += self.values(g, par.value, depth + 1)
            elif isinstance(n, ast.Call) and isinstance(n.func, ast.Attribute) and isinstance(n.func.value, ast.Name) and n.func.value.id == m \
                    and n.func.attr in ("update", "setdefault", "__setitem__", "__ior__"):
                raise _Refuse("%s: the mapping %s splatted into %s is modified by %s" % (g.short, m, stmt_text(call, 50), stmt_text(n, 40)))
            elif isinstance(n, ast.AugAssign) and isinstance(n.target, ast.Name) and n.target.id == m:
                raise _Refuse("%s: the mapping %s splatted into %s is modified by %s" % (g.short, m, stmt_text(call, 50), stmt_text(n, 40)))
        return out

    def _literal_mapping(self, g, v):
        """{key: value expression} of a dict display with constant string keys / a dict(k=v, ...) call, else None"""
        if isinstance(v, ast.Dict) and all(k is not None for k in v.keys):
            try:
                return {kit.ceval(k): x for k, x in zip(v.keys, v.values)}
            except (kit.Unk, kit.CRaise):
                raise _Refuse("%s: mapping with computed keys %s" % (g.short, stmt_text(v, 50)))
        if isinstance(v, ast.Call) and isinstance(v.func, ast.Name) and v.func.id == "dict" and not v.args and all(k.arg is not None for k in v.keywords):
            return {k.arg: k.value for k in v.keywords}
        return None

    # -- argparse ----------------------------------------------------------------------------------------------
    def namespace_parser(self, g, x):
        """(function, parser expression) when x is the result of <parser>.parse_args() in g, else None"""
        if isinstance(x, ast.Name) and assigned_value(g.node, x.id) is None:
            # opts, rest = parser.parse_known_args()
            ws = writes_to_name(g.node, x.id)
            if len(ws) == 1 and isinstance(ws[0], ast.Assign) and len(ws[0].targets) == 1 and isinstance(ws[0].targets[0], (ast.Tuple, ast.List)):
                t = ws[0].targets[0]
                if t.elts and isinstance(t.elts[0], ast.Name) and t.elts[0].id == x.id and not any(isinstance(e_, ast.Starred) for e_ in t.elts):
                    x = ast.Subscript(value=ws[0].value, slice=ast.Constant(value=0), ctx=ast.Load())
        x = resolve_local(g.node, x)
        if isinstance(x, ast.Subscript):
            try:
                idx = kit.ceval(x.slice)
            except (kit.Unk, kit.CRaise):
                return None
            inner = resolve_local(g.node, x.value)
            if idx == 0 and isinstance(inner, ast.Call) and isinstance(inner.func, ast.Attribute) and inner.func.attr in ("parse_known_args", "parse_known_intermixed_args"):
                x = inner
            else:
                return None
        if isinstance(x, ast.Call) and isinstance(x.func, ast.Attribute) and x.func.attr in ("parse_args", "parse_intermixed_args", "parse_known_args", "parse_known_intermixed_args"):
            if len(x.args) > 1 or any(kw.arg in ("namespace", None) for kw in x.keywords):
                raise _Refuse("%s: %s fills a namespace given by the caller" % (g.short, stmt_text(x, 50)))
            return x.func.value
        return None

    def namespace_values(self, g, nsx, parser, dest, depth):
        """values of namespace attribute `dest` when its option is absent from the command line, plus whatever the
        program itself stores into that attribute"""
        out = []
        decls, defaults = [], []
        self.scan_parser(g, parser, decls, defaults, set())
        mine = []
        for f, call in decls:
            d = self.decl_dest(f, call)
            if d == dest:
                mine.append((f, call))
        self.decls += len(mine)
        # argparse: the first action declared for a dest provides its value when none of its options is given
        if len(mine) > 1:
            same = {id(f) for f, _ in mine}
            stmts = {id(st.value): i for i, st in enumerate(mine[0][0].node.body) if isinstance(st, ast.Expr)}
            if len(same) == 1 and all(id(c) in stmts for _, c in mine):
                mine = [min(mine, key=lambda fc: stmts[id(fc[1])])]
        for f, call in mine:
            r = self.decl_absent(f, call)
            if r is not None:
                out.append((r[0], f, call, "the value argparse stores for %s when the option is not given" % stmt_text(call.args[0] if call.args else call, 30)))
        for f, call in defaults:
            for kw in call.keywords:
                if kw.arg is None:
                    raise _Refuse("%s: %s sets defaults the rule cannot enumerate" % (f.short, stmt_text(call, 50)))
                if kw.arg == dest:
                    out.append((self._const(f, kw.value), f, call, "the parser default set by %s" % stmt_text(call, 40)))
        # stores into the namespace by the program
        if isinstance(nsx, ast.Name):
            out += self.namespace_stores(g, nsx.id, dest, depth, set())
        return out

    def namespace_stores(self, g, name, dest, depth, seen):
        if (g.qn, name) in seen:
            return []
        seen.add((g.qn, name))
        out = []
        for n in walk_with_lambdas(g.node):
            if isinstance(n, ast.Attribute) and isinstance(n.ctx, ast.Store) and n.attr == dest and isinstance(n.value, ast.Name) and n.value.id == name:
                par = self.prog.parent_map(g.module).get(id(n))
                if isinstance(par, ast.Assign) and len(par.targets) == 1:
                    out += self.values(g, par.value, depth + 1)
                elif isinstance(par, ast.AnnAssign) and par.value is not None:
                    out += self.values(g, par.value, depth + 1)
                else:
                    raise _Refuse("%s: %s.%s is stored in a way the rule cannot evaluate" % (g.short, name, dest))
            if not isinstance(n, ast.Call):
                continue
            cn = chain(n.func) or ""
            if cn == "setattr" and n.args and isinstance(n.args[0], ast.Name) and n.args[0].id == name:
                try:
                    k = kit.ceval(resolve_local(g.node, n.args[1]))
                except (kit.Unk, kit.CRaise, IndexError):
                    raise _Refuse("%s: %s stores an attribute whose name is not constant" % (g.short, stmt_text(n, 50)))
                if k == dest:
                    out += self.values(g, n.args[2], depth + 1)
                continue
            h = None
            for i, x in enumerate(n.args):
                if isinstance(x, ast.Name) and x.id == name:
                    h = h or self._callee(g, n)
                    if h is not None:
                        ps = self._pos_params(h, n)
                        if i < len(ps):
                            out += self.namespace_stores(h, ps[i], dest, depth + 1, seen)
            for kw in n.keywords:
                if isinstance(kw.value, ast.Name) and kw.value.id == name and kw.arg is not None:
                    h = h or self._callee(g, n)
                    if h is not None:
                        out += self.namespace_stores(h, kw.arg, dest, depth + 1, seen)
        return out

    def _pos_params(self, h, call):
        a = h.node.args
        ps = [p.arg for p in a.posonlyargs + a.args]
        if h.cls is not None and not any((chain(d) or "") == "staticmethod" for d in h.node.decorator_list) \
                and (isinstance(call.func, ast.Attribute) or h.name == "__init__"):
            ps = ps[1:]
        return ps

    def scan_parser(self, g, parser, decls, defaults, seen):
        """collect the add_argument / set_defaults calls made on the parser `parser` (an expression in g)"""
        p = resolve_local(g.node, parser)
        names = set()
        if isinstance(parser, ast.Name):
            names.add(parser.id)
        if isinstance(p, ast.Call):
            q = self._qual(g, p.func)
            if q == "argparse.ArgumentParser":
                self.check_ctor(g, p)
            else:
                h = self._callee(g, p)
                if h is None:
                    raise _Refuse("%s: cannot find where the parser %s is built" % (g.short, stmt_text(p, 50)))
                rets = [n for n in walk_no_nested(h.node) if isinstance(n, ast.Return)]
                if not rets or any(r.value is None for r in rets):
                    raise _Refuse("%s does not return a parser on every path" % h.short)
                for r in rets:
                    self.scan_parser(h, r.value, decls, defaults, seen)
        elif isinstance(p, ast.Name) and Scope(g).param_default(p.id)[0]:
            pass  # a parameter: the caller's side has been scanned by whoever stepped into g
        else:
            raise _Refuse("%s: cannot find where the parser %s is built" % (g.short, stmt_text(parser, 50)))
        if names:
            self.scan_uses(g, names, decls, defaults, seen)

    def check_ctor(self, g, call):
        for kw in call.keywords:
            if kw.arg is None or kw.arg == "parents":
                raise _Refuse("%s: %s inherits options the rule does not enumerate" % (g.short, stmt_text(call, 50)))
            if kw.arg == "argument_default" and self._const(g, kw.value) is not None:
                raise _Refuse("%s: parser-wide argument_default" % g.short)

    def scan_uses(self, g, names, decls, defaults, seen):
        key = (g.qn, tuple(sorted(names)))
        if key in seen:
            return
        seen.add(key)
        names = set(names)
        grew = True
        while grew:
            grew = False
            for n in walk_with_lambdas(g.node):
                if isinstance(n, ast.Assign) and len(n.targets) == 1 and isinstance(n.targets[0], ast.Name) and n.targets[0].id not in names:
                    v = n.value
                    if isinstance(v, ast.Call) and isinstance(v.func, ast.Attribute) and isinstance(v.func.value, ast.Name) and v.func.value.id in names \
                            and v.func.attr in ("add_argument_group", "add_mutually_exclusive_group"):
                        names.add(n.targets[0].id)
                        grew = True
                    elif isinstance(v, ast.Name) and v.id in names:
                        names.add(n.targets[0].id)
                        grew = True
        for n in walk_with_lambdas(g.node):
            if not isinstance(n, ast.Call):
                continue
            f = n.func
            if isinstance(f, ast.Attribute) and isinstance(f.value, ast.Name) and f.value.id in names:
                if f.attr == "add_argument":
                    decls.append((g, n))
                elif f.attr == "set_defaults":
                    defaults.append((g, n))
                elif f.attr in ("add_subparsers", "register"):
                    raise _Refuse("%s: %s changes how options are declared" % (g.short, stmt_text(n, 50)))
                continue
            passed = [(i, None) for i, x in enumerate(n.args) if isinstance(x, ast.Name) and x.id in names] + \
                     [(None, kw.arg) for kw in n.keywords if isinstance(kw.value, ast.Name) and kw.value.id in names]
            if not passed:
                continue
            h = self._callee(g, n)
            if h is None:
                q = self._qual(g, f) or stmt_text(f, 40)
                if q.split(".")[0] == "aiocoap":
                    raise _Refuse("%s: the parser is handed to %s, which the rule cannot resolve" % (g.short, q))
                self.assumed.append("%s (called in %s) does not declare options" % (q, g.short))
                continue
            ps = self._pos_params(h, n)
            sub = set()
            for i, k in passed:
                if k is not None:
                    sub.add(k)
                elif i < len(ps):
                    sub.add(ps[i])
                else:
                    raise _Refuse("%s: cannot bind the parser argument of %s" % (g.short, stmt_text(n, 50)))
            self.scan_uses(h, sub, decls, defaults, seen)

    def decl_action(self, f, call):
        """('builtin', name) | ('class', qualified name)"""
        for kw in call.keywords:
            if kw.arg == "action":
                v = resolve_local(f.node, kw.value)
                if isinstance(v, ast.Constant) and isinstance(v.value, str):
                    return "builtin", v.value
                q = self._qual(f, v)
                if q:
                    return "class", q
                raise _Refuse("%s: cannot interpret the action of %s" % (f.short, stmt_text(call, 50)))
        return "builtin", "store"

    def decl_dest(self, f, call):
        """the namespace attribute an add_argument call declares (None: none, e.g. help/version)"""
        for kw in call.keywords:
            if kw.arg is None:
                raise _Refuse("%s: %s declares an option through **keywords" % (f.short, stmt_text(call, 50)))
        flags = []
        for x in call.args:
            if isinstance(x, ast.Starred):
                raise _Refuse("%s: %s declares an option through *arguments" % (f.short, stmt_text(call, 50)))
            v = self._const(f, x)
            if not isinstance(v, str):
                raise _Refuse("%s: option string of %s is not a string" % (f.short, stmt_text(call, 50)))
            flags.append(v)
        for kw in call.keywords:
            if kw.arg == "dest":
                return self._const(f, kw.value)
        kind, act = self.decl_action(f, call)
        if kind == "builtin" and act in ("help", "version"):
            return None
        if not flags:
            raise _Refuse("%s: %s names no option" % (f.short, stmt_text(call, 50)))
        longs = [s for s in flags if s.startswith("--")]
        if longs:
            return longs[0][2:].replace("-", "_")
        shorts = [s for s in flags if s.startswith("-")]
        if shorts:
            return shorts[0].lstrip("-").replace("-", "_")
        return flags[0]

    def decl_absent(self, f, call):
        """(value,) argparse leaves in the namespace when the declared option does not occur on the command line;
        None when the operator has to state it"""
        kws = {kw.arg: kw.value for kw in call.keywords}
        flags = [self._const(f, x) for x in call.args]
        if not any(s.startswith("-") for s in flags):
            raise _Refuse("%s: the permission is a positional command-line argument (%s)" % (f.short, stmt_text(call, 50)))
        if "required" in kws and self._const(f, kws["required"]):
            return None
        kind, act = self.decl_action(f, call)
        if "default" in kws:
            if (self._qual(f, resolve_local(f.node, kws["default"])) or "") == "argparse.SUPPRESS":
                raise _Refuse("%s: %s suppresses the attribute" % (f.short, stmt_text(call, 50)))
            v = self._const(f, kws["default"])
            if isinstance(v, str) and "type" in kws:
                raise _Refuse("%s: string default of %s is converted by type=" % (f.short, stmt_text(call, 50)))
            if kind == "class" and act != "argparse.BooleanOptionalAction":
                return (self.action_default(act, v, 0),)
            return (v,)
        if kind == "builtin":
            if act not in _ARGPARSE_BUILTIN_ABSENT:
                raise _Refuse("%s: unknown argparse action %r" % (f.short, act))
            return (_ARGPARSE_BUILTIN_ABSENT[act],)
        if act == "argparse.BooleanOptionalAction":
            return (None,)
        return (self.action_default(act, _NOTPASSED, 0),)

    def action_default(self, clsqn, passed, depth):
        """the `default` an Action subclass ends up with when add_argument passes `passed` (or nothing): its
        constructor is followed up to argparse.Action, whose own default for `default` is None"""
        if depth > 6:
            raise _Refuse("action class hierarchy too deep")
        if clsqn == "argparse.Action":
            return None if passed is _NOTPASSED else passed
        ci = self.prog.classes.get(clsqn)
        if ci is None:
            raise _Refuse("cannot interpret the argparse action %s" % clsqn)
        if len(ci.bases) != 1:
            raise _Refuse("argparse action %s has several bases" % clsqn)
        for hook in ("__new__", "__init_subclass__", "__getattribute__", "__setattr__"):
            if hook in ci.methods:
                raise _Refuse("argparse action %s defines %s" % (clsqn, hook))
        for name, m in ci.methods.items():
            sn = _self_name(m)
            if sn and stores_to(m.node, sn + ".default"):
                raise _Refuse("%s.%s assigns self.default" % (clsqn, name))
        init = ci.methods.get("__init__")
        if init is None:
            return self.action_default(ci.bases[0], passed, depth + 1)
        has, d = Scope(init).param_default("default")
        env = {}
        kwname = init.node.args.kwarg.arg if init.node.args.kwarg is not None else None
        if has:
            if passed is _NOTPASSED:
                if d is None:
                    raise _Refuse("%s.__init__ requires a default that the declaration does not pass" % clsqn)
                env["default"] = self._const(init, d)
            else:
                env["default"] = passed
            if writes_to_name(init.node, "default"):
                raise _Refuse("%s.__init__ reassigns its default parameter" % clsqn)
        elif kwname is None and passed is not _NOTPASSED:
            raise _Refuse("%s.__init__ does not accept the default the declaration passes" % clsqn)
        supers = []
        for n in walk_with_lambdas(init.node):
            if isinstance(n, ast.Call) and isinstance(n.func, ast.Attribute) and n.func.attr == "__init__":
                supers.append(n)
        if len(supers) != 1 or not any(isinstance(st, ast.Expr) and st.value is supers[0] for st in init.node.body):
            raise _Refuse("%s.__init__ does not call its base constructor exactly once, unconditionally" % clsqn)
        call = supers[0]
        rcv = call.func.value
        explicit_self = not (isinstance(rcv, ast.Call) and (chain(rcv.func) or "") == "super")
        args = call.args[1:] if explicit_self else call.args
        nxt = _NOTPASSED
        if any(isinstance(x, ast.Starred) for x in args):
            raise _Refuse("%s.__init__ forwards *arguments" % clsqn)
        if len(args) > 4:  # Action(option_strings, dest, nargs, const, default, ...)
            nxt = self._const(init, args[4], env)
        for kw in call.keywords:
            if kw.arg == "default":
                nxt = self._const(init, kw.value, env)
            elif kw.arg is None:
                if isinstance(kw.value, ast.Name) and kw.value.id == kwname and not writes_to_name(init.node, kwname) \
                        and not stores_to(init.node, kwname):
                    if not has and passed is not _NOTPASSED:
                        nxt = passed
                else:
                    raise _Refuse("%s.__init__ forwards **keywords the rule cannot enumerate" % clsqn)
        return self.action_default(ci.bases[0], nxt, depth + 1)


@R.clause("C19.h", "the permission a FileServer is constructed with is read-only unless the operator asked for write access: parameter defaults, call sites and the command-line declaration of the option all yield a false value when the option is absent")
def h_permission_source(ctx):
    """"Without write permission no request modifies the file system" is decided inside the class by C19.c for the
    constructor's permission parameter being false.  This clause closes the chain in front of it: the value that
    parameter *receives* at every construction of the class in the package.  It is evaluated backwards (see
    Permission) to the set of values it can hold when nobody asked for write access -- the defaults of the
    parameters it travels through, and for a command-line namespace the value argparse stores for an absent option,
    which depends on the action (store_true: False, store_false: True, store: None, an Action subclass of the
    package: whatever its constructor hands to argparse.Action as `default`), on `default=` and on `set_defaults`.
    Each such value must be false.  Added after an independently written change switched the option to a yes/no
    action class whose `default` parameter defaults to True: FileServer and its handlers were untouched and every
    server started without --write was writable."""
    prog = ctx.prog
    fl = Flow(prog)
    param, default, derived = _permission_config(prog, fl)
    ctx.need(param is not None, "cannot find the write-permission parameter of FileServer.__init__")
    fsqn = fl.ci.qn
    init = fl.ci.methods.get("__init__")
    P = Permission(prog)
    sites = []
    for g, n in P._funcs_with_calls():
        if isinstance(n, ast.Call):
            c = chain(n.func)
            if c and (c.split(".")[0] in g.module.imports or (g.module.name + "." + c.split(".")[0]) in prog.classes):
                q = prog.resolve_in_module(g.module, c)
                if q in prog.classes and prog.is_subclass(q, fsqn):
                    sites.append((g, n, q))
    ctx.floor("constructions of FileServer in the package", len(sites), 1)
    total = 0
    for g, call, q in sites:
        ctx.need(prog.lookup_method(q, "__init__") is init, "%s is constructed through another constructor than FileServer.__init__" % q)
        try:
            vals = P.bound_values(g, call, init, param, 0)
        except _Refuse as e:
            raise AnalysisError("C19.h: the source of the write permission of %s cannot be followed: %s" % (stmt_text(call, 60), e))
        if not vals:
            ctx.ob("the construction leaves the permission to the constructor's read-only default", True, g, call)
        seen = set()
        for v, f, node, how in vals:
            key = (id(node), repr(v))
            if key in seen:
                continue
            seen.add(key)
            total += 1
            ctx.ob("when the operator has not asked for write access, %s reaching %s is false" % (how, stmt_text(call, 50)),
                   not v, f, node, detail="evaluates to %r%s" % (v, ": every server started this way is writable" if v else ""))
    ctx.floor("command-line declarations of the permission option", P.decls, 1)
    for a_ in sorted(set(P.assumed)):
        ctx.note("assumed: " + a_)


F = "aiocoap/cli/fileserver.py"
# C19.a
R.seed("C19.a", F, "            path.unlink()\n", "            (self.root / \"/\".join(request.opt.uri_path)).unlink()\n", "sink fed from request.opt.uri_path directly")
R.seed("C19.a", F, "        path = self.request_to_localpath(request)\n        try:\n            st = path.stat()\n        except FileNotFoundError:\n            raise NoSuchFile()\n\n        etag",
       "        path = self.root / \"/\".join(request.opt.uri_path)\n        try:\n            st = path.stat()\n        except FileNotFoundError:\n            raise NoSuchFile()\n\n        etag", "render_get bypasses the sanitiser")
R.seed("C19.a", F, "self._observations.setdefault(path, [None, []])", "self._observations.setdefault(Path(*request.opt.uri_path), [None, []])", "unsanitised key later stat()ed by the refresh loop")
R.seed("C19.a", F, "response = await self.render_get_file(request, path)", "response = await self.render_get_file(request, Path(\"/\".join(request.opt.uri_path)))", "helper parameter bound to an unsanitised value")
R.seed("C19.a", F, "tempfile.NamedTemporaryFile(dir=path.parent, delete=False)", "tempfile.NamedTemporaryFile(delete=False)", "spool file in the system temp directory")
R.seed("C19.a", F, "            temppath.rename(path)\n", "            temppath.rename(self.root / request.opt.uri_path[-1])\n", "rename target not sanitised")
# C19.b
R.seed("C19.b", F, "p in (\".\", \"..\") for p in path", "p in (\".\",) for p in path", "'..' no longer refused")
R.seed("C19.b", F, "p in (\".\", \"..\") for p in path", "p in (\"..\",) for p in path", "'.' no longer refused")
R.seed("C19.b", F, "if any(\"/\" in p or p in (\".\", \"..\") for p in path):", "if any(p in (\".\", \"..\") for p in path):", "'/' test dropped")
R.seed("C19.b", F, "p in (\".\", \"..\") for p in path):", "p in (\".\", \"..\") for p in path[1:]):", "first component not validated")
R.seed("C19.b", F, "        if \"\" in path[:-1]:\n", "        if \"\" in path[1:-1]:\n", "leading empty component slips through (applies to the repaired tree)")
R.seed("C19.b", F, "        if \"\" in path[:-1]:\n", "        if \"\" in path[:-1] and False:\n", "absolute-join guard disabled (applies to the repaired tree)")
R.seed("C19.b", F, "        if any(\"/\" in p or p in (\".\", \"..\") for p in path):\n            raise InvalidPathError()\n", "        assert not any(\"/\" in p or p in (\".\", \"..\") for p in path)\n", "guard turned into an assert")
# C19.c
R.seed("C19.c", F, "    async def render_delete(self, request):\n        if not self.write:\n            return aiocoap.Message(code=codes.FORBIDDEN)\n", "    async def render_delete(self, request):\n", "write guard removed from render_delete")
R.seed("C19.c", F, "    async def render_put(self, request):\n        if not self.write:\n            return aiocoap.Message(code=codes.FORBIDDEN)", "    async def render_put(self, request):\n        if not self.write:\n            self.log.warning(\"read-only\")", "read-only PUT falls through to the write")
R.seed("C19.c", F, "    async def render_delete(self, request):\n        if not self.write:\n            return aiocoap.Message(code=codes.FORBIDDEN)", "    async def render_delete(self, request):\n        if not self.write:\n            return aiocoap.Message(code=codes.DELETED)", "wrong code on the read-only side")
R.seed("C19.c", F, "    async def render_put(self, request):\n        if not self.write:", "    async def render_put(self, request):\n        if self.write is None:", "test no longer on the truth of self.write")
R.seed("C19.c", F, "        self.log.info(\"Serving directory %s\", path)\n", "        self.log.info(\"Serving directory %s\", path)\n        (path / \".visited\").touch()\n", "mutation in a GET helper")
# C19.d
R.seed("C19.d", F, "data = f.read(block_in.size + 1)", "data = f.read(block_in.size)", "more can never be detected")
R.seed("C19.d", F, "f.seek(block_in.start)", "f.seek(block_in.block_number)", "seek to the block number instead of the byte offset")
R.seed("C19.d", F, "block_in.block_number, len(data) > block_in.size, block_in.size_exponent", "block_in.block_number, len(data) >= block_in.size, block_in.size_exponent", "more set on an exactly filled last block")
R.seed("C19.d", F, "payload=data[: block_in.size],", "payload=data,", "the look-ahead byte is sent")
R.seed("C19.d", F, "with path.open(\"rb\") as f:", "with path.open(\"r\") as f:", "text mode")
R.seed("C19.d", F, "if block_out.block_number == 0 and block_out.more is False:", "if block_out.block_number == 0:", "Block2 dropped although more blocks follow")
# C19.e
R.seed("C19.e", F, "class InvalidPathError(error.ConstructionRenderableError):\n    code = codes.BAD_REQUEST", "class InvalidPathError(error.ConstructionRenderableError):\n    code = codes.INTERNAL_SERVER_ERROR", "hostile path answered 5.00")
R.seed("C19.e", F, "class InvalidPathError(error.ConstructionRenderableError):\n    code = codes.BAD_REQUEST", "class InvalidPathError(ValueError):\n    code = codes.BAD_REQUEST", "not renderable")
R.seed("C19.e", F, "            path.unlink()\n        except FileNotFoundError:", "            path.unlink()\n        except PermissionError:", "missing file on DELETE becomes 5.00")
R.seed("C19.e", F, "            st = path.stat()\n        except FileNotFoundError:\n            raise NoSuchFile()\n\n        etag", "            st = path.stat()\n        except FileNotFoundError:\n            raise\n\n        etag", "FileNotFoundError re-raised on GET")

R.seed("C19.f", F, "    async def render_put(self, request):\n        if not self.write:\n            return aiocoap.Message(code=codes.FORBIDDEN)\n\n        if not request.opt.uri_path or not request.opt.uri_path[-1]:", "    async def render_put(self, request):\n        if not self.write:\n            return aiocoap.Message(code=codes.FORBIDDEN)\n\n        if request.opt.uri_path[-1:] == (\"\",):", "PUT with an empty Uri-Path spools next to (outside) the root")

# seeds for the scenario-based clauses (generalised spellings must still be refuted)
R.seed("C19.b", F, "        if \"\" in path[:-1]:\n", "        if \"//\" in \"/\".join(path):\n", "empty components looked for as '//' in the joined string: a single leading one ('', 'etc') is missed (witness evaluated concretely)")
R.seed("C19.b", F, "p in (\".\", \"..\") for p in path):", "p in (\".\", \"..\") for p in path[:-1]):", "last component not validated")
R.seed("C19.b", F, "        if any(\"/\" in p or p in (\".\", \"..\") for p in path):\n            raise InvalidPathError()\n",
       "        for p in path:\n            if p.startswith(\"_\"):\n                break\n            if \"/\" in p or p in (\".\", \"..\"):\n                raise InvalidPathError()\n", "validation loop left early: later components unchecked")
R.seed("C19.c", F, "    async def render_delete(self, request):\n        if not self.write:", "    async def render_delete(self, request):\n        if self.write is False:", "a falsy write flag other than False (None, 0) deletes")
R.seed("C19.c", F, "    async def render_delete(self, request):\n        if not self.write:",
       "    async def render_delete(self, request):\n        asyncio.get_event_loop().call_soon(lambda: self.request_to_localpath(request).unlink())\n        if not self.write:", "deleting callable created and scheduled before the write test")
R.seed("C19.d", F, "            0, 0, 6\n", "            1, 0, 6\n", "default descriptor starts at block 1")
R.seed("C19.d", F, "block_in.block_number, len(data) > block_in.size, block_in.size_exponent", "block_in.block_number, len(data) == block_in.size, block_in.size_exponent", "more set on exactly filled blocks only")
R.seed("C19.f", F, "        if not request.opt.uri_path or not request.opt.uri_path[-1]:\n            # Deleting", "        if request.opt.uri_path and not request.opt.uri_path[-1]:\n            # Deleting", "DELETE with an empty Uri-Path unlinks the root's own directory entry")

# seeds for the second hardening round (verdict values, configuration attributes, decorators, failure scenarios,
# element kinds, descriptor copies)
R.seed("C19.c", F, "    async def render_delete(self, request):\n        if not self.write:\n            return aiocoap.Message(code=codes.FORBIDDEN)\n",
       "    async def render_delete(self, request):\n        refusal = codes.FORBIDDEN if not self.write else None\n        if refusal is codes.BAD_REQUEST:\n            return aiocoap.Message(code=refusal)\n",
       "the verdict is handed on as a code but the dispatch tests for another constant: read-only DELETE falls through")
R.seed("C19.c", F, "        self.write = write\n", "        self.write = not write\n", "the permission is stored inverted: the default configuration writes")
R.seed("C19.c", F, "    async def render_delete(self, request):\n        if not self.write:\n            return aiocoap.Message(code=codes.FORBIDDEN)\n",
       "    def _guarded(handler):\n        async def wrapper(self, request):\n            if self.write is None:\n                return aiocoap.Message(code=codes.FORBIDDEN)\n            return await handler(self, request)\n\n        return wrapper\n\n    @_guarded\n    async def render_delete(self, request):\n",
       "the write test moved into a decorator that only stops write=None")
R.seed("C19.e", F, "            st = path.stat()\n        except FileNotFoundError:\n            raise NoSuchFile()\n\n        etag",
       "            st = path.stat()\n        except FileNotFoundError:\n            st = None\n        if st is None:\n            raise InvalidPathError()\n\n        etag",
       "absence recorded in a local and turned into 4.00 instead of 4.04 afterwards")
R.seed("C19.e", F, "            path.unlink()\n        except FileNotFoundError:\n            raise NoSuchFile()",
       "            path.unlink()\n        except OSError as e:\n            if isinstance(e, PermissionError):\n                raise NoSuchFile()\n            raise",
       "broad handler whose isinstance test lets FileNotFoundError through")
R.seed("C19.a", F, "        for f in path.iterdir():\n", "        for f in [self.root / name for name in request.opt.uri_path]:\n", "listing built from unsanitised components by a comprehension")
R.seed("C19.d", F, "aiocoap.optiontypes.BlockOption.BlockwiseTuple(\n            block_in.block_number, len(data) > block_in.size, block_in.size_exponent\n        )",
       "block_in._replace(more=len(data) >= block_in.size)", "descriptor copied with _replace, more set on an exactly filled last block")
R.seed("C19.d", F, "f.seek(block_in.start)", "f.seek(block_in.start, 1)", "offset relative to the current position")
R.seed("C19.b", F, "        return self.root / \"/\".join(path)\n", "        return Path(self.root, *path[1:])\n", "first component dropped from the joined path")
# C19.g: an operation between the checks and the join (each seed keeps every guard intact, so C19.b's scenarios stay unreachable)
R.seed("C19.g", F, "        return self.root / \"/\".join(path)\n", "        return self.root / unicodedata.normalize(\"NFKC\", \"/\".join(path))\n",
       "compatibility normalisation after the checks: U+2025 / U+FF0E U+FF0E fold to '..', U+FF0F to '/'")
R.seed("C19.g", F, "        return self.root / \"/\".join(path)\n", "        from urllib.parse import unquote as _pct\n        return self.root / _pct(\"/\".join(path))\n",
       "percent-decoding after the checks (under an import alias): %2e%2e becomes '..'")
R.seed("C19.g", F, "        return self.root / \"/\".join(path)\n", "        return self.root / \"/\".join(path).replace(\"\\\\\", \"/\")\n",
       "backslashes turned into separators after the checks")
R.seed("C19.g", F, "        return self.root / \"/\".join(path)\n", "        joined = \"/\".join(path)\n        joined = joined.strip()\n        return self.root / joined\n",
       "white space stripped from the joined string after the checks: ' ..' becomes '..'")
R.seed("C19.g", F, "        return self.root / \"/\".join(path)\n", "        return Path(str(self.root / \"/\".join(path)).encode(\"ascii\", \"ignore\").decode(\"ascii\"))\n",
       "non-ASCII characters dropped from the finished path: '..\\u00e9' becomes '..'")
# C19.h
_W = "p.add_argument(\"--write\", help=\"Allow writes by any user\", action=\"store_true\")"
R.seed("C19.h", F, _W, _W.replace("store_true", "store_false"), "the option's action stores False when given, so its absence means True")
R.seed("C19.h", F, _W, _W.replace("action=\"store_true\"", "action=\"store_true\", default=True"), "explicit true default of the option")
R.seed("C19.h", F, _W, _W.replace("action=\"store_true\"", "action=aiocoap.util.cli.ActionNoYes"),
       "yes/no action class of the package whose constructor defaults to default=True")
R.seed("C19.h", F, _W, _W.replace("action=\"store_true\"", "action=\"store_const\", const=True, default=1"), "store_const with a true default")
R.seed("C19.h", F, "        write=False,\n        etag_length=8,\n    ):\n        log = logging", "        write=True,\n        etag_length=8,\n    ):\n        log = logging",
       "the programmatic entry point defaults to writable")
R.seed("C19.h", F, "server = FileServer(path, log, write=write, etag_length=etag_length)", "server = FileServer(path, log, write=not write, etag_length=etag_length)",
       "permission inverted on the way into the constructor")
R.seed("C19.h", F, "        add_server_arguments(p)\n\n        return p", "        add_server_arguments(p)\n        p.set_defaults(write=True)\n\n        return p",
       "parser-level default overrides the action's")
R.seed("C19.h", F, "        server_opts = extract_server_arguments(opts)\n", "        server_opts = extract_server_arguments(opts)\n        opts.write = True\n",
       "the program stores into the parsed namespace")
