"""C19 File server confinement.

Structural clauses decided on the syntax tree of aiocoap/cli/fileserver.py
(class FileServer) plus the class hierarchy of aiocoap/error.py.

Modelling decisions (all stated in the evidence `explanation` as well):

* A *file-system sink* is a call of a pathlib method that touches (or, for
  `relative_to`, formats) a path, a `tempfile` constructor, `open`, or an
  `os`/`shutil` function.  The sanitiser `request_to_localpath` itself is not
  scanned for sinks (it is judged by C19.b instead).
* A value is *sanitised* ("path") when it is the result of
  `self.request_to_localpath(...)`, `self.root` itself, `.parent` / `.resolve()`
  / `.absolute()` / `Path()` / `str()` of a sanitised value, a child produced by
  `iterdir()`/`glob()` of a sanitised value, a key of `self._observations`
  (provided every key ever inserted is sanitised), the `.name` of a temp file
  created with `dir=<sanitised>`, a local all of whose definitions are
  sanitised, or a parameter bound to a sanitised value at every `self.m(...)`
  call site in the class (one level of call-argument binding).
* C19.b, C19.c, C19.d and C19.f are decided on the states of a small symbolic
  executor (rules/_kit_c19.py) that walks the CFGs of the class, steps into
  helper methods / module functions / closures / lambdas / methods handed over
  as callables, and folds expressions over scenario constants with the
  checker's own evaluator.  "X only happens when C" is phrased as "under the
  scenario not-C, X is unreachable":
    - C19.b: the Uri-Path is a symbolic sequence with one distinguished
      component of the excluded kind ('/' inside, '.', '..', empty leading
      component); the sanitiser's `return` must be unreachable.  A violation
      needs a path without uninterpreted decisions (or a concrete witness path
      evaluated end to end); otherwise the clause refuses.
    - C19.c: self.write is False (the constructor default) / None / 0; no
      mutating sink may be reachable and the exits after the flag was read
      answer 4.03.
    - C19.f: the Uri-Path is (); no mutating sink may be reachable.
    - C19.d: the values reaching seek/read/the response are compared by
      normal form in every state.
  `assert` never creates a branch and so never counts.
"""

import ast

from ..rulekit import *
from ..norm import Normalizer, Poly
from ..exc import EscapeAnalysis
from . import _kit_c19 as kit

R = Rules(
    "C19",
    explanation=(
        "Structural clauses of the file server decided on the syntax tree of cli/fileserver.py: (a) every "
        "file-system sink of FileServer receives a path that flows from the single sanitiser "
        "request_to_localpath (directly, via .parent, via iterdir() children, via keys of _observations, via "
        "a temp file created inside a sanitised directory, or via a parameter bound to such a value at every "
        "call site, a call site being a call or the handing over of the method as a callable with its arguments); "
        "(b) the sanitiser returns self.root / '/'.join(components) of the request's Uri-Path and its return is "
        "unreachable, in a symbolic execution of the sanitiser and the helpers it calls, for every Uri-Path that "
        "contains a component with '/', the component '.', the component '..', or an empty leading component "
        "followed by another one (absolute join) -- whether the rejection is spelled with any()/all(), loops, "
        "membership tests, helper predicates, tests on the joined string or containment of the result in "
        "self.root; (c) with self.write False/None/0 no mutating sink (including those in helpers, closures, "
        "lambdas and methods handed over as callables) is reachable, the exits after the flag was consulted "
        "answer 4.03, and self.write is only assigned in __init__; (f) with an empty Uri-Path no mutating sink "
        "is reachable; "
        "(d) render_get_file seeks to block.start, reads block.size+1 bytes in binary mode, sets more iff "
        "len(data) > block.size, sends data[:block.size] and answers (block.number, more, block.szx), with "
        "start = number*size; (e) the sanitiser's only escapes are 4.00 renderable errors, the trailing-slash "
        "errors are 4.00, and undominated stat/unlink probes in render_* map FileNotFoundError to 4.04/4.12. "
        "Paper step: with (a)-(b) every path handed to the operating system is root, or root joined with a "
        "relative string none of whose components is '.', '..' or contains '/', hence lexically below root. "
        "Not decided: symlinks inside the root, races with other processes, NUL bytes (rejected by the OS "
        "layer with ValueError before any access)."
    ),
    rule_text="def-use flow with one level of call-argument binding; scenario-based symbolic execution over the CFGs of the class (finite-state, interprocedural inside the class, the checker's own constant evaluator, symbolic sequences with a distinguished element); polynomial normal forms; class-hierarchy facts; escape sets",
)

FS = "cli.fileserver.FileServer"
SANITISER = "request_to_localpath"

PATH_READ = {"stat", "lstat", "exists", "is_dir", "is_file", "is_symlink", "is_mount", "open", "iterdir", "glob", "rglob",
             "read_bytes", "read_text", "samefile", "owner", "group", "readlink", "relative_to", "walk"}
PATH_WRITE = {"unlink", "rename", "mkdir", "rmdir", "touch", "write_bytes", "write_text", "symlink_to", "hardlink_to",
              "link_to", "chmod", "lchmod"}
# Path.replace(target) takes one argument, str.replace two: only the former is a sink
TEMP_CTORS = {"tempfile.NamedTemporaryFile", "tempfile.TemporaryFile", "tempfile.SpooledTemporaryFile", "tempfile.mkstemp",
              "tempfile.mkdtemp", "tempfile.TemporaryDirectory", "tempfile.mktemp"}
OS_READ = {"os.stat", "os.lstat", "os.listdir", "os.scandir", "os.walk", "os.open", "os.access", "os.readlink",
           "os.path.exists", "os.path.isfile", "os.path.isdir", "os.path.getsize", "os.path.getmtime", "open", "io.open"}
OS_WRITE = {"os.remove", "os.unlink", "os.rename", "os.replace", "os.mkdir", "os.makedirs", "os.rmdir", "os.removedirs",
            "os.symlink", "os.link", "os.chmod", "os.chown", "os.truncate", "os.utime", "shutil.rmtree", "shutil.copy",
            "shutil.copy2", "shutil.copyfile", "shutil.copytree", "shutil.move"}
FILE_WRITE = {"write", "writelines", "truncate"}
WRAPPERS = {"Path", "pathlib.Path", "PurePath", "pathlib.PurePath", "PurePosixPath", "pathlib.PurePosixPath", "str", "os.fspath"}
SAME_PATH_METHODS = {"resolve", "absolute", "expanduser"}


# ---------------------------------------------------------------------------
# class walking


def _class_funcs(prog):
    """All functions of FileServer: methods and functions nested in them."""
    ci = prog.cls(FS)
    out = []
    for fi in prog.funcs.values():
        f = fi
        while f is not None and f.cls is None:
            f = f.parent
        if f is not None and f.cls is ci:
            out.append(fi)
    return ci, out


class Scope:
    """A function (or a lambda inside one) in which names are evaluated."""

    def __init__(self, fi, lam=None, outer=None):
        self.fi = fi
        self.lam = lam
        self.outer = outer

    @property
    def node(self):
        return self.lam if self.lam is not None else self.fi.node

    def param_default(self, name):
        """(is_param, default expr or None)"""
        a = self.node.args
        allp = a.posonlyargs + a.args
        defaults = [None] * (len(allp) - len(a.defaults)) + list(a.defaults)
        for p, d in zip(allp, defaults):
            if p.arg == name:
                return True, d
        for p, d in zip(a.kwonlyargs, a.kw_defaults):
            if p.arg == name:
                return True, d
        return False, None


def _scopes(fi):
    """The function's own scope plus one scope per lambda (recursively)."""
    out = [Scope(fi, None, _outer_scope(fi))]

    def lambdas(root, outer):
        for n in walk_no_nested(root, include_root=False) if not isinstance(root, ast.Lambda) else _lambda_children(root):
            if isinstance(n, ast.Lambda):
                s = Scope(fi, n, outer)
                out.append(s)
                lambdas(n, s)
    lambdas(fi.node, out[0])
    return out


def _lambda_children(lam):
    todo = [lam.body]
    while todo:
        n = todo.pop()
        yield n
        if isinstance(n, (ast.Lambda, ast.FunctionDef, ast.AsyncFunctionDef, ast.ClassDef)):
            continue
        todo.extend(ast.iter_child_nodes(n))


def _outer_scope(fi):
    return Scope(fi.parent, None, _outer_scope(fi.parent)) if fi.parent is not None else None


def _scope_nodes(scope):
    """AST nodes evaluated in this scope (not in nested defs/lambdas)."""
    if scope.lam is not None:
        return list(_lambda_children(scope.lam))
    return list(walk_no_nested(scope.fi.node))


# ---------------------------------------------------------------------------
# flow: which expressions are sanitised


class Flow:
    def __init__(self, prog):
        self.prog = prog
        self.ci, self.funcs = _class_funcs(prog)
        self._param = {}
        self._obs = None
        self._busy = set()

    # -- sinks -----------------------------------------------------------
    def ext_name(self, fi, call):
        dotted = chain(call.func)
        if not dotted:
            return None
        head = dotted.split(".")[0]
        if head in fi.module.imports:
            return ".".join([fi.module.imports[head]] + dotted.split(".")[1:])
        return dotted

    def sinks(self, scope):
        """[(call, [path expressions that must be sanitised], mutating?, label)]"""
        out = []
        fi = scope.fi
        for n in _scope_nodes(scope):
            if not isinstance(n, ast.Call):
                continue
            f = n.func
            ext = self.ext_name(fi, n)
            if ext in TEMP_CTORS:
                d = next((k.value for k in n.keywords if k.arg == "dir"), None)
                if d is None and ext in ("tempfile.mkstemp", "tempfile.mkdtemp", "tempfile.mktemp") and len(n.args) >= 3:
                    d = n.args[2]
                out.append((n, [d], True, ext.split(".")[-1] + "(dir=...)"))
                continue
            if ext in OS_READ or ext in OS_WRITE:
                two = ext in ("os.rename", "os.replace", "os.symlink", "os.link") or ext.startswith("shutil.")
                paths = list(n.args[:2] if two else n.args[:1]) or [None]
                mut = ext in OS_WRITE or ext == "os.open" or (ext in ("open", "io.open") and _open_mode_writes(n, 1))
                out.append((n, paths, mut, ext + "()"))
                continue
            if isinstance(f, ast.Attribute):
                name = f.attr
                if name in PATH_READ or name in PATH_WRITE or (name == "replace" and len(n.args) == 1 and not n.keywords):
                    mut = name in PATH_WRITE or name == "replace" or (name == "open" and _open_mode_writes(n, 0))
                    paths = [f.value]
                    if name in ("rename", "replace", "symlink_to", "hardlink_to", "link_to", "samefile") and n.args:
                        paths.append(n.args[0])
                    out.append((n, paths, mut, "." + name + "()"))
        # a path method taken as a value (`cleanup = tmp.unlink`, `partial(tmp.rename, path)`, `run_in_executor(None,
        # path.unlink)`) is the same sink as its call; it is pinned where the method value is taken
        called = {id(n.func) for n in _scope_nodes(scope) if isinstance(n, ast.Call)}
        for parent in _scope_nodes(scope):
            if isinstance(parent, ast.Call):
                kids = list(parent.args) + [k.value for k in parent.keywords]
            elif isinstance(parent, (ast.Assign, ast.AnnAssign, ast.Return, ast.NamedExpr)) and parent.value is not None:
                kids = [parent.value]
            elif isinstance(parent, (ast.Tuple, ast.List)) and isinstance(getattr(parent, "ctx", None), ast.Load):
                kids = list(parent.elts)
            else:
                continue
            for n in kids:
                if isinstance(n, ast.Attribute) and id(n) not in called and (n.attr in PATH_WRITE or (n.attr in PATH_READ and self.kind(scope, n.value) is not None)):
                    out.append((n, [n.value], n.attr in PATH_WRITE, "." + n.attr + " (method value)"))
        return out

    def file_writes(self, scope):
        """Calls of write/writelines/truncate on objects opened in this scope."""
        out = []
        for n in _scope_nodes(scope):
            if isinstance(n, ast.Call) and isinstance(n.func, ast.Attribute) and n.func.attr in FILE_WRITE:
                out.append(n)
        return out

    # -- sanitised values ------------------------------------------------
    def kind(self, scope, e, depth=0):
        """'path' (sanitised path), 'tmp' (temp file object created in a sanitised directory) or None."""
        if e is None or depth > 12:
            return None
        if isinstance(e, ast.Name):
            return self._name_kind(scope, e.id, depth)
        if isinstance(e, ast.Attribute):
            if chain(e) == "self.root":
                return "path"
            k = self.kind(scope, e.value, depth + 1)
            if e.attr == "parent" and k == "path":
                return "path"
            if e.attr == "name" and k == "tmp":
                return "path"
            return None
        if isinstance(e, ast.Call):
            if match("self.%s($*a)" % SANITISER, e) is not None and not e.keywords:
                return "path"
            fn = self.ext_name(scope.fi, e)
            if fn in TEMP_CTORS:
                d = next((k.value for k in e.keywords if k.arg == "dir"), None)
                return "tmp" if self.kind(scope, d, depth + 1) == "path" else None
            if chain(e.func) in WRAPPERS and len(e.args) == 1 and not e.keywords:
                return "path" if self.kind(scope, e.args[0], depth + 1) == "path" else None
            if isinstance(e.func, ast.Attribute) and e.func.attr in SAME_PATH_METHODS:
                return "path" if self.kind(scope, e.func.value, depth + 1) == "path" else None
            if isinstance(e.func, ast.Attribute) and e.func.attr in ("with_suffix", "with_name", "with_stem") and len(e.args) == 1 and not e.keywords:
                # a sibling with a constant, separator-free name stays in the sanitised directory
                c = _const_str_(e.args[0])
                if c is not None and "/" not in c and c not in (".", "..") and "\0" not in c:
                    return "path" if self.kind(scope, e.func.value, depth + 1) == "path" else None
            return None
        if isinstance(e, ast.BinOp) and isinstance(e.op, ast.Div):
            # a constant, harmless child name below a sanitised directory
            if self.kind(scope, e.left, depth + 1) == "path" and isinstance(e.right, ast.Constant) and isinstance(e.right.value, str):
                c = e.right.value
                if c and "/" not in c and c not in (".", "..") and "\0" not in c:
                    return "path"
            return None
        if isinstance(e, ast.IfExp):
            a, b = self.kind(scope, e.body, depth + 1), self.kind(scope, e.orelse, depth + 1)
            return a if a == b else None
        return None

    def _name_kind(self, scope, name, depth):
        key = (id(scope.node), name)
        if key in self._busy:
            return None
        self._busy.add(key)
        try:
            is_param, default = scope.param_default(name)
            writes = writes_to_name(scope.node, name) if scope.lam is None else []
            if is_param:
                if writes:
                    return None
                if default is not None and scope.outer is not None and (scope.lam is not None or scope.fi.parent is not None):
                    # closure-capturing default (`path=path`), evaluated in the enclosing scope
                    return self.kind(scope.outer, default, depth + 1)
                if scope.lam is not None or scope.fi.cls is None:
                    return None
                return self._param_kind(scope.fi, name, depth)
            if not writes:
                if scope.outer is not None:
                    return self._name_kind(scope.outer, name, depth + 1)
                return None
            kinds = {self._write_kind(scope, w, name, depth) for w in writes}
            return kinds.pop() if len(kinds) == 1 else None
        finally:
            self._busy.discard(key)

    def _write_kind(self, scope, w, name, depth):
        if isinstance(w, ast.Assign):
            if len(w.targets) == 1 and isinstance(w.targets[0], ast.Name):
                return self.kind(scope, w.value, depth + 1)
            return None
        if isinstance(w, ast.AnnAssign) and w.value is not None:
            return self.kind(scope, w.value, depth + 1)
        if isinstance(w, (ast.For, ast.AsyncFor)):
            it = w.iter
            if isinstance(w.target, ast.Name):
                if isinstance(it, ast.Call) and isinstance(it.func, ast.Attribute) and it.func.attr in ("iterdir", "glob", "rglob"):
                    return "path" if self.kind(scope, it.func.value, depth + 1) == "path" else None
                if self._obs_iter(it) == "keys":
                    return "path" if self.obs_keys_clean() else None
                return None
            if isinstance(w.target, (ast.Tuple, ast.List)) and w.target.elts and isinstance(w.target.elts[0], ast.Name) and w.target.elts[0].id == name:
                if self._obs_iter(it) == "items":
                    return "path" if self.obs_keys_clean() else None
            return None
        if isinstance(w, (ast.With, ast.AsyncWith)):
            for item in w.items:
                if isinstance(item.optional_vars, ast.Name) and item.optional_vars.id == name:
                    return self.kind(scope, item.context_expr, depth + 1)
            return None
        return None

    def _obs_iter(self, it):
        """'items' / 'keys' when `it` enumerates self._observations (possibly copied by list/tuple/sorted)."""
        while isinstance(it, ast.Call) and chain(it.func) in ("list", "tuple", "sorted", "iter", "set", "frozenset") and len(it.args) == 1:
            it = it.args[0]
        if chain(it) == "self._observations":
            return "keys"
        if isinstance(it, ast.Call) and isinstance(it.func, ast.Attribute) and chain(it.func.value) == "self._observations" and not it.args:
            if it.func.attr == "items":
                return "items"
            if it.func.attr == "keys":
                return "keys"
        return None

    def obs_keys_clean(self):
        if self._obs is None:
            self._obs = False  # recursion guard: a cycle through the table is not a source
            ok = True
            n_ins = 0
            for fi in self.funcs:
                for scope in _scopes(fi):
                    nodes = _scope_nodes(scope)
                    for n in nodes:
                        key = None
                        if isinstance(n, (ast.Assign, ast.AugAssign, ast.AnnAssign)):
                            tgts = n.targets if isinstance(n, ast.Assign) else [n.target]
                            for t in tgts:
                                for tt in (t.elts if isinstance(t, (ast.Tuple, ast.List)) else [t]):
                                    if chain(tt) == "self._observations":
                                        v = n.value
                                        empty = (isinstance(v, ast.Dict) and not v.keys) or (isinstance(v, ast.Call) and chain(v.func) == "dict" and not v.args and not v.keywords)
                                        if not empty:
                                            ok = False
                                    elif isinstance(tt, ast.Subscript) and chain(tt.value) == "self._observations":
                                        key = tt.slice
                        elif isinstance(n, ast.Call) and isinstance(n.func, ast.Attribute) and chain(n.func.value) == "self._observations":
                            if n.func.attr in ("setdefault", "__setitem__") and n.args:
                                key = n.args[0]
                            elif n.func.attr == "update" and len(n.args) == 1 and not n.keywords and isinstance(n.args[0], ast.Dict) and all(k is not None for k in n.args[0].keys):
                                # d.update({k: v}) inserts exactly the displayed keys
                                for k in n.args[0].keys:
                                    n_ins += 1
                                    if self.kind(scope, k) != "path":
                                        ok = False
                            elif n.func.attr in ("update", "fromkeys"):
                                ok = False
                        if key is not None:
                            n_ins += 1
                            if self.kind(scope, key) != "path":
                                ok = False
            self._obs = ok and n_ins >= 1
        return self._obs

    def call_sites(self, meth_name):
        """[(scope, call)] of self.<meth>(...) anywhere in the class.  A method handed over as a callable with its
        arguments -- functools.partial(self.m, a), loop.run_in_executor(None, self.m, a), asyncio.to_thread(self.m, a),
        call_soon(self.m, a): the positional arguments that follow the callable are its arguments -- is the same
        fact as the call self.m(a); it is returned as a synthetic Call whose `_site` is the reference and whose
        `_via` is the enclosing call."""
        out = []
        for fi in self.funcs:
            sn = _self_name(fi)
            if sn is None:
                continue
            ref = lambda x: isinstance(x, ast.Attribute) and isinstance(x.value, ast.Name) and x.value.id == sn and x.attr == meth_name
            for scope in _scopes(fi):
                for n in _scope_nodes(scope):
                    if not isinstance(n, ast.Call):
                        continue
                    if ref(n.func):
                        out.append((scope, n))
                    for i, a in enumerate(n.args):
                        if ref(a):
                            partial = (chain(n.func) or "").split(".")[-1] == "partial"
                            synth = ast.Call(func=a, args=list(n.args[i + 1:]), keywords=list(n.keywords) if partial else [])
                            ast.copy_location(synth, n)
                            synth._site, synth._via = a, n
                            out.append((scope, synth))
        return out

    def bare_refs(self, meth_name):
        """[(scope, attribute)] of references self.<meth> that are neither called nor handed over with arguments"""
        out = []
        for fi in self.funcs:
            sn = _self_name(fi)
            if sn is None:
                continue
            for scope in _scopes(fi):
                nodes = _scope_nodes(scope)
                used = set()
                for n in nodes:
                    if isinstance(n, ast.Call):
                        used.add(id(n.func))
                        used.update(id(a) for a in n.args)
                for n in nodes:
                    if isinstance(n, ast.Attribute) and isinstance(n.value, ast.Name) and n.value.id == sn and n.attr == meth_name \
                            and id(n) not in used and isinstance(n.ctx, ast.Load):
                        out.append((scope, n))
        return out

    def _param_kind(self, fi, name, depth):
        key = (fi.qn, name)
        if key in self._param:
            return self._param[key]
        self._param[key] = None
        pn = params(fi)
        sites = self.call_sites(fi.name)
        kinds = set()
        for scope, call in sites:
            arg = None
            if any(isinstance(a, ast.Starred) for a in call.args) or any(k.arg is None for k in call.keywords):
                kinds.add(None)
                continue
            if name in pn and pn.index(name) < len(call.args):
                arg = call.args[pn.index(name)]
            else:
                arg = next((k.value for k in call.keywords if k.arg == name), None)
            kinds.add(self.kind(scope, arg, depth + 1))
        res = kinds.pop() if len(kinds) == 1 and sites else None
        self._param[key] = res
        return res


def _self_name(fi):
    """name of the instance parameter of the method enclosing fi (None for static methods / plain functions)"""
    m = fi
    while m.parent is not None:
        m = m.parent
    if m.cls is None or any((chain(d) or "") == "staticmethod" for d in m.node.decorator_list):
        return None
    a = m.node.args
    ps = a.posonlyargs + a.args
    return ps[0].arg if ps else None


def _const_str_(e):
    return e.value if isinstance(e, ast.Constant) and isinstance(e.value, str) else None


def _open_mode_writes(call, pos):
    mode = call.args[pos] if len(call.args) > pos else next((k.value for k in call.keywords if k.arg == "mode"), None)
    if mode is None:
        return False
    if isinstance(mode, ast.Constant) and isinstance(mode.value, str):
        return any(c in mode.value for c in "wax+")
    return True  # unknown mode: assume it may write


def _is_sanitiser(fi):
    f = fi
    while f is not None:
        if f.cls is not None and f.name == SANITISER:
            return True
        f = f.parent
    return False


# ---------------------------------------------------------------------------
@R.clause("C19.a", "every file-system sink of FileServer takes its path from request_to_localpath")
def a(ctx):
    fl = Flow(ctx.prog)
    ctx.prog.func(FS + "." + SANITISER)
    n = 0
    for fi in fl.funcs:
        if _is_sanitiser(fi):
            continue
        for scope in _scopes(fi):
            for call, paths, mut, label in fl.sinks(scope):
                for p in paths:
                    n += 1
                    ok = fl.kind(scope, p) == "path"
                    what = "no directory given (system temp dir)" if p is None else stmt_text(p, 80)
                    ctx.ob("the path reaching %s is derived from request_to_localpath" % label, ok, fi, call,
                           detail="path expression: %s" % what)
    ctx.floor("file-system sinks in FileServer", n, 14)
    ctx.note("%d sink operands inspected; keys of _observations sanitised: %s" % (n, fl.obs_keys_clean()))


# ---------------------------------------------------------------------------
# C19.b


def _const_str(e):
    return e.value if isinstance(e, ast.Constant) and isinstance(e.value, str) else None


class Sanitiser:
    """Shape of request_to_localpath: result R = self.root / J, J = "/".join(P), P = <request>.opt.uri_path."""

    def __init__(self, ctx):
        prog = ctx.prog
        self.ctx = ctx
        self.prog = prog
        self.fi = fi = prog.func(FS + "." + SANITISER)
        self.cfg = cfg_of(fi)
        p = params(fi)
        ctx.need(len(p) >= 1, "request_to_localpath has no request parameter")
        self.req = p[0]
        self.rets = [n for n in self.cfg.nodes if n.kind == "return" and self.cfg.is_reachable(n.id)]
        ctx.need(self.rets, "request_to_localpath has no reachable return")
        ctx.need(self.cfg.exit not in self.cfg.reach({self.cfg.entry}, avoid={n.id for n in self.rets}, skip_labels=("exc",)),
                 "request_to_localpath can fall off its end without returning a path")
        self.shapes = {}
        for r in self.rets:
            self.shapes[r.id] = self._shape(r.ast.value)

    def _strip(self, e):
        """Peel .resolve()/.absolute() and single-assignment locals."""
        resolved = False
        for _ in range(6):
            e2 = resolve_local(self.fi.node, e)
            if isinstance(e2, ast.Call) and isinstance(e2.func, ast.Attribute) and e2.func.attr in SAME_PATH_METHODS and not e2.args:
                resolved = resolved or e2.func.attr == "resolve"
                e2 = e2.func.value
            if e2 is e:
                break
            e = e2
        return e, resolved

    def _shape(self, v):
        ctx = self.ctx
        ctx.need(v is not None, "request_to_localpath returns no value")
        Rx, _ = self._strip(v)
        if (isinstance(Rx, ast.Call) and isinstance(Rx.func, ast.Attribute) and Rx.func.attr == "joinpath" and chain(Rx.func.value) == "self.root"
                and len(Rx.args) == 1 and isinstance(Rx.args[0], ast.Starred) and not Rx.keywords):
            # root.joinpath(*components) == root / "/".join(components) for every path the guards let through
            P = resolve_local(self.fi.node, Rx.args[0].value)
            return {"R": Rx, "J": None, "P": P, "Jsrc": None, "Psrc": Rx.args[0].value, "kind": "joinpath"}
        b = match("self.root / $j", Rx)
        ctx.need(b is not None, "returned value %s is not of the form self.root / <joined components>" % stmt_text(Rx, 80))
        J = resolve_local(self.fi.node, b["j"])
        jb = match("$s.join($p)", J)
        ctx.need(jb is not None and _const_str(jb["s"]) == "/", "joined value %s is not '/'.join(<components>)" % stmt_text(J, 80))
        P = resolve_local(self.fi.node, jb["p"])
        while isinstance(P, ast.Call) and chain(P.func) in ("list", "tuple") and len(P.args) == 1 and not P.keywords:
            P = resolve_local(self.fi.node, P.args[0])
        return {"R": Rx, "J": J, "P": P, "Jsrc": b["j"], "Psrc": jb["p"], "kind": "join"}


def _int_const(e):
    if isinstance(e, ast.Constant) and isinstance(e.value, int) and not isinstance(e.value, bool):
        return e.value
    if isinstance(e, ast.UnaryOp) and isinstance(e.op, ast.USub) and isinstance(e.operand, ast.Constant) and isinstance(e.operand.value, int):
        return -e.operand.value
    return None


def _num_const(e):
    """integer value of a constant, True/False counting as 1/0 (the `more` field of a block descriptor)"""
    if isinstance(e, ast.Constant) and isinstance(e.value, bool):
        return int(e.value)
    return _int_const(e)


EXCLUSIONS = [
    ("slash", "(i) a component containing '/' never reaches the join"),
    ("dot", "(ii) the component '.' never reaches the join"),
    ("dotdot", "(iii) the component '..' never reaches the join"),
    ("abs", "(iv) the join cannot be absolute (empty leading/non-final component, absolute joined value or result outside self.root is rejected)"),
]

# Scenarios of C19.b.  The Uri-Path is a symbolic sequence with ONE distinguished component $e of the excluded kind
# at a given position; every other component ($g..) is an unconstrained string, and the stretches between them have
# unknown length.  The clause holds when the `return` is unreachable under every scenario of the exclusion.
#   position           sequence
#   first & final      ($e,)
#   first & non-final  ($e, *$g1.., $g9)
#   later & final      ($g8, *$g1.., $e)
#   later & non-final  ($g8, *$g1.., $e, *$g2.., $g9)
# An absolute join arises exactly from an empty *leading* component followed by at least one more (a component
# starting with "/" is covered by (i)), so (iv) has the single scenario first & non-final with $e == "".
# "Result inside the root" tests (is_relative_to / relative_to / commonpath / parents) are answered for the harmful
# instance of the scenario: lexically, an absolute join lies outside the root (False) while '.', '..' stay inside
# (True; PurePath does not collapse '..') and a component with '/' may or may not (free); after resolve() on both
# sides every harmful instance lies outside (False).
_POSITIONS = {
    "first&final": lambda e: [("one", e)],
    "first&nonfinal": lambda e: [("one", e), ("many", 1), ("one", kit.N("$g9"))],
    "later&final": lambda e: [("one", kit.N("$g8")), ("many", 1), ("one", e)],
    "later&nonfinal": lambda e: [("one", kit.N("$g8")), ("many", 1), ("one", e), ("many", 2), ("one", kit.N("$g9"))],
}
_KIND = {
    "slash": dict(value=None, contain={"lex": None, "res": False}, what="a component containing '/'"),
    "dot": dict(value=".", contain={"lex": True, "res": False}, what="the component '.'"),
    "dotdot": dict(value="..", contain={"lex": True, "res": False}, what="the component '..'"),
    "abs": dict(value="", contain={"lex": False, "res": False}, what="an empty leading component"),
}
_WITNESSES = {
    "slash": [("a/b",), ("x", "a/b"), ("a/b", "x"), ("x", "a/b", "y"), ("/etc",), ("x", "/etc", "y"), ("b/",), ("../x",)],
    "dot": [(".",), ("x", "."), (".", "x"), ("x", ".", "y")],
    "dotdot": [("..",), ("x", ".."), ("..", "x"), ("x", "..", "y")],
    "abs": [("", "etc", "hostname"), ("", "x"), ("", "etc", "")],
}


def _b_symbolic(uri_chain, tag):
    kind = _KIND[tag]
    for pos in (["first&nonfinal"] if tag == "abs" else sorted(_POSITIONS)):
        e = kit.N("$e")
        bind = lambda c_, ch=uri_chain: kit.N("$P") if c_ == ch else None
        yield kit.Scenario("%s@%s" % (tag, pos), bind=bind, seqs={"$P": _POSITIONS[pos](e)},
                           cenv={} if kind["value"] is None else {"$e": kind["value"]},
                           slash={"$e"} if kind["value"] is None else (), tainted={"$P", "$e"}, contain=kind["contain"],
                           taint_mutated=True, taint_through_calls=True,
                           describe="%s in %s position" % (kind["what"], pos.replace("&", ", ")))


def _b_concrete(uri_chain, tag):
    for w in _WITNESSES[tag]:
        bind = lambda c_, ch=uri_chain: kit.N("$P") if c_ == ch else None
        yield kit.Scenario("%s@%r" % (tag, w), bind=bind, seqs={"$P": [("one", kit.K(x, taint=True)) for x in w]}, cenv={"$P": w},
                           tainted={"$P"}, contain=_KIND[tag]["contain"], taint_mutated=True, taint_through_calls=True,
                           describe="Uri-Path %r" % (w,))


def _b_reach(prog, ci, fi, ret_id, scenarios):
    """[(scenario, state)] for the states in which the return is reached, certain ones first"""
    certain, uncertain = [], []
    for sc in scenarios:
        sx = kit.SX(prog, ci, sc)
        sx.run(fi)
        for st, depth, stack in sx.visits.get((fi.qn, ret_id), []):
            if depth == 0:
                (uncertain if st.uncertain() else certain).append((sc, st))
    return certain, uncertain


@R.clause("C19.b", "request_to_localpath returns self.root / '/'.join(uri_path) behind guards excluding '/', '.', '..' and an absolute join")
def b(ctx):
    """The four exclusions are decided by symbolic execution of the sanitiser (with the helpers it calls) on a
    Uri-Path that contains a component of the excluded kind: the property clause holds iff the `return` cannot be
    reached.  How the rejection is spelled is immaterial: any()/all() over a generator, a loop (with or without
    enumerate, with a flag or a raise), a helper predicate with several returns, `c in path[:-1]`, set
    intersection, tests on the joined string (startswith / isabs / is_absolute) or on the result (is_relative_to,
    relative_to in a try, parents).  `assert` is not a branch.  A violation is only reported when the return is
    reached on a path none of whose decisions the executor failed to interpret -- or, failing that, when the
    checker's own evaluator carries a concrete witness path (e.g. ('', 'etc', 'hostname')) through to the return;
    otherwise the clause refuses (analysis error)."""
    S = Sanitiser(ctx)
    fi, cfg = S.fi, S.cfg
    prog = ctx.prog
    ci = prog.cls(FS)
    uri_chain = "%s.opt.uri_path" % S.req
    for r in S.rets:
        sh = S.shapes[r.id]
        ctx.ob("the joined components are the request's Uri-Path", chain(sh["P"]) == uri_chain and not writes_to_name(fi.node, S.req),
               fi, r.ast, detail="components: %s" % stmt_text(sh["P"], 80))
        for tag, desc in EXCLUSIONS:
            if tag == "abs" and sh["kind"] == "joinpath":
                # root.joinpath(*components) ignores empty components; it is absolute only if a component starts
                # with "/", which (i) excludes
                ctx.ob(desc, True, fi, r.ast, detail="joinpath(*components): absolute only through a component with '/', see (i)")
                continue
            certain, uncertain = _b_reach(prog, ci, fi, r.id, _b_symbolic(uri_chain, tag))
            witness = None
            if not certain and uncertain:
                c2, u2 = _b_reach(prog, ci, fi, r.id, _b_concrete(uri_chain, tag))
                if c2:
                    certain = c2
                else:
                    sc, st = uncertain[0]
                    raise AnalysisError("request_to_localpath: cannot decide whether %s reaches the join: the test `%s` is outside the rule's vocabulary"
                                        % (sc.describe, "`, `".join(st.uncertain()[:2])))
            if certain:
                sc, st = certain[0]
                witness = "%s passes every guard on the path [%s]" % (sc.describe, st.describe(8))
                if tag == "abs":
                    witness += "; e.g. Uri-Path ('', 'etc', 'hostname') joins to '/etc/hostname' and self.root / '/etc/hostname' is absolute"
            ctx.ob(desc, not certain, fi, r.ast, detail=witness)


# ---------------------------------------------------------------------------
# C19.c / C19.f: reachability of the mutating sinks under a scenario
#
# Both clauses have the form "a mutating sink is executed only when C holds" (C = the server was started with write
# permission / the Uri-Path is not empty).  They are decided by running the symbolic executor of _kit_c19 over the
# methods of the class under the scenario "C is false" (self.write is the default False / the Uri-Path is ()) and
# asking whether a sink is reachable.  That is the contrapositive of the old "a branch outcome establishing C
# dominates the sink", but it does not depend on where and how the test is spelled: guard clause or nested if, test
# in a helper that returns a refusal or a boolean, De Morgan forms, a hoisted local, len()/==()/truthiness.


def _code_name(e):
    c = chain(e)
    return c.split(".")[-1] if c else None


def _exc_class_qn(prog, fi, e):
    """Qualified class of the expression raised (`X(...)` or `X`), also for the executor's symbolic values."""
    p = kit.opaque_parts(e)
    if p is not None:
        e = p[0]
    elif isinstance(e, ast.Call):
        e = e.func
    txt = chain(e)
    if not txt:
        return None
    q = prog.resolve_in_module(fi.module, txt)
    return q if q in prog.classes else None


def _class_code(prog, qn):
    v, _ = prog.class_attr(qn, "code")
    return _code_name(v) if v is not None else None


def _is_renderable(prog, qn):
    return prog.is_subclass(qn, "aiocoap.error.RenderableError")


def _responds_with(prog, fi, node, codes_ok):
    """Is CFG exit statement `node` (Return/Raise) an answer with one of the given code names?"""
    if isinstance(node, ast.Return) and node.value is not None:
        v = resolve_local(fi.node, node.value)
        if isinstance(v, ast.Call):
            code = next((k.value for k in v.keywords if k.arg == "code"), None)
            return code is not None and _code_name(code) in codes_ok
        return False
    if isinstance(node, ast.Raise) and node.exc is not None:
        q = _exc_class_qn(prog, fi, node.exc)
        return q is not None and _is_renderable(prog, q) and _class_code(prog, q) in codes_ok
    return False


def _outcome_responds_with(prog, fi, kind, val, codes_ok):
    """Same for an outcome of the symbolic executor: ('return', value) / ('raise', exception value)."""
    if val is None:
        return False
    if kind == "return":
        p = kit.opaque_parts(val)
        if p is None:
            return False
        code = next((k.value for k in p[2] if k.arg == "code"), None)
        return code is not None and _code_name(code) in codes_ok
    q = _exc_class_qn(prog, fi, val)
    return q is not None and _is_renderable(prog, q) and _class_code(prog, q) in codes_ok


class Reach:
    """Entry points of the class, its mutating sinks, and reachability of the sinks under scenarios."""

    def __init__(self, prog, fl=None):
        self.prog = prog
        self.fl = fl or Flow(prog)
        fl = self.fl
        self.sinks = []  # (fi, scope, call, label)
        for fi in fl.funcs:
            if _is_sanitiser(fi):
                continue
            for scope in _scopes(fi):
                for call, paths, mut, label in fl.sinks(scope):
                    if mut:
                        self.sinks.append((fi, scope, call, label, "sink"))
                for call in fl.file_writes(scope):
                    self.sinks.append((fi, scope, call, ".%s() on a file object" % call.func.attr, "filewrite"))
        # functions from which a mutating sink can be reached through calls inside the class
        has = {fi.qn for fi, *_ in self.sinks}
        changed = True
        while changed:
            changed = False
            for fi in fl.funcs:
                if fi.qn in has:
                    continue
                for n in ast.walk(fi.node):
                    if isinstance(n, ast.Attribute) and isinstance(n.value, ast.Name) and n.attr in fl.ci.methods and fl.ci.methods[n.attr].qn in has:
                        has.add(fi.qn)
                        changed = True
                        break
                    if isinstance(n, (ast.FunctionDef, ast.AsyncFunctionDef)) and n is not fi.node and any(f.node is n and f.qn in has for f in fl.funcs):
                        has.add(fi.qn)
                        changed = True
                        break
        self.entries = [fi for fi in fl.funcs if fi.qn in has and not _is_sanitiser(fi)]
        self.base = self.run(None)
        # A method is *internal* when it is used inside the class (called, handed over as a callable, referenced) and
        # every call was stepped into by the executor: it then only runs in the contexts of those uses.
        self.internal = set()
        self.refs = {}
        for fi in self.entries:
            if fi.cls is None:
                continue
            sites = fl.call_sites(fi.name)
            self.refs[fi.qn] = fl.bare_refs(fi.name)
            if (sites or self.refs[fi.qn]) and all(id(getattr(cs, "_site", cs)) in self.base.inlined_sites and id(getattr(cs, "_site", cs)) not in self.base.refused_sites
                                                   for _, cs in sites):
                self.internal.add(fi.qn)

    def run(self, scenario):
        sx = kit.SX(self.prog, self.fl.ci, scenario)
        sx.outcomes = {}
        for fi in self.entries:
            sx.outcomes[fi.qn] = sx.run(fi)
        return sx

    def node_visits(self, sx, fi, node, depth=0):
        """states in which the construct `node` of function fi is executed.  Visits made while stepping in from a
        caller always count; visits of the run of fi as an entry point count when fi can start from outside or
        from a live creation/reference point (a closure or lambda only runs after the statement creating it, a
        method reference only after the expression taking it)."""
        out = []
        own = []
        for nid in cfg_of(fi).locate(node):
            for st, d, stack in sx.visits.get((fi.qn, nid), []):
                (own if d == 0 else out).append((st, stack))
        if own and depth < 6:
            live = self.live(sx, fi, depth + 1)
            if live is True:
                out.extend(own)
            elif live:
                if all(st.uncertain() for st, _ in live):
                    own = [(st.flag(*["uncertain:" + u for u in live[0][0].uncertain()]), stack) for st, stack in own]
                out.extend(own)
        return out

    def live(self, sx, fi, depth):
        """True (entered from outside the class), or the states of the points at which fi comes into being"""
        if fi.parent is not None:
            return self.node_visits(sx, fi.parent, fi.node, depth)
        if fi.qn not in self.internal:
            return True
        out = []
        for scope, ref in self.refs.get(fi.qn, []):
            out.extend(self.scope_visits(sx, scope, ref, depth))
        return out

    def scope_visits(self, sx, scope, node, depth=0):
        """like node_visits for a construct inside a lambda: it runs only after the lambda has been created"""
        if scope.lam is not None:
            return self.node_visits(sx, scope.fi, scope.lam, depth)
        return self.node_visits(sx, scope.fi, node, depth)

    def visits(self, sx, fi, call, scope=None):
        if scope is not None:
            return self.scope_visits(sx, scope, call)
        return self.node_visits(sx, fi, call)

    def external_entries(self):
        return [fi for fi in self.entries if fi.qn not in self.internal and fi.parent is None]

    def reaches_sink(self, sx, entry):
        """does the run of `entry` (as entry point) visit a mutating sink"""
        for fi, scope, call, label, kind in self.sinks:
            node = scope.lam if scope.lam is not None else call
            for nid in cfg_of(fi).locate(node):
                for st, depth, stack in sx.visits.get((fi.qn, nid), []):
                    root = stack[0][0] if stack else fi.qn
                    if root == entry.qn:
                        return True
        return False


def _check_unreachable(ctx, R_, sxs, desc_fmt, kinds=("sink", "filewrite")):
    """One obligation per mutating sink: it is not executed under any of the scenario runs `sxs` = [(sx, why)]."""
    n = 0
    for fi, scope, call, label, kind in R_.sinks:
        if kind not in kinds:
            continue
        n += 1
        detail = None
        for sx, why in sxs:
            vs = R_.visits(sx, fi, call, scope)
            certain = [(st, stack) for st, stack in vs if not st.uncertain()]
            if vs and not certain:
                raise AnalysisError("%s: whether %s is reached %s depends on a test the rule cannot interpret: %s"
                                    % (fi.short, stmt_text(call, 60), why, "; ".join(sorted({u for st, _ in vs for u in st.uncertain()})[:3])))
            if certain:
                st, stack = certain[0]
                detail = "reached %s on the path [%s]%s" % (why, st.describe(), (" (entered from %s)" % stack[0][0].split(".")[-1]) if stack else "")
                break
        ctx.ob(desc_fmt % label, detail is None, fi, call, detail=detail)
    return n


@R.clause("C19.c", "every mutating sink is dominated by the self.write test whose failing side answers 4.03")
def c(ctx):
    prog = ctx.prog
    fl = Flow(prog)
    R_ = Reach(prog, fl)
    # Read-only configurations: self.write holds the default of the constructor's parameter (False, which is also what
    # the command line passes without --write) or any other falsy value an embedding application may pass (None, 0).
    # Requiring unreachability for each of them is the old "a branch on the *truth* of self.write dominates the sink":
    # `if self.write is None` / `is False` style tests let some falsy value through and are reported.
    default = _write_default(prog, fl)
    ctx.need(default is not None and not default, "cannot determine the read-only value of self.write from FileServer.__init__")
    values = [default] + [v for v in (False, None, 0) if not any(v is w or (type(v) is type(w) and v == w) for w in [default])]
    runs = []
    for v in values:
        sc = kit.Scenario("write", bind=lambda c_, v=v: kit.K(v, taint=True) if _is_self_write(c_) else None)
        runs.append((R_.run(sc), "without write permission (self.write == %r)" % (v,)))
    n = _check_unreachable(ctx, R_, runs, "mutating operation %s is dominated by the self.write test")
    ctx.floor("mutating sinks in FileServer", n, 5)

    # once the write flag has been consulted, the read-only side answers 4.03 Forbidden and nothing else
    tests = 0
    for fi in R_.external_entries():
        if not R_.reaches_sink(R_.base, fi):
            continue
        outs = [(k, v, st) for sx, _ in runs for k, v, st in sx.outcomes[fi.qn] if "used:write" in st.flags and "via_exc" not in st.flags]
        if not outs:
            continue
        tests += 1
        ok = all(_outcome_responds_with(prog, fi, k, v, {"FORBIDDEN"}) for k, v, st in outs)
        ctx.ob("without write permission the method answers 4.03 Forbidden", ok, fi, fi.node,
               construct="%s: not self.write" % fi.name,
               detail="exits on the read-only side: %s" % "; ".join(sorted({"%s %s" % (k, _short_val(v)) for k, v, st in outs})))
    ctx.floor("self.write tests in mutating methods", tests, 1)

    # self.write is configuration: assigned in __init__ only
    writers = []
    for fi in fl.funcs:
        for kind, node in stores_to(fi.node, "self.write"):
            writers.append((fi, node))
    ctx.floor("assignments of self.write", len(writers), 1)
    for fi, node in writers:
        ctx.ob("self.write is assigned only in __init__", fi.name == "__init__" and fi.cls is not None, fi, node)


def _is_self_write(c_):
    return c_ == "self.write"


def _plain(v):
    """text of a symbolic value without the executor's program-point markers (stable finding keys)"""
    import re
    t = stmt_text(v, 400)
    t = re.sub(r"\$(call|await|read)@[^(]*\(", "(", t)
    t = re.sub(r"\$\w+@[\w.<>]*:\d+:\w+", "<value>", t)
    return t if len(t) <= 140 else t[:137] + "..."


def _short_val(v):
    if v is None:
        return "<exception>"
    p = kit.opaque_parts(v)
    if p is not None:
        return "%s(%s)" % (stmt_text(p[0], 40), ", ".join("%s=%s" % (k.arg, stmt_text(k.value, 30)) for k in p[2]))
    return stmt_text(v, 60)


def _write_default(prog, fl):
    """The value self.write has unless the application passes something else: the default of the __init__
    parameter it is assigned from (evaluated by the checker's own evaluator)."""
    init = fl.ci.methods.get("__init__")
    if init is None:
        return None
    vals = [n.value for k_, n in stores_to(init.node, "self.write") if isinstance(n, ast.Assign)]
    if len(vals) != 1:
        return None
    v = resolve_local(init.node, vals[0])
    if isinstance(v, ast.Name):
        sc = Scope(init)
        is_param, d = sc.param_default(v.id)
        if is_param and d is not None and not writes_to_name(init.node, v.id):
            v = d
    try:
        return kit.ceval(v)
    except (kit.Unk, kit.CRaise):
        return None


# ---------------------------------------------------------------------------
# C19.d


@R.clause("C19.d", "render_get_file: seek(block.start), read(block.size+1), more iff len(data) > block.size, payload data[:block.size], Block2 (number, more, szx)")
def d(ctx):
    """Decided on the states of the symbolic executor: in every state in which the file is read / the response is
    built, the *values* (syntax trees over the request, with locals, conditional expressions, `a or b` defaults and
    constructor fields resolved) are compared by normal form.  Which local holds the descriptor, whether the default
    is chosen by `or`, a conditional expression or an `if`, whether size/more are hoisted into locals, and whether
    the answer descriptor is built and then reset to None or only built when needed, makes no difference."""
    prog = ctx.prog
    fi = prog.func(FS + ".render_get_file")
    cfg = cfg_of(fi)
    p = params(fi)
    ctx.need(len(p) == 2, "render_get_file signature changed")
    req, path = p
    fn = fi.node

    # the file object: `with <path>.open(mode) as f`
    opens = []
    for n in walk_no_nested(fn):
        if isinstance(n, (ast.With, ast.AsyncWith)):
            for item in n.items:
                ce = item.context_expr
                if isinstance(ce, ast.Call) and isinstance(ce.func, ast.Attribute) and ce.func.attr == "open" and isinstance(item.optional_vars, ast.Name):
                    opens.append((n, ce, item.optional_vars.id))
    ctx.floor("with <path>.open(...) as f in render_get_file", len(opens), 1)
    ctx.need(len(opens) == 1, "render_get_file opens %d files; the rule expects one" % len(opens))
    wnode, ocall, fvar = opens[0]
    opened = resolve_local(fn, ocall.func.value)
    ctx.ob("the file opened is the path parameter", isinstance(opened, ast.Name) and opened.id == path and not writes_to_name(fn, path), fi, ocall)
    mode = ocall.args[0] if ocall.args else next((k.value for k in ocall.keywords if k.arg == "mode"), None)
    mv = _const_str(resolve_local(fn, mode)) if mode is not None else None
    ctx.ob("the file is opened read-only in binary mode", mv is not None and "b" in mv and "r" in mv and not any(c in mv for c in "wax+"), fi, ocall, detail="mode %r" % mv)

    seeks = [c for c, _ in find("%s.seek($*a)" % fvar, fn)]
    reads = [c for c, _ in find("%s.read($*a)" % fvar, fn)]
    ctx.floor("seek calls on the file", len(seeks), 1)
    ctx.floor("read calls on the file", len(reads), 1)
    ctx.ob("exactly one seek and one read per request", len(seeks) == 1 and len(reads) == 1, fi, reads[-1], detail="%d seek(s), %d read(s)" % (len(seeks), len(reads)))
    seek, read = seeks[0], reads[0]
    ctx.need(len(seek.args) >= 1, "seek without offset")
    sn, rn = cfg.loc1(seek), cfg.loc1(read)
    ctx.ob("the seek precedes the read on every path", cfg.dominates(sn, rn) and sn != rn and sn not in cfg.reach({rn}), fi, read)

    fl = Flow(prog)
    sx = kit.SX(prog, fl.ci, None)
    outcomes = sx.run(fi)
    N_ = Normalizer()

    def poly(e):
        try:
            return N_.poly(e) if e is not None else None
        except (norm.NormError, AnalysisError):
            return None

    def attr(b, name):
        return sx.simplify(ast.Attribute(value=b, attr=name, ctx=ast.Load()))

    def is_bt(v):
        return (getattr(v, "_cls", None) or "").endswith(".BlockwiseTuple")

    def bt_args(v):
        """the three fields of a constructed descriptor (positional or keyword), else None"""
        pr_ = kit.opaque_parts(v)
        fields = getattr(v, "_ntfields", None)
        if pr_ is None or not is_bt(v) or not fields or len(fields) != 3:
            return None
        vals = dict(zip(fields, pr_[1]))
        for kw_ in pr_[2]:
            if kw_.arg not in fields or kw_.arg in vals:
                return None
            vals[kw_.arg] = kw_.value
        return [vals[f] for f in fields] if len(vals) == 3 and len(pr_[1]) <= 3 else None

    def descriptor_of(off):
        """the descriptor B with off == B.start (spelled as the property or as B.block_number * B.size)"""
        if off is None:
            return None
        if isinstance(off, ast.Attribute) and off.attr == "start":
            return off.value
        po = poly(off)
        for n_ in ast.walk(off):
            if isinstance(n_, ast.Attribute) and n_.attr in ("block_number", "size") and po is not None:
                X = n_.value
                want_ = poly(ast.BinOp(left=attr(X, "block_number"), op=ast.Mult(), right=attr(X, "size")))
                if want_ is not None and want_ == po:
                    return X
        return None

    def kwargs_of(pr_):
        """keywords of a constructed message; `m.opt.x = v` / `m.x = v` after construction count like `x=v`"""
        out_ = {}
        for kw_ in pr_[2]:
            if kw_.arg is not None:
                out_[kw_.arg[4:] if kw_.arg.startswith("opt.") else kw_.arg] = kw_.value
        return out_

    # --- the read: position and length, per state --------------------------------------------------
    rstates = [st for st, depth, stack in sx.visits.get((fi.qn, rn), []) if depth == 0]
    ctx.need(rstates, "the read is not reachable in render_get_file")
    descriptors = {}
    bad_seek = bad_len = None
    for st in rstates:
        off = sx.peek(fi, sn, seek.args[0], st)
        ln = sx.peek(fi, rn, read.args[0], st) if len(read.args) == 1 else None
        B = descriptor_of(off)
        if B is None or len(seek.args) != 1 or seek.keywords:
            bad_seek = bad_seek or "offset = %s" % (stmt_text(off, 80) if off is not None else "?")
            continue
        descriptors.setdefault(kit.T(B), B)
        want = poly(attr(B, "size"))
        if ln is None or want is None or poly(ln) != want + Poly.const(1):
            bad_len = bad_len or "length = %s for the descriptor %s" % (stmt_text(ln, 60) if ln is not None else "?", _short_val(B))
    ctx.ob("the read position is block.start", bad_seek is None, fi, seek, detail=bad_seek)
    ctx.ob("one byte more than the block size is read", bad_len is None, fi, read, detail=bad_len)

    # --- the descriptor: the request's Block2 option, or a constant default starting at block 0 ------
    for txt, B in sorted(descriptors.items()):
        if chain(B) == "%s.opt.block2" % req:
            ctx.ob("the block descriptor is the request's Block2 option (or a default)", True, fi, seek, construct="descriptor %s" % txt)
            continue
        ba = bt_args(B)
        isdef = ba is not None and all(_num_const(a) is not None for a in ba)
        ctx.ob("the block descriptor is the request's Block2 option (or a default)", isdef, fi, seek,
               construct="descriptor %s" % _plain(B), detail=None if isdef else "descriptor value: %s" % _plain(B))
        if isdef:
            a0, a1, a2 = [_num_const(a) for a in ba]
            ctx.ob("the default descriptor starts at block 0", a0 == 0 and a1 == 0 and 0 <= a2 <= 6, fi, seek, construct="default %s" % _plain(B))

    # --- the response ----------------------------------------------------------------------------------
    msgs = []
    for kind, val, st in outcomes:
        if kind != "return" or "via_exc" in st.flags:
            continue
        pr = kit.opaque_parts(val)
        if pr is not None and "payload" in kwargs_of(pr):
            msgs.append((val, pr, st))
    ctx.floor("response messages built in render_get_file", len(msgs), 1)
    rets = [n for n in walk_no_nested(fn) if isinstance(n, ast.Return) and n.value is not None]
    anchor = rets[-1] if rets else fn
    bad = {"payload": None, "b2": None, "num": None, "more": None, "szx": None, "omit": None}
    ntuples = 0
    for val, pr, st in msgs:
        kw = kwargs_of(pr)
        off = sx.peek(fi, sn, seek.args[0], st)
        B = descriptor_of(off)
        if B is None:
            # reported above; still count the descriptor so that the floor below is about the code, not the verdict
            b2_ = kw.get("block2")
            ntuples += 1 if (b2_ is not None and bt_args(b2_) is not None) else 0
            continue
        size = attr(B, "size")
        pl = kw["payload"]
        X = pl.value if isinstance(pl, ast.Subscript) else None
        okp = (X is not None and isinstance(pl.slice, ast.Slice) and kit.marker_node(X) == rn and (pl.slice.lower is None or _int_const(pl.slice.lower) == 0)
               and pl.slice.step is None and pl.slice.upper is not None and poly(pl.slice.upper) is not None and poly(pl.slice.upper) == poly(size))
        if not okp:
            bad["payload"] = bad["payload"] or "payload = %s" % stmt_text(pl, 100)
        # the data read, as a value
        data = X if (X is not None and kit.marker_node(X) == rn) else None
        more_ref = None
        if data is not None:
            more_ref = ast.Compare(left=ast.Call(func=ast.Name(id="len", ctx=ast.Load()), args=[data], keywords=[]), ops=[ast.Gt()], comparators=[size])
        b2 = kw.get("block2")
        if b2 is None:
            bad["b2"] = bad["b2"] or "<absent>"
            continue
        if isinstance(b2, ast.Constant) and b2.value is None:
            zero = sx.tv(ast.Compare(left=attr(B, "block_number"), ops=[ast.Eq()], comparators=[ast.Constant(value=0)]), st)
            more = sx.tv(more_ref, st) if more_ref is not None else None
            if more is None and more_ref is not None:
                # the same condition spelled `len(data) == n + 1` (at most n + 1 bytes are read)
                more = sx.tv(ast.Compare(left=more_ref.left, ops=[ast.Eq()], comparators=[ast.BinOp(left=size, op=ast.Add(), right=ast.Constant(value=1))]), st)
            if not (zero is True and more is False):
                bad["omit"] = bad["omit"] or "omitted on the path [%s] (block number is 0: %s, more data: %s)" % (st.describe(), zero, more)
            continue
        ba = bt_args(b2)
        if ba is None:
            bad["b2"] = bad["b2"] or stmt_text(b2, 100)
            continue
        ntuples += 1
        if kit.T(ba[0]) != kit.T(attr(B, "block_number")):
            bad["num"] = bad["num"] or "number = %s" % stmt_text(ba[0], 60)
        if kit.T(ba[2]) != kit.T(attr(B, "size_exponent")):
            bad["szx"] = bad["szx"] or "size exponent = %s" % stmt_text(ba[2], 60)
        # read(n + 1) returns at most n + 1 bytes, so `len(data) > n` and `len(data) == n + 1` are the same condition
        more_eq = None
        if more_ref is not None:
            more_eq = ast.Compare(left=more_ref.left, ops=[ast.Eq()], comparators=[ast.BinOp(left=size, op=ast.Add(), right=ast.Constant(value=1))])
        got_more = ba[1].args[0] if isinstance(ba[1], ast.Call) and chain(ba[1].func) == "bool" and len(ba[1].args) == 1 else ba[1]
        if more_ref is None or kit.akey(got_more) not in (kit.akey(more_ref), kit.akey(more_eq)):
            bad["more"] = bad["more"] or "more = %s" % stmt_text(ba[1], 80)
    ctx.floor("answer Block2 descriptors", ntuples, 1)
    ctx.ob("the payload is data[:block.size]", bad["payload"] is None, fi, anchor, detail=bad["payload"], construct="payload of the response")
    ctx.ob("the Block2 option of the answer is the descriptor computed from the read", bad["b2"] is None, fi, anchor, detail=bad["b2"], construct="block2 of the response")
    ctx.ob("the answer carries the requested block number", bad["num"] is None, fi, anchor, detail=bad["num"], construct="block2.block_number of the response")
    ctx.ob("more is set exactly when more than block.size bytes could be read", bad["more"] is None, fi, anchor, detail=bad["more"], construct="block2.more of the response")
    ctx.ob("the answer carries the requested size exponent", bad["szx"] is None, fi, anchor, detail=bad["szx"], construct="block2.size_exponent of the response")
    ctx.ob("the Block2 option is only omitted for a complete body in block 0", bad["omit"] is None, fi, anchor, detail=bad["omit"], construct="block2=None")

    # BlockwiseTuple.start == block_number * size
    bt = prog.cls("optiontypes.BlockOption.BlockwiseTuple")
    sfi = bt.methods.get("start")
    ctx.need(sfi is not None, "BlockwiseTuple.start missing")
    rets = [n for n in walk_no_nested(sfi.node) if isinstance(n, ast.Return) and n.value is not None]
    ctx.need(len(rets) == 1, "BlockwiseTuple.start is not a single-return property")
    got = Normalizer(env=norm.local_env(sfi.node)).poly(rets[0].value)
    ctx.ob("BlockwiseTuple.start == block_number * size", got == Poly.atom("self.block_number") * Poly.atom("self.size"), sfi, rets[0], detail="start = %r" % got)


# ---------------------------------------------------------------------------
# C19.e


def _handler_catches(prog, h, exc="FileNotFoundError"):
    if h.type is None:
        return True
    types = h.type.elts if isinstance(h.type, ast.Tuple) else [h.type]
    for t in types:
        txt = chain(t)
        if not txt:
            continue
        last = txt.split(".")[-1]
        if last in ("IOError", "EnvironmentError"):
            last = "OSError"
        if prog.is_subclass(exc, last):
            return True
    return False


@R.clause("C19.e", "InvalidPathError and the trailing-slash errors are 4.00; FileNotFoundError of the first stat/unlink is mapped to 4.04/4.12")
def e(ctx):
    prog = ctx.prog
    # (1) the sanitiser only ever fails with a 4.00 renderable error
    sfi = prog.func(FS + "." + SANITISER)
    EA = EscapeAnalysis(prog)
    esc = EA.escapes(sfi)
    explicit = [n for n in walk_no_nested(sfi.node) if isinstance(n, ast.Raise)]
    ctx.floor("raise statements in request_to_localpath", len(explicit), 1)
    ctx.floor("escapes of request_to_localpath", len(esc), 1)
    for x in sorted(esc, key=repr):
        ok = x.cls in prog.classes and _is_renderable(prog, x.cls) and _class_code(prog, x.cls) == "BAD_REQUEST"
        ctx.ob("a rejected path is answered with 4.00 Bad Request", ok, sfi, None, detail="escape %r" % (x,), construct="raise %s" % x.cls.split(".")[-1])
    ctx.extra["c19_sanitiser_escapes"] = [repr(x) for x in sorted(esc, key=repr)]
    for name in ("InvalidPathError", "TrailingSlashMissingError", "AbundantTrailingSlashError"):
        ci = prog.cls("cli.fileserver." + name)
        ok = _is_renderable(prog, ci.qn) and _class_code(prog, ci.qn) == "BAD_REQUEST"
        ctx.ob("%s is a renderable 4.00 error" % name, ok, None, None, construct="class %s" % name,
               detail="mro %s, code %s" % ([q.split(".")[-1] for q in prog.mro(ci.qn)], _class_code(prog, ci.qn)))
    # the trailing-slash errors are what the directory/file mismatch raises
    for meth in ("render_get_dir", "render_get_file"):
        fi = prog.func(FS + "." + meth)
        raises = [n for n in walk_no_nested(fi.node) if isinstance(n, ast.Raise) and n.exc is not None]
        for rz in raises:
            q = _exc_class_qn(prog, fi, rz.exc)
            ctx.ob("%s rejects a mismatching trailing slash with a 4.xx renderable error" % meth,
                   q is not None and _is_renderable(prog, q) and (_class_code(prog, q) or "") in FOUR_XX, fi, rz)

    # (2) first stat/unlink of a request maps FileNotFoundError to 4.04 (4.12 for a failed precondition)
    fl = Flow(prog)
    n = total = 0
    for fi in fl.funcs:
        if fi.cls is None or not fi.name.startswith("render_"):
            continue
        cfg = cfg_of(fi)
        scope = _scopes(fi)[0]
        sinks = [(call, label) for call, paths, mut, label in fl.sinks(scope)]
        # calls of helpers of the class that contain sinks themselves count as sinks here (one level)
        # -- called directly, or handed over as a callable (method reference, closure, lambda, functools.partial of
        # these) to a call that runs it: run_in_executor(None, self.m, a) / to_thread(job) are the same fact as m(a)
        def _callee_with_sinks(x, depth=0):
            x = resolve_local(fi.node, x)
            if isinstance(x, ast.Attribute) and isinstance(x.value, ast.Name) and x.value.id == _self_name(fi):
                m = fl.ci.methods.get(x.attr)
                return m is not None and not _is_sanitiser(m) and bool(fl.sinks(_scopes(m)[0]))
            if isinstance(x, ast.Name):
                return any(f.parent is fi and f.name == x.id and fl.sinks(_scopes(f)[0]) for f in fl.funcs)
            if isinstance(x, ast.Lambda):
                return any(sc.lam is x and fl.sinks(sc) for sc in _scopes(fi))
            if isinstance(x, ast.Call) and (chain(x.func) or "").split(".")[-1] == "partial" and x.args and depth < 3:
                return _callee_with_sinks(x.args[0], depth + 1)
            return False

        for nd in _scope_nodes(scope):
            if isinstance(nd, ast.Call) and (_callee_with_sinks(nd.func) or any(_callee_with_sinks(a) for a in nd.args)):
                sinks.append((nd, "helper"))
        sink_nodes = {id(call): set(cfg.locate(call)) for call, _ in sinks}
        # a helper whose every call site is preceded by a successful sink needs no mapping of its own
        sites = fl.call_sites(fi.name)
        covered_by_caller = bool(sites) and all(
            s.lam is None and any(
                cfg_of(s.fi).dominates(x, y) and x != y
                for c2, *_ in fl.sinks(_scopes(s.fi)[0]) for x in cfg_of(s.fi).locate(c2) for y in cfg_of(s.fi).locate(getattr(cs, "_via", cs)))
            for s, cs in sites)
        for call, label in sinks:
            if label not in (".stat()", ".unlink()"):
                continue
            nids = cfg.locate(call)
            total += len(nids)
            for nid in nids:
                dominated = covered_by_caller or any(
                    o is not call and any(cfg.dominates(x, nid) and x != nid and not _exc_only(cfg, x, nid) for x in sink_nodes[id(o)])
                    for o, _ in sinks)
                if dominated:
                    continue
                n += 1
                hs = [cfg.nodes[d] for d, lab in cfg.succ[nid] if lab == "exc" and d != cfg.rexit]
                hs = [h for h in hs if h.kind == "handler" and _handler_catches(prog, h.ast)]
                ok = bool(hs)
                detail = "no enclosing handler for FileNotFoundError"
                if ok:
                    h = hs[0]
                    reach = cfg.reach({h.id}, skip_labels=("exc",))
                    exits = [cfg.nodes[x] for x in reach if cfg.nodes[x].kind in ("return", "raise")]
                    falls = cfg.exit in cfg.reach({h.id}, avoid={x.id for x in exits}, skip_labels=("exc",))
                    ok = bool(exits) and not falls and all(_responds_with(prog, fi, x.ast, {"NOT_FOUND", "PRECONDITION_FAILED"}) for x in exits)
                    detail = "handler exits: %s" % "; ".join(stmt_text(x.ast, 60) for x in exits)
                ctx.ob("a missing file at the first %s of the request is answered with 4.04 (4.12 under If-Match)" % label, ok, fi, call, detail=detail)
    ctx.floor("stat/unlink sinks in render_* methods", total, 5)
    ctx.floor("stat/unlink probes not preceded by another sink in render_* methods", n, 1)


FOUR_XX = {"BAD_REQUEST", "UNAUTHORIZED", "BAD_OPTION", "FORBIDDEN", "NOT_FOUND", "METHOD_NOT_ALLOWED", "NOT_ACCEPTABLE",
           "REQUEST_ENTITY_INCOMPLETE", "CONFLICT", "PRECONDITION_FAILED", "REQUEST_ENTITY_TOO_LARGE",
           "UNSUPPORTED_CONTENT_FORMAT", "UNPROCESSABLE_ENTITY", "TOO_MANY_REQUESTS"}


def _exc_only(cfg, a, b):
    """b is reachable from a only through a's own failure (b sits in a handler of a's exception)."""
    starts = {d for d, lab in cfg.succ[a] if lab != "exc"}
    return b not in cfg.reach(starts, include_src=True)


# ---------------------------------------------------------------------------
@R.clause("C19.f", "the root directory itself is never a target of PUT or DELETE: every mutating sink is dominated by a test that the Uri-Path is not empty")
def f_not_root(ctx):
    """Added after an independently written breaking change folded the trailing-slash tests into a helper
    `uri_path[-1:] == ("",)`, which is False for the *empty* Uri-Path: PUT then spooled its temporary file into the
    parent of the served directory (outside the root) and, with the root given through a symlink, replaced or
    deleted that directory entry.  With an empty path request_to_localpath returns self.root itself, whose parent
    and whose own directory entry lie outside the root.

    Decided by executing the class under the scenario "the request's Uri-Path is ()" (every expression over the
    path is then a constant the checker's own evaluator folds: truthiness, len(), ==, [-1:], any()/all(), loops
    over it run zero times, [-1] raises IndexError) and requiring that no mutating sink is reachable."""
    prog = ctx.prog
    fl = Flow(prog)
    R_ = Reach(prog, fl)
    sc = kit.Scenario("emptypath", bind=lambda c_: kit.K((), taint=True) if c_.endswith(".opt.uri_path") and c_.count(".") == 2 else None)
    sx = R_.run(sc)
    n = _check_unreachable(ctx, R_, [(sx, "with an empty Uri-Path")],
                           "mutating operation %s is reached only for a non-empty Uri-Path (never for the root directory itself)", kinds=("sink",))
    ctx.floor("mutating sinks in FileServer", n, 4)


F = "aiocoap/cli/fileserver.py"
# C19.a
R.seed("C19.a", F, "            path.unlink()\n", "            (self.root / \"/\".join(request.opt.uri_path)).unlink()\n", "sink fed from request.opt.uri_path directly")
R.seed("C19.a", F, "        path = self.request_to_localpath(request)\n        try:\n            st = path.stat()\n        except FileNotFoundError:\n            raise NoSuchFile()\n\n        etag",
       "        path = self.root / \"/\".join(request.opt.uri_path)\n        try:\n            st = path.stat()\n        except FileNotFoundError:\n            raise NoSuchFile()\n\n        etag", "render_get bypasses the sanitiser")
R.seed("C19.a", F, "self._observations.setdefault(path, [None, []])", "self._observations.setdefault(Path(*request.opt.uri_path), [None, []])", "unsanitised key later stat()ed by the refresh loop")
R.seed("C19.a", F, "response = await self.render_get_file(request, path)", "response = await self.render_get_file(request, Path(\"/\".join(request.opt.uri_path)))", "helper parameter bound to an unsanitised value")
R.seed("C19.a", F, "tempfile.NamedTemporaryFile(dir=path.parent, delete=False)", "tempfile.NamedTemporaryFile(delete=False)", "spool file in the system temp directory")
R.seed("C19.a", F, "            temppath.rename(path)\n", "            temppath.rename(self.root / request.opt.uri_path[-1])\n", "rename target not sanitised")
# C19.b
R.seed("C19.b", F, "p in (\".\", \"..\") for p in path", "p in (\".\",) for p in path", "'..' no longer refused")
R.seed("C19.b", F, "p in (\".\", \"..\") for p in path", "p in (\"..\",) for p in path", "'.' no longer refused")
R.seed("C19.b", F, "if any(\"/\" in p or p in (\".\", \"..\") for p in path):", "if any(p in (\".\", \"..\") for p in path):", "'/' test dropped")
R.seed("C19.b", F, "p in (\".\", \"..\") for p in path):", "p in (\".\", \"..\") for p in path[1:]):", "first component not validated")
R.seed("C19.b", F, "        if \"\" in path[:-1]:\n", "        if \"\" in path[1:-1]:\n", "leading empty component slips through (applies to the repaired tree)")
R.seed("C19.b", F, "        if \"\" in path[:-1]:\n", "        if \"\" in path[:-1] and False:\n", "absolute-join guard disabled (applies to the repaired tree)")
R.seed("C19.b", F, "        if any(\"/\" in p or p in (\".\", \"..\") for p in path):\n            raise InvalidPathError()\n", "        assert not any(\"/\" in p or p in (\".\", \"..\") for p in path)\n", "guard turned into an assert")
# C19.c
R.seed("C19.c", F, "    async def render_delete(self, request):\n        if not self.write:\n            return aiocoap.Message(code=codes.FORBIDDEN)\n", "    async def render_delete(self, request):\n", "write guard removed from render_delete")
R.seed("C19.c", F, "    async def render_put(self, request):\n        if not self.write:\n            return aiocoap.Message(code=codes.FORBIDDEN)", "    async def render_put(self, request):\n        if not self.write:\n            self.log.warning(\"read-only\")", "read-only PUT falls through to the write")
R.seed("C19.c", F, "    async def render_delete(self, request):\n        if not self.write:\n            return aiocoap.Message(code=codes.FORBIDDEN)", "    async def render_delete(self, request):\n        if not self.write:\n            return aiocoap.Message(code=codes.DELETED)", "wrong code on the read-only side")
R.seed("C19.c", F, "    async def render_put(self, request):\n        if not self.write:", "    async def render_put(self, request):\n        if self.write is None:", "test no longer on the truth of self.write")
R.seed("C19.c", F, "        self.log.info(\"Serving directory %s\", path)\n", "        self.log.info(\"Serving directory %s\", path)\n        (path / \".visited\").touch()\n", "mutation in a GET helper")
# C19.d
R.seed("C19.d", F, "data = f.read(block_in.size + 1)", "data = f.read(block_in.size)", "more can never be detected")
R.seed("C19.d", F, "f.seek(block_in.start)", "f.seek(block_in.block_number)", "seek to the block number instead of the byte offset")
R.seed("C19.d", F, "block_in.block_number, len(data) > block_in.size, block_in.size_exponent", "block_in.block_number, len(data) >= block_in.size, block_in.size_exponent", "more set on an exactly filled last block")
R.seed("C19.d", F, "payload=data[: block_in.size],", "payload=data,", "the look-ahead byte is sent")
R.seed("C19.d", F, "with path.open(\"rb\") as f:", "with path.open(\"r\") as f:", "text mode")
R.seed("C19.d", F, "if block_out.block_number == 0 and block_out.more is False:", "if block_out.block_number == 0:", "Block2 dropped although more blocks follow")
# C19.e
R.seed("C19.e", F, "class InvalidPathError(error.ConstructionRenderableError):\n    code = codes.BAD_REQUEST", "class InvalidPathError(error.ConstructionRenderableError):\n    code = codes.INTERNAL_SERVER_ERROR", "hostile path answered 5.00")
R.seed("C19.e", F, "class InvalidPathError(error.ConstructionRenderableError):\n    code = codes.BAD_REQUEST", "class InvalidPathError(ValueError):\n    code = codes.BAD_REQUEST", "not renderable")
R.seed("C19.e", F, "            path.unlink()\n        except FileNotFoundError:", "            path.unlink()\n        except PermissionError:", "missing file on DELETE becomes 5.00")
R.seed("C19.e", F, "            st = path.stat()\n        except FileNotFoundError:\n            raise NoSuchFile()\n\n        etag", "            st = path.stat()\n        except FileNotFoundError:\n            raise\n\n        etag", "FileNotFoundError re-raised on GET")

R.seed("C19.f", F, "    async def render_put(self, request):\n        if not self.write:\n            return aiocoap.Message(code=codes.FORBIDDEN)\n\n        if not request.opt.uri_path or not request.opt.uri_path[-1]:", "    async def render_put(self, request):\n        if not self.write:\n            return aiocoap.Message(code=codes.FORBIDDEN)\n\n        if request.opt.uri_path[-1:] == (\"\",):", "PUT with an empty Uri-Path spools next to (outside) the root")

# seeds for the scenario-based clauses (generalised spellings must still be refuted)
R.seed("C19.b", F, "        if \"\" in path[:-1]:\n", "        if \"//\" in \"/\".join(path):\n", "empty components looked for as '//' in the joined string: a single leading one ('', 'etc') is missed (witness evaluated concretely)")
R.seed("C19.b", F, "p in (\".\", \"..\") for p in path):", "p in (\".\", \"..\") for p in path[:-1]):", "last component not validated")
R.seed("C19.b", F, "        if any(\"/\" in p or p in (\".\", \"..\") for p in path):\n            raise InvalidPathError()\n",
       "        for p in path:\n            if p.startswith(\"_\"):\n                break\n            if \"/\" in p or p in (\".\", \"..\"):\n                raise InvalidPathError()\n", "validation loop left early: later components unchecked")
R.seed("C19.c", F, "    async def render_delete(self, request):\n        if not self.write:", "    async def render_delete(self, request):\n        if self.write is False:", "a falsy write flag other than False (None, 0) deletes")
R.seed("C19.c", F, "    async def render_delete(self, request):\n        if not self.write:",
       "    async def render_delete(self, request):\n        asyncio.get_event_loop().call_soon(lambda: self.request_to_localpath(request).unlink())\n        if not self.write:", "deleting callable created and scheduled before the write test")
R.seed("C19.d", F, "            0, 0, 6\n", "            1, 0, 6\n", "default descriptor starts at block 1")
R.seed("C19.d", F, "block_in.block_number, len(data) > block_in.size, block_in.size_exponent", "block_in.block_number, len(data) == block_in.size, block_in.size_exponent", "more set on exactly filled blocks only")
R.seed("C19.f", F, "        if not request.opt.uri_path or not request.opt.uri_path[-1]:\n            # Deleting", "        if request.opt.uri_path and not request.opt.uri_path[-1]:\n            # Deleting", "DELETE with an empty Uri-Path unlinks the root's own directory entry")
