"""Helpers of rules/c06.py: a small symbolic path executor.

`SymExec(prog, fi).paths(...)` walks the CFG of ONE function (nothing is executed;
conditions are uninterpreted) and yields one `SPath` per consistent combination
of branch outcomes.  Along a path

* locals are forward-substituted (`env`), also when a name is assigned several
  times, in both arms of a branch, by tuple unpacking or by `+=`; attribute
  stores are remembered per chain (`self.x = v` makes a later `self.x` read `v`),
* every conditional construct is a *decision*: `if`/`while` tests, conditional
  expressions, `a or b` / `a and b` used as values, `min`/`max` of two numbers,
  and calls of side-effect-free helper functions that are not part of the
  confirmed tree (their bodies are evaluated in place, any number of returns),
* decisions are recorded in `Facts`: comparisons of polynomials are kept as
  integer intervals per non-constant part (so `a < b`, `b > a`, `not a >= b`,
  `a <= b - 1` are one fact and `a < b`, `a >= b + 3` cannot both be taken),
  everything else as truth values of normalised atoms (`is`/`==`, `is not`/`!=`,
  `in (A, B)` == `== A or == B`),
* the effects are recorded as events (bindings, attribute / item stores,
  deletions, expression statements, tests, returns, raises, handled exceptions)
  together with the environment in force, so that a rule can ask "what is the
  value of this argument here" and "which facts hold here" instead of looking at
  the shape of the surrounding statements.

Rules then quantify over paths: `sx.entails(path.facts, cond)` (cond holds in
every refinement of the path's facts), `sx.decide(cond, facts)` (all consistent
outcomes), `sx.calls(path)` (call sites executed on the path with resolved
callee and arguments).
"""

import ast
import math
from fractions import Fraction

from ..model import AnalysisError
from ..cfg import cfg_of
from ..pat import chain
from ..norm import Normalizer, Poly, NormError
from ..inline import baseline

INF = float("inf")
NORET = object()

MUTABLE_CTORS = {"list", "dict", "set", "bytearray", "collections.OrderedDict", "collections.defaultdict", "collections.deque", "OrderedDict", "defaultdict", "deque"}


def txt(e):
    return " ".join(ast.unparse(e).split())


def parse(src):
    return ast.parse(src, mode="eval").body


class Facts:
    """Conjunction of decided atoms.  Immutable: `assume` returns a new object or None (inconsistent)."""

    __slots__ = ("atoms", "iv")

    def __init__(self, atoms=None, iv=None):
        self.atoms = atoms or {}
        self.iv = iv or {}

    def describe(self):
        out = []
        for k, v in sorted(self.atoms.items(), key=repr):
            out.append(("" if v else "not ") + (" ".join(str(x) for x in (k[1:] if k[0] in ("truth", "expr") else (k[1], k[0], k[2]))) if isinstance(k, tuple) else str(k)))
        for k, (lo, hi, ex, label) in sorted(self.iv.items(), key=repr):
            text, pos, neg = label
            inner = text[4:-1] if text.startswith("len(") and text.endswith(")") and _balanced(text[4:-1]) else None
            if inner is not None and not ex and (lo, hi) in ((1, INF), (0, 0)):
                out.append(("" if lo else "not ") + inner)
                continue
            if inner is not None and lo == 0 and hi != 0:
                lo = -INF
            if pos is not None:  # q = pos - neg
                if lo == hi == 0:
                    out.append("%s == %s" % (pos, neg))
                    continue
                if (lo, hi) == (-INF, INF) and ex == {0}:
                    out.append("%s != %s" % (pos, neg))
                    continue
                if not ex and hi == INF and lo in (0, 1):
                    out.append("%s %s %s" % (pos, ">=" if lo == 0 else ">", neg))
                    continue
                if not ex and lo == -INF and hi in (0, -1):
                    out.append("%s %s %s" % (pos, "<=" if hi == 0 else "<", neg))
                    continue
            if lo == hi:
                out.append("%s == %s" % (text, lo))
                continue
            if lo != -INF:
                out.append("%s >= %s" % (text, lo))
            if hi != INF:
                out.append("%s <= %s" % (text, hi))
            for x in sorted(ex):
                out.append("%s != %s" % (text, x))
        return ", ".join(out) or "<unconditional>"


def _balanced(t):
    d = 0
    for ch in t:
        if ch == "(":
            d += 1
        elif ch == ")":
            d -= 1
            if d < 0:
                return False
    return d == 0


def _split(p):
    """poly p -> (qkey, q, sign, c) with p = sign*q + c, q sign-normalised and constant free; qkey None when p is constant."""
    c = p.t.get((), Fraction(0))
    q = Poly({k: v for k, v in p.t.items() if k != ()})
    if not q.t:
        return None, q, 1, c
    first = sorted(q.t.items())[0][1]
    s = 1
    if first < 0:
        q = -q
        s = -1
    return q.key(), q, s, c


def _default_iv(q, domains=None):
    """what is known about the value of q without any decision: lengths are non-negative, declared integer domains"""
    lo, hi = -INF, INF
    if len(q.t) == 1:
        (mono, coef), = q.t.items()
        if coef == 1 and len(mono) == 1 and mono[0][1] == 1:
            if mono[0][0].startswith("len("):
                lo = 0
            elif domains and mono[0][0] in domains:
                lo, hi = domains[mono[0][0]]
    pos = neg = None
    if len(q.t) == 2 and sorted(q.t.values()) == [-1, 1]:
        for mono, coef in q.t.items():
            name = "*".join(a if p_ == 1 else "%s^%d" % (a, p_) for a, p_ in mono)
            if coef == 1:
                pos = name
            else:
                neg = name
    return (lo, hi, frozenset(), (repr(q), pos, neg))


class Ev:
    """One effect on a path."""

    __slots__ = ("kind", "nid", "node", "target", "key", "value", "env", "chains", "facts", "outcome", "raw")

    def __init__(self, kind, nid, node, env, chains, facts, target=None, key=None, value=None, outcome=None, raw=None):
        self.kind = kind  # bind store setitem del delitem expr test ret raise exc handler for def
        self.nid = nid
        self.node = node  # statement / test AST (original)
        self.target = target  # resolved target (store: attribute expr; setitem/delitem: container expr; bind: name)
        self.key = key  # resolved subscript key (setitem / delitem)
        self.value = value  # resolved value
        self.env = env
        self.chains = chains
        self.facts = facts  # facts in force when the effect happens
        self.outcome = outcome
        self.raw = raw  # original expression whose call sites belong to this event

    def __repr__(self):
        return "<%s %s>" % (self.kind, txt(self.node)[:60] if isinstance(self.node, ast.AST) else self.node)


class SPath:
    __slots__ = ("nodes", "events", "facts", "env", "chains", "end", "ret", "objs", "defs")

    def __init__(self, nodes, events, facts, env, chains, end, ret, objs, defs):
        self.nodes = nodes
        self.events = events
        self.facts = facts
        self.env = env
        self.chains = chains
        self.end = end  # return | fall | raise | cut
        self.ret = ret  # resolved return value (None when falling off the end)
        self.objs = objs  # local name -> creating expression of a mutable object (names kept symbolic)
        self.defs = defs  # local name -> nested FunctionDef

    def evs(self, *kinds):
        return [e for e in self.events if e.kind in kinds]

    def raised(self):
        """the raise event that ends the path, or None"""
        if self.end != "raise":
            return None
        for e in reversed(self.events):
            if e.kind == "raise":
                return e
        return None


class _State:
    __slots__ = ("env", "chains", "facts", "events", "nodes", "cnt", "ret", "objs", "defs", "fresh")

    def __init__(self, env, chains, facts, events, nodes, cnt, ret, objs, defs, fresh):
        self.env, self.chains, self.facts, self.events, self.nodes = env, chains, facts, events, nodes
        self.cnt, self.ret, self.objs, self.defs, self.fresh = cnt, ret, objs, defs, fresh

    def but(self, **kw):
        s = _State(self.env, self.chains, self.facts, self.events, self.nodes, self.cnt, self.ret, self.objs, self.defs, self.fresh)
        for k, v in kw.items():
            setattr(s, k, v)
        return s


class _Subst(ast.NodeTransformer):
    """Replace free local names (and stored attribute chains) by their resolved values.  Never mutates the input."""

    def __init__(self, env, chains, bound=frozenset()):
        self.env = env
        self.chains = chains
        self.bound = bound

    def generic_visit(self, node):
        # non-destructive generic_visit
        changes = {}
        for field, old in ast.iter_fields(node):
            if isinstance(old, list):
                new = []
                ch = False
                for x in old:
                    if isinstance(x, ast.AST):
                        y = self.visit(x)
                        ch = ch or (y is not x)
                        new.append(y)
                    else:
                        new.append(x)
                if ch:
                    changes[field] = new
            elif isinstance(old, ast.AST):
                y = self.visit(old)
                if y is not old:
                    changes[field] = y
        if not changes:
            return node
        kw = dict(ast.iter_fields(node))
        kw.update(changes)
        n = type(node)(**kw)
        return ast.copy_location(n, node)

    def visit_Name(self, n):
        if n.id in self.bound or not isinstance(n.ctx, ast.Load):
            return n
        v = self.env.get(n.id)
        return n if v is None else v

    def visit_Attribute(self, n):
        if self.chains:
            c = chain(n)
            if c is not None and c in self.chains and c.split(".")[0] not in self.bound:
                return self.chains[c]
        return self.generic_visit(n)

    def visit_Lambda(self, n):
        a = n.args
        b = {x.arg for x in a.posonlyargs + a.args + a.kwonlyargs}
        if a.vararg:
            b.add(a.vararg.arg)
        if a.kwarg:
            b.add(a.kwarg.arg)
        # the body reads its free variables when the lambda is *called* (late binding): it is left alone here and
        # resolved by `callable_body` at the event of the invocation; default values are evaluated at creation
        defaults = [self.visit(d) for d in a.defaults]
        kw_defaults = [None if d is None else self.visit(d) for d in a.kw_defaults]
        if all(x is y for x, y in zip(defaults, a.defaults)) and all(x is y for x, y in zip(kw_defaults, a.kw_defaults)):
            return n
        na = ast.arguments(posonlyargs=a.posonlyargs, args=a.args, vararg=a.vararg, kwonlyargs=a.kwonlyargs, kw_defaults=kw_defaults, kwarg=a.kwarg, defaults=defaults)
        return ast.copy_location(ast.Lambda(args=na, body=n.body), n)

    def _comp(self, n):
        b = set()
        for g in n.generators:
            for x in ast.walk(g.target):
                if isinstance(x, ast.Name):
                    b.add(x.id)
        sub = _Subst(self.env, self.chains, self.bound | b)
        return _Subst.generic_visit(sub, n)

    visit_ListComp = visit_SetComp = visit_DictComp = visit_GeneratorExp = _comp


def free_of_forks(e, sx=None):
    """no conditional expression, boolean operator, min/max or helper call (evaluated in place) inside e"""
    for n in _walk_values(e):
        if isinstance(n, (ast.IfExp, ast.BoolOp)):
            return False
        if isinstance(n, ast.Call):
            if chain(n.func) in ("min", "max") and len(n.args) >= 2:
                return False
            if sx is not None and sx._inlinable(n):
                return False
    return True


def _walk_values(e):
    """walk an expression without entering lambdas / comprehensions"""
    todo = [e]
    while todo:
        n = todo.pop()
        yield n
        if isinstance(n, (ast.Lambda, ast.ListComp, ast.SetComp, ast.DictComp, ast.GeneratorExp)):
            continue
        todo.extend(ast.iter_child_nodes(n))


class SymExec:
    def __init__(self, prog, fi, loop_bound=1, include_exc=True, max_paths=4000, inline_depth=3, _depth=0):
        self.prog = prog
        self.fi = fi
        self.cfg = cfg_of(fi) if fi is not None else None
        self.loop_bound = loop_bound
        self.include_exc = include_exc
        self.max_paths = max_paths
        self.N = Normalizer()
        self.inline_depth = inline_depth
        self._depth = _depth
        self._defs_now = {}
        self._env_now = {}
        self._inl_cache = {}
        # expression texts X whose value is None or a non-empty tuple: truth(X) is the same fact as `X is not None`
        self.nonempty_when_set = set()
        # attribute chain text -> (lo, hi): integer-valued expressions with a known range; their truth is `!= 0`
        self.domains = {}
        self.inlined = []  # qualified names of helpers evaluated in place

    # ------------------------------------------------------------------ atoms
    def _atom(self, e):
        """classify a fork-free atomic condition:
        ('const', bool) | ('iv', qkey, q, sign, c, op) with op in lt/eq/ne | ('bool', key, polarity)"""
        if isinstance(e, ast.Constant):
            return ("const", bool(e.value))
        if isinstance(e, (ast.Tuple, ast.List, ast.Set)):
            return ("const", bool(e.elts))
        if isinstance(e, ast.Dict):
            return ("const", bool(e.keys))
        if isinstance(e, ast.Compare) and len(e.ops) == 1:
            op = e.ops[0]
            l, r = e.left, e.comparators[0]
            if isinstance(op, (ast.Is, ast.IsNot)):
                op = ast.Eq() if isinstance(op, ast.Is) else ast.NotEq()
                e = ast.Compare(left=l, ops=[op], comparators=[r])
            if isinstance(op, (ast.In, ast.NotIn)):
                return ("bool", ("in", txt(l), txt(r)), isinstance(op, ast.In))
            try:
                c = self.N.cmp(e)
            except NormError:
                c = None
            if c is not None and c[0] in ("lt", "eq", "ne") and isinstance(c[1], Poly):
                qk, q, s, k = _split(c[1])
                if qk is None:
                    if c[0] == "lt":
                        return ("const", k < 0)
                    return ("const", (k == 0) == (c[0] == "eq"))
                return ("iv", qk, q, s, k, c[0])
            if c is not None and c[0] in ("eq", "ne"):
                a, b = sorted([c[1], c[2]])
                return ("bool", ("eq", a, b), c[0] == "eq")
            return ("bool", ("expr", txt(e)), True)
        if isinstance(e, ast.Call) and chain(e.func) == "bool" and len(e.args) == 1 and not e.keywords:
            return self._atom(e.args[0])
        if txt(e) in self.domains:
            return self._atom(ast.Compare(left=e, ops=[ast.NotEq()], comparators=[ast.Constant(value=0)]))
        if txt(e) in self.nonempty_when_set:
            return self._atom(ast.Compare(left=e, ops=[ast.IsNot()], comparators=[ast.Constant(value=None)]))
        # truth of a value is the fact `len(value) >= 1` over the opaque non-negative integer len(value): `if x`,
        # `if len(x)`, `len(x) == 0`, `len(x) > 0`, `not x` are then one family of facts.  (For values without a
        # length the symbol is merely a name for their truth.)
        if not isinstance(e, (ast.Compare, ast.BoolOp, ast.UnaryOp, ast.Lambda, ast.Await)):
            inner = e
            if isinstance(e, ast.Call) and chain(e.func) == "len" and len(e.args) == 1 and not e.keywords:
                inner = e.args[0]
            try:
                return self._atom(ast.Compare(left=ast.Call(func=ast.Name(id="len", ctx=ast.Load()), args=[inner], keywords=[]), ops=[ast.GtE()], comparators=[ast.Constant(value=1)]))
            except NormError:
                pass
        return ("bool", ("truth", txt(e)), True)

    def _eval_atom(self, a, facts):
        if a[0] == "const":
            return a[1]
        if a[0] == "bool":
            v = facts.atoms.get(a[1])
            return None if v is None else (v == a[2])
        _, qk, q, s, c, op = a
        lo, hi, ex, _label = facts.iv.get(qk) or _default_iv(q, self.domains)
        if op == "lt":
            if s > 0:  # q < -c  <=>  q <= T
                T = math.ceil(-c) - 1
                if hi <= T:
                    return True
                if lo >= T + 1:
                    return False
                return None
            B = math.floor(c) + 1  # q > c <=> q >= B
            if lo >= B:
                return True
            if hi <= B - 1:
                return False
            return None
        v = -c * s  # s*q + c == 0
        if v.denominator != 1:
            r = False
        elif v < lo or v > hi or v in ex:
            r = False
        elif lo == hi == v:
            r = True
        else:
            return None
        return r if op == "eq" else (not r)

    def _assume_atom(self, a, val, facts):
        """facts + (atom == val) or None when inconsistent"""
        cur = self._eval_atom(a, facts)
        if cur is not None:
            return facts if cur == val else None
        if a[0] == "bool":
            at = dict(facts.atoms)
            at[a[1]] = (val == a[2])
            return Facts(at, facts.iv)
        _, qk, q, s, c, op = a
        lo, hi, ex, label = facts.iv.get(qk) or _default_iv(q, self.domains)
        if op == "lt":
            if s > 0:
                T = math.ceil(-c) - 1
                if val:
                    hi = min(hi, T)
                else:
                    lo = max(lo, T + 1)
            else:
                B = math.floor(c) + 1
                if val:
                    lo = max(lo, B)
                else:
                    hi = min(hi, B - 1)
        else:
            v = -c * s
            want_eq = (op == "eq") == val
            if want_eq:
                lo = hi = int(v)
            else:
                v = int(v)
                if v == lo:
                    lo += 1
                elif v == hi:
                    hi -= 1
                else:
                    ex = ex | {v}
        while lo in ex:
            lo += 1
        while hi in ex:
            hi -= 1
        if lo > hi:
            return None
        iv = dict(facts.iv)
        iv[qk] = (lo, hi, ex, label)
        return Facts(facts.atoms, iv)

    # ------------------------------------------------------------------ decisions
    def decide(self, e, facts):
        """all consistent outcomes (truth value, refined facts) of the resolved boolean expression e"""
        if isinstance(e, ast.Constant):
            yield bool(e.value), facts
            return
        if isinstance(e, ast.BoolOp):
            is_and = isinstance(e.op, ast.And)
            vals = e.values

            def rec(i, f):
                if i == len(vals):
                    yield is_and, f
                    return
                for b, f2 in self.decide(vals[i], f):
                    if is_and and not b:
                        yield False, f2
                    elif (not is_and) and b:
                        yield True, f2
                    else:
                        yield from rec(i + 1, f2)

            yield from rec(0, facts)
            return
        if isinstance(e, ast.UnaryOp) and isinstance(e.op, ast.Not):
            for b, f in self.decide(e.operand, facts):
                yield (not b), f
            return
        if isinstance(e, ast.IfExp):
            for b, f in self.decide(e.test, facts):
                yield from self.decide(e.body if b else e.orelse, f)
            return
        if isinstance(e, ast.Compare) and len(e.ops) > 1:
            parts = []
            left = e.left
            for op, right in zip(e.ops, e.comparators):
                parts.append(ast.Compare(left=left, ops=[op], comparators=[right]))
                left = right
            yield from self.decide(ast.BoolOp(op=ast.And(), values=parts), facts)
            return
        if isinstance(e, ast.Compare):
            op = e.ops[0]
            r = e.comparators[0]
            if isinstance(op, (ast.In, ast.NotIn)) and isinstance(r, (ast.Tuple, ast.List, ast.Set)) and not any(isinstance(x, ast.Starred) for x in r.elts):
                if not r.elts:
                    yield isinstance(op, ast.NotIn), facts
                    return
                alts = [ast.Compare(left=e.left, ops=[ast.Eq()], comparators=[x]) for x in r.elts]
                disj = ast.BoolOp(op=ast.Or(), values=alts) if len(alts) > 1 else alts[0]
                for b, f in self.decide(disj, facts):
                    yield (b if isinstance(op, ast.In) else not b), f
                return
            if not (free_of_forks(e.left, self) and free_of_forks(r, self)):
                for l2, f1 in self.value(e.left, facts):
                    for r2, f2 in self.value(r, f1):
                        yield from self._decide_atom(ast.Compare(left=l2, ops=[op], comparators=[r2]), f2)
                return
            yield from self._decide_atom(e, facts)
            return
        if isinstance(e, ast.Call):
            inl = self._inline_call(e, facts)
            if inl is not None:
                for v, f in inl:
                    yield from self.decide(v, f)
                return
            if chain(e.func) == "bool" and len(e.args) == 1 and not e.keywords:
                yield from self.decide(e.args[0], facts)
                return
        if not free_of_forks(e, self):
            for v, f in self.value(e, facts):
                yield from self._decide_atom(v, f)
            return
        yield from self._decide_atom(e, facts)

    def _decide_atom(self, e, facts):
        a = self._atom(e)
        cur = self._eval_atom(a, facts)
        if cur is not None:
            yield cur, facts
            return
        for val in (True, False):
            f = self._assume_atom(a, val, facts)
            if f is not None:
                yield val, f

    def entails(self, facts, cond):
        """cond is true in every consistent refinement of facts"""
        return all(b for b, _f in self.decide(cond, facts))

    def refutes(self, facts, cond):
        return all(not b for b, _f in self.decide(cond, facts))

    def assume(self, facts, cond, val=True):
        """list of refinements of facts in which cond has truth value val"""
        return [f for b, f in self.decide(cond, facts) if b == val]

    # ------------------------------------------------------------------ values
    def value(self, e, facts):
        """all (fork-free value expression, refined facts) of the resolved expression e"""
        if free_of_forks(e, self):
            yield e, facts
            return
        if isinstance(e, ast.IfExp):
            for b, f in self.decide(e.test, facts):
                yield from self.value(e.body if b else e.orelse, f)
            return
        if isinstance(e, ast.BoolOp):
            is_and = isinstance(e.op, ast.And)
            vals = e.values

            def rec(i, f):
                if i == len(vals) - 1:
                    yield from self.value(vals[i], f)
                    return
                for x, f1 in self.value(vals[i], f):
                    for b, f2 in self.decide(x, f1):
                        if b != is_and:  # `or`: first truthy operand; `and`: first falsy operand
                            yield x, f2
                        else:
                            yield from rec(i + 1, f2)

            yield from rec(0, facts)
            return
        if isinstance(e, ast.Call):
            fn = chain(e.func)
            if fn in ("min", "max") and len(e.args) >= 2 and not e.keywords and not any(isinstance(a, ast.Starred) for a in e.args):
                def fold(i, best, f):
                    if i == len(e.args):
                        yield best, f
                        return
                    for x, f1 in self.value(e.args[i], f):
                        if best is None:
                            yield from fold(i + 1, x, f1)
                            continue
                        cmp_ = ast.Compare(left=x, ops=[ast.Lt() if fn == "min" else ast.Gt()], comparators=[best])
                        for b, f2 in self.decide(cmp_, f1):
                            yield from fold(i + 1, x if b else best, f2)

                yield from fold(0, None, facts)
                return
            inl = self._inline_call(e, facts)
            if inl is not None:
                yield from inl
                return
        if isinstance(e, (ast.Lambda, ast.ListComp, ast.SetComp, ast.DictComp, ast.GeneratorExp)):
            yield e, facts
            return
        # generic: children one after the other
        slots = []
        for name, val in ast.iter_fields(e):
            if isinstance(val, ast.expr):
                slots.append((name, None, val))
            elif isinstance(val, list):
                for i, x in enumerate(val):
                    if isinstance(x, ast.expr):
                        slots.append((name, i, x))
                    elif isinstance(x, ast.keyword):
                        slots.append((name, i, x))

        def rec2(i, acc, f):
            if i == len(slots):
                yield acc, f
                return
            name, idx, child = slots[i]
            if isinstance(child, ast.keyword):
                for v, f1 in self.value(child.value, f):
                    nk = child if v is child.value else ast.keyword(arg=child.arg, value=v)
                    yield from rec2(i + 1, acc + [nk], f1)
            else:
                for v, f1 in self.value(child, f):
                    yield from rec2(i + 1, acc + [v], f1)

        for acc, f in rec2(0, [], facts):
            if all(a is s[2] for a, s in zip(acc, slots)):
                yield e, f
                continue
            kw = dict(ast.iter_fields(e))
            for (name, idx, _c), v in zip(slots, acc):
                if idx is None:
                    kw[name] = v
                else:
                    if kw[name] is getattr(e, name):
                        kw[name] = list(kw[name])
                    kw[name][idx] = v
            yield ast.copy_location(type(e)(**kw), e), f

    # ------------------------------------------------------------------ helper evaluation
    def _callee(self, call):
        """(FuncInfo-like (node, fi or None), bound receiver expr or None) of a call to a side-effect-free helper that is
        not part of the confirmed tree; None otherwise"""
        f = call.func
        prog = self.prog
        fi = self.fi
        if isinstance(f, ast.Name):
            d = self._defs_now.get(f.id)
            if d is not None:
                return d, None, False
            if fi is None:
                return None
            try:
                q = prog.resolve_in_module(fi.module, f.id)
            except Exception:
                q = None
            cf = prog.funcs.get(q) if q else None
            if cf is None or cf.cls is not None:
                return None
            return cf.node, None, False
        if isinstance(f, ast.Attribute) and fi is not None and fi.cls is not None:
            recv = chain(f.value)
            cq = None
            if recv in ("self", "cls"):
                cq = fi.cls.qn if hasattr(fi.cls, "qn") else fi.cls
            elif recv is not None:
                try:
                    q = prog.resolve_in_module(fi.module, recv)
                except Exception:
                    q = None
                if q in prog.classes:
                    cq = q
            if cq is None:
                return None
            m = prog.lookup_method(cq, f.attr)
            if m is None:
                return None
            # dynamically dispatched: another class of the family defines the same name
            for sc in prog.subclasses(cq):
                ci = prog.classes.get(sc)
                if sc != cq and ci is not None and f.attr in ci.methods:
                    return None
            decos = {ast.unparse(d) for d in m.node.decorator_list}
            if decos - {"staticmethod", "classmethod"}:
                return None
            static = "staticmethod" in decos
            return m.node, (None if static else f.value), (not static)
        return None

    @staticmethod
    def _pure_body(fn):
        if not isinstance(fn, ast.FunctionDef):
            return False
        a = fn.args
        if a.vararg or a.kwarg:
            return False

        def ok(stmts):
            for st in stmts:
                if isinstance(st, ast.Expr) and isinstance(st.value, ast.Constant):
                    continue
                if isinstance(st, ast.Pass):
                    continue
                if isinstance(st, ast.Return):
                    continue
                if isinstance(st, ast.Assign) and all(isinstance(t, ast.Name) for t in st.targets):
                    continue
                if isinstance(st, ast.If):
                    if not ok(st.body) or not ok(st.orelse):
                        return False
                    continue
                return False
            return True

        if not ok(fn.body):
            return False
        for n in ast.walk(fn):
            if isinstance(n, (ast.Await, ast.Yield, ast.YieldFrom, ast.NamedExpr, ast.Lambda)):
                return False
        return True

    def _inlinable(self, call):
        """(def node, receiver, has_self, qualified name) when the call goes to a side-effect-free helper that is not
        a function of the confirmed tree, else None"""
        if self._depth >= self.inline_depth:
            return None
        r = self._callee(call)
        if r is None:
            return None
        node, recv, has_self = r
        if id(node) not in self._inl_cache:
            qn = None
            for q, f in self.prog.funcs.items():
                if f.node is node:
                    qn = q
                    break
            ok = not (qn is not None and qn in baseline()) and self._pure_body(node)
            self._inl_cache[id(node)] = (ok, qn)
        ok, qn = self._inl_cache[id(node)]
        if not ok:
            return None
        if any(isinstance(a, ast.Starred) for a in call.args) or any(k.arg is None for k in call.keywords):
            return None
        return node, recv, has_self, qn

    def _inline_call(self, call, facts):
        """list of (return value, facts) of a helper evaluated in place, or None"""
        r = self._inlinable(call)
        if r is None:
            return None
        node, recv, has_self, qn = r
        a = node.args
        names = [x.arg for x in a.posonlyargs + a.args]
        env = {}
        if has_self and names:
            if recv is not None and not (isinstance(recv, ast.Name) and recv.id == names[0]):
                env[names[0]] = recv
            names = names[1:]
        if len(call.args) > len(names):
            return None
        for n_, v in zip(names, call.args):
            env[n_] = v
        for k in call.keywords:
            if k.arg not in names + [x.arg for x in a.kwonlyargs] or k.arg in env:
                return None
            env[k.arg] = k.value
        allp = a.posonlyargs + a.args
        for p, d in zip(reversed(allp), reversed(a.defaults)):
            env.setdefault(p.arg, d)
        for p, d in zip(a.kwonlyargs, a.kw_defaults):
            if d is not None:
                env.setdefault(p.arg, d)
        if any(n_ not in env for n_ in names):
            return None
        # identity bindings are dropped (the name stands for itself)
        env = {k: v for k, v in env.items() if not (isinstance(v, ast.Name) and v.id == k)}
        if isinstance(call.func, ast.Name) and call.func.id in self._defs_now:
            # a closure reads the enclosing function's locals
            env = dict(self._env_now, **env)
        cfi = _FakeFI(node, self.fi)
        sub = SymExec(self.prog, cfi, loop_bound=self.loop_bound, include_exc=False, max_paths=self.max_paths, inline_depth=self.inline_depth, _depth=self._depth + 1)
        sub._defs_now = dict(self._defs_now)
        sub._inl_cache = self._inl_cache
        sub.nonempty_when_set = self.nonempty_when_set
        sub.domains = self.domains
        out = []
        for p in sub.paths(facts=facts, env=env):
            if p.end == "return" and p.ret is not None:
                out.append((p.ret, p.facts))
            elif p.end in ("fall", "return"):
                out.append((ast.Constant(value=None), p.facts))
            else:
                return None
        self.inlined.append(qn or getattr(node, "name", "?"))
        return out

    # ------------------------------------------------------------------ path enumeration
    def subst(self, e, env, chains=None):
        if not env and not chains:
            return e
        return _Subst(env, chains or {}).visit(e)

    def paths(self, facts=None, env=None, assume=()):
        """enumerate the paths.  `assume`: [(condition source or AST, bool)] facts taken for granted at entry."""
        facts = facts or Facts()
        for cond, val in assume:
            if isinstance(cond, str):
                cond = parse(cond)
            fs = self.assume(facts, cond, val)
            if len(fs) != 1:
                raise AnalysisError("assumption %s is not atomic" % txt(cond))
            facts = fs[0]
        c = self.cfg
        st0 = _State(dict(env or {}), {}, facts, (), (), {}, NORET, {}, {}, 0)
        out = []
        stack = [(c.entry, st0, None)]
        while stack:
            nid, st, via = stack.pop()
            for item in self._step(nid, st, via):
                if isinstance(item, SPath):
                    out.append(item)
                    if len(out) > self.max_paths:
                        raise AnalysisError("symbolic execution of %s: more than %d paths" % (self.fi.short, self.max_paths))
                else:
                    stack.append(item)
        return out

    def _finish(self, st, end):
        return SPath(st.nodes, st.events, st.facts, st.env, st.chains, end, None if st.ret is NORET else st.ret, st.objs, st.defs)

    def _ev(self, st, kind, nid, node, **kw):
        return Ev(kind, nid, node, st.env, st.chains, st.facts, **kw)

    def _step(self, nid, st, via):
        c = self.cfg
        node = c.nodes[nid]
        n_seen = st.cnt.get(nid, 0)
        if n_seen > self.loop_bound + 1:
            yield self._finish(st, "cut")
            return
        cnt = dict(st.cnt)
        cnt[nid] = n_seen + 1
        st = st.but(nodes=st.nodes + (nid,), cnt=cnt)
        if nid == c.exit:
            yield self._finish(st, "fall" if st.ret is NORET else "return")
            return
        if nid == c.rexit:
            yield self._finish(st, "raise")
            return
        succ = c.succ[nid]
        normal = [(d, l) for d, l in succ if l != "exc"]
        excs = [(d, l) for d, l in succ if l == "exc"]
        self._defs_now = st.defs
        self._env_now = st.env
        k = node.kind
        # exceptional continuation into a handler of this function: the statement's effect did not happen
        if self.include_exc and k in ("stmt", "return", "test", "for", "with"):
            for d, _l in excs:
                if c.nodes[d].kind == "handler":
                    ev = self._ev(st, "exc", nid, node.ast, value=d)
                    yield (d, st.but(events=st.events + (ev,)), "exc")
        if k in ("entry", "join", "T", "F"):
            for d, _l in normal:
                yield (d, st, None)
            return
        if k == "handler":
            h = node.ast
            env = st.env
            if h.name:
                env = dict(env)
                env[h.name] = ast.Name(id="%s@%d" % (h.name, nid), ctx=ast.Load())
            st2 = st.but(env=env)
            st2 = st2.but(events=st2.events + (self._ev(st2, "handler", nid, h),))
            for d, _l in normal:
                yield (d, st2, None)
            return
        if k == "with":
            w = node.ast
            st2 = st
            for it in w.items:
                raw = it.context_expr
                for v, f in self.value(self.subst(raw, st2.env, st2.chains), st2.facts):
                    st2 = st2.but(facts=f)
                    st2 = st2.but(events=st2.events + (self._ev(st2, "expr", nid, w, value=v, raw=raw),))
                    break
                if it.optional_vars is not None:
                    env = dict(st2.env)
                    for x in ast.walk(it.optional_vars):
                        if isinstance(x, ast.Name):
                            env[x.id] = ast.Name(id="%s@%d" % (x.id, nid), ctx=ast.Load())
                    st2 = st2.but(env=env)
            for d, _l in normal:
                yield (d, st2, None)
            return
        if k == "test":
            e = self.subst(node.ast, st.env, st.chains)
            for b, f in self.decide(e, st.facts):
                st2 = st.but(facts=f)
                st2 = st2.but(events=st2.events + (self._ev(st, "test", nid, node.ast, value=e, outcome=b, raw=node.ast),))
                for d, l in normal:
                    if l == ("T" if b else "F"):
                        yield (d, st2, None)
            return
        if k == "for":
            f_ = node.ast
            it = self.subst(f_.iter, st.env, st.chains)
            iters = n_seen
            for d, l in normal:
                if l == "T" and iters < self.loop_bound:
                    env = dict(st.env)
                    fresh = {}
                    for x in ast.walk(f_.target):
                        if isinstance(x, ast.Name):
                            fresh[x.id] = ast.Name(id="%s@%d" % (x.id, st.fresh + 1), ctx=ast.Load())
                    env.update(fresh)
                    st2 = st.but(env=env, fresh=st.fresh + 1)
                    st2 = st2.but(events=st2.events + (self._ev(st2, "for", nid, f_, value=it, target=_rename_target(f_.target, fresh), raw=f_.iter),))
                    yield (d, st2, None)
                elif l == "F":
                    yield (d, st, None)
            return
        if k == "raise":
            r = node.ast
            exc = self.subst(r.exc, st.env, st.chains) if r.exc is not None else None
            st2 = st.but(events=st.events + (self._ev(st, "raise", nid, r, value=exc, raw=r.exc),))
            for d, _l in excs:
                if c.nodes[d].kind == "handler":
                    # an explicit raise caught in this function is ordinary control flow (followed also without include_exc)
                    yield (d, st2.but(events=st2.events + (self._ev(st2, "exc", nid, r, value=d),)), "exc")
                elif d == c.rexit:
                    yield self._finish(st2.but(nodes=st2.nodes + (d,)), "raise")
                else:
                    # finally copy on the exceptional continuation
                    yield (d, st2, None)
            if not excs:
                yield self._finish(st2, "raise")
            return
        if k == "return":
            r = node.ast
            if r.value is None:
                st2 = st.but(ret=None, events=st.events + (self._ev(st, "ret", nid, r, value=None),))
                for d, _l in normal:
                    yield (d, st2, None)
                return
            e = self.subst(r.value, st.env, st.chains)
            for v, f in self.value(e, st.facts):
                st2 = st.but(facts=f)
                st2 = st2.but(ret=v, events=st2.events + (self._ev(st2, "ret", nid, r, value=v, raw=r.value),))
                for d, _l in normal:
                    yield (d, st2, None)
            return
        # plain statements
        s = node.ast
        for st2 in self._exec(nid, s, st):
            for d, _l in normal:
                yield (d, st2, None)

    def _exec(self, nid, s, st):
        if isinstance(s, (ast.FunctionDef, ast.AsyncFunctionDef)):
            defs = dict(st.defs)
            defs[s.name] = s
            env = dict(st.env)
            env.pop(s.name, None)
            st2 = st.but(defs=defs, env=env)
            yield st2.but(events=st2.events + (self._ev(st2, "def", nid, s),))
            return
        if isinstance(s, ast.Assign):
            e = self.subst(s.value, st.env, st.chains)
            for v, f in self.value(e, st.facts):
                st2 = st.but(facts=f)
                for t in s.targets:
                    st2 = self._bind(nid, s, t, v, st2, raw=s.value)
                yield st2
            return
        if isinstance(s, ast.AnnAssign):
            if s.value is None:
                yield st
                return
            e = self.subst(s.value, st.env, st.chains)
            for v, f in self.value(e, st.facts):
                yield self._bind(nid, s, s.target, v, st.but(facts=f), raw=s.value)
            return
        if isinstance(s, ast.AugAssign):
            cur = self.subst(_as_load(s.target), st.env, st.chains)
            e = ast.BinOp(left=cur, op=s.op, right=self.subst(s.value, st.env, st.chains))
            ast.copy_location(e, s)
            for v, f in self.value(e, st.facts):
                yield self._bind(nid, s, s.target, v, st.but(facts=f), raw=s.value)
            return
        if isinstance(s, ast.Expr):
            e = self.subst(s.value, st.env, st.chains)
            for v, f in self.value(e, st.facts):
                st2 = st.but(facts=f)
                yield st2.but(events=st2.events + (self._ev(st2, "expr", nid, s, value=v, raw=s.value),))
            return
        if isinstance(s, ast.Delete):
            st2 = st
            for t in s.targets:
                if isinstance(t, ast.Subscript):
                    cont = self.subst(_as_load(t.value), st2.env, st2.chains)
                    key = self.subst(t.slice, st2.env, st2.chains)
                    st2 = st2.but(events=st2.events + (self._ev(st2, "delitem", nid, s, target=cont, key=key),))
                elif isinstance(t, ast.Name):
                    env = dict(st2.env)
                    env.pop(t.id, None)
                    st2 = st2.but(env=env)
                else:
                    tt = self.subst(_as_load(t), st2.env, st2.chains)
                    st2 = st2.but(events=st2.events + (self._ev(st2, "del", nid, s, target=tt),))
            yield st2
            return
        # Pass, Import, Global, Nonlocal, Assert, Break, Continue, ClassDef, match subject: no effect tracked
        yield st

    def _bind(self, nid, s, target, v, st, raw=None):
        if isinstance(target, ast.Name):
            env = dict(st.env)
            objs = st.objs
            if _is_mutable_ctor(v):
                objs = dict(objs)
                objs[target.id] = v
                env.pop(target.id, None)
            else:
                env[target.id] = v
            ev = self._ev(st, "bind", nid, s, target=target.id, value=v, raw=raw)
            return st.but(env=env, objs=objs, events=st.events + (ev,))
        if isinstance(target, (ast.Tuple, ast.List)):
            elts = target.elts
            if isinstance(v, (ast.Tuple, ast.List)) and len(v.elts) == len(elts) and not any(isinstance(x, ast.Starred) for x in list(v.elts) + list(elts)):
                vals = list(v.elts)
            else:
                vals = [ast.Subscript(value=v, slice=ast.Constant(value=i), ctx=ast.Load()) for i in range(len(elts))]
                if any(isinstance(x, ast.Starred) for x in elts):
                    vals = [ast.Name(id="<unpacked@%d_%d>" % (nid, i), ctx=ast.Load()) for i in range(len(elts))]
            first = True
            for t, x in zip(elts, vals):
                if isinstance(t, ast.Starred):
                    t = t.value
                st = self._bind(nid, s, t, x, st, raw=raw if first else None)
                first = False
            return st
        if isinstance(target, ast.Attribute):
            tt = self.subst(_as_load(target), st.env, {})  # the object the attribute lives on, resolved; the attribute itself is the slot
            tt2 = ast.Attribute(value=self.subst(_as_load(target.value), st.env, st.chains), attr=target.attr, ctx=ast.Load())
            c = chain(tt)
            chains = st.chains
            if c is not None:
                chains = {k: x for k, x in chains.items() if not k.startswith(c + ".")}
                chains[c] = v
            ev = self._ev(st, "store", nid, s, target=tt2, value=v, raw=raw)
            return st.but(chains=chains, events=st.events + (ev,))
        if isinstance(target, ast.Subscript):
            cont = self.subst(_as_load(target.value), st.env, st.chains)
            key = self.subst(target.slice, st.env, st.chains)
            ev = self._ev(st, "setitem", nid, s, target=cont, key=key, value=v, raw=raw)
            return st.but(events=st.events + (ev,))
        return st

    # ------------------------------------------------------------------ queries
    def resolve(self, e, ev):
        """value of expression e (written in the function's own names) at event ev"""
        return self.subst(e, ev.env, ev.chains)

    def calls(self, path, kinds=None):
        """(event, original call node, resolved call) for every call site executed on the path, in order.  Calls
        inside lambdas / nested defs are not executed here and not reported."""
        for ev in path.events:
            if ev.raw is None or (kinds and ev.kind not in kinds):
                continue
            sites = [n for n in _walk_values(ev.raw) if isinstance(n, ast.Call)]
            sites.sort(key=lambda n: (getattr(n, "end_lineno", 0), getattr(n, "end_col_offset", 0)))
            for cl in sites:
                yield ev, cl, self.subst(cl, ev.env, ev.chains)


class _FakeFI:
    """FuncInfo stand-in for a helper evaluated in place (cfg_of caches on the object)."""

    def __init__(self, node, outer):
        self.node = node
        self.module = getattr(outer, "module", None)
        self.cls = getattr(outer, "cls", None)
        self.short = getattr(node, "name", "<helper>")
        self.qn = self.short
        self.parent = outer


def _as_load(t):
    return t


def _rename_target(t, fresh):
    """loop target with its names replaced by the fresh symbols of this iteration (Load context)"""
    if isinstance(t, ast.Name):
        return fresh.get(t.id, t)
    if isinstance(t, (ast.Tuple, ast.List)):
        return type(t)(elts=[_rename_target(x, fresh) for x in t.elts], ctx=ast.Load())
    if isinstance(t, ast.Starred):
        return ast.Starred(value=_rename_target(t.value, fresh), ctx=ast.Load())
    return t


def _is_mutable_ctor(v):
    if isinstance(v, (ast.List, ast.Dict, ast.Set, ast.ListComp, ast.SetComp, ast.DictComp)):
        return True
    if isinstance(v, ast.Call) and chain(v.func) in MUTABLE_CTORS:
        return True
    return False


def callable_body(sx, path, e, ev):
    """Uniform view of a callable value handed to somebody who invokes it without arguments: lambda (also with
    default-argument binding), nested def, functools.partial(f, a...), bound method.
    -> the call expression performed by the invocation, resolved at event ev (free variables of a lambda / nested def
    are read when it runs, i.e. at ev, defaults and partial arguments when it is created), or None."""
    if isinstance(e, ast.Lambda):
        a = e.args
        env = dict(ev.env)
        allp = a.posonlyargs + a.args
        bound = {}
        for p, d in zip(reversed(allp), reversed(a.defaults)):
            bound[p.arg] = d
        for p, d in zip(a.kwonlyargs, a.kw_defaults):
            if d is not None:
                bound[p.arg] = d
        if len(bound) != len(allp) + len(a.kwonlyargs) or a.vararg or a.kwarg:
            return None
        env.update(bound)
        body = e.body
        if isinstance(body, ast.Await):
            body = body.value
        return _Subst(env, ev.chains).visit(body)
    if isinstance(e, ast.Name) and e.id in path.defs:
        d = path.defs[e.id]
        if d.args.args or d.args.posonlyargs or d.args.kwonlyargs or d.args.vararg or d.args.kwarg:
            return None
        body = [s for s in d.body if not (isinstance(s, ast.Expr) and isinstance(s.value, ast.Constant))]
        if len(body) == 1 and isinstance(body[0], (ast.Return, ast.Expr)) and body[0].value is not None:
            v = body[0].value
            if isinstance(v, ast.Await):
                v = v.value
            return sx.subst(v, ev.env, ev.chains)
        return None
    if isinstance(e, ast.Call) and (chain(e.func) or "").split(".")[-1] == "partial" and e.args:
        return ast.Call(func=e.args[0], args=list(e.args[1:]), keywords=list(e.keywords))
    if isinstance(e, ast.Attribute):
        return ast.Call(func=e, args=[], keywords=[])
    return None
